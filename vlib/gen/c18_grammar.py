"""C18 grammar: syntactically valid Exactly test cases as *token lists*, every instruction of every phase,
every type of `def`, every form of every syntax element of `exactly help syntax` (depth bounded).

Independent of the code under test.  Everything a generated case can execute is harmless by construction
(DESIGN 2.3): the vocabulary below is closed - programs are echo/printf/cat/true/false/exit N/sh/the Python
interpreter with fixed one-line sources; INTEGER expressions come from a fixed list; there is no `..`, no absolute
path, no `rm`, no loop construct, no token that joins to a huge power expression (tokens are always separated by
blanks, and `**` is not a token).  Mutations (c18_mutate.py) only rearrange / cut / replace tokens of this
vocabulary, so a mutated case is harmless too.

A *token* is [text, kind].  kinds: kw (keyword / option / instruction name), nl (line break), hdr (phase header),
int, regex, repl, glob, range, str, path, name (symbol name at a definition), ref:TYPE (symbol used by name),
sref:TYPE (@[..]@ reference), text (free text: here-document lines, shell / source text), heredoc (<<MARKER), marker
(the line that ends a here-document), tmo (the INTEGER of `timeout`), envname (NAME of `env`), rel (a relativity
option), enum:SET (a word of a closed set: status / ftype / bool / of / case), cmt, desc.
A *document* is {'elems': [{'ph': phase, 'name': instruction, 'toks': [...]}, ...]} - an element is a phase header,
an instruction (possibly several lines), a comment, a blank line or a description.
"""
from hypothesis import strategies as st

NL = ['\n', 'nl']

IPHASES = ['setup', 'before-assert', 'assert', 'cleanup']
PHASES = ['conf', 'setup', 'act', 'before-assert', 'assert', 'cleanup']

TYPES = ['string', 'list', 'path', 'integer-matcher', 'line-matcher', 'file-matcher', 'files-matcher',
         'files-condition', 'files-source', 'text-source', 'text-matcher', 'text-transformer', 'program']
SYM = {'string': 'S', 'list': 'L', 'path': 'P', 'integer-matcher': 'IM', 'line-matcher': 'LM',
       'file-matcher': 'FM', 'files-matcher': 'FSM', 'files-condition': 'FC', 'files-source': 'FSRC',
       'text-source': 'TS', 'text-matcher': 'TM', 'text-transformer': 'TT', 'program': 'PGM',
       'int-string': 'N', 'dir-path': 'PD', 'home-path': 'PH'}
# what the auxiliary symbols are, type-wise
SYM_TYPE = {'int-string': 'string', 'dir-path': 'path', 'home-path': 'path'}

# ---- the world the cases live in (materialised by the check) ---------------------------------------------------------
_BASE_FILES = {
    'data.txt': 'a\nb\nc\n',
    'prog.py': 'import sys\nsys.stdout.write(sys.stdin.read())\n',
    'prog.sh': '#!/bin/sh\ncat\n',
    'x.txt': 'x\n',
}
# `home = hd` / `act-home = hd` must not change what the home-relative names mean: hd is a copy of the home directory
HOME_FILES = dict(_BASE_FILES)
HOME_FILES.update({'hd/' + k: v for k, v in _BASE_FILES.items()})
HOME_FILES['hd/hd/x.txt'] = 'x\n'
EXECUTABLE = ['prog.sh', 'hd/prog.sh']
INC_NAME = 'inc.xly'

WORDS = ['a', 'b', 'c', 'hi', 'abc', 'x', 'é', 'A1', 'b-c', 'ü✓']
# words of an instruction description ("a free text"): also what a careless rendering of the report could take for
# markup of its own (format fields, % directives, escapes, symbol references)
DESC_WORDS = WORDS + ['{', '}', '{}', '{0}', '{x}', '${PATH}', '%s', '%d', '%(a)s', '{{', '}}', '\\', '@[X]@', "it's",
                      '"q', '<b>', '&amp;', '$x', 'é{', '{delimiter}', '%', '{0', 'a}b', '\\n', '{x!r}', '{:>3}']
INTS_GOOD = ['0', '1', '2', '3', '-1', '10', '1+1', '2*3', '(1+2)', '"1 + 1"', "'3'", '7', '0x10', '-0']
DEPTH_GOOD = ['0', '1', '2', '1+1', '"1"', '10**100']
REGEX_GOOD = ['a', 'b', "'a.c'", '"b+"', "'^x$'", "'(a)(b)?'", "'[ab]'", "'a|c'", "'\\w+'", 'hi', "'^$'"]
REPL_GOOD = ['x', "''", '"<>"', "'[\\g<0>]'", 'A', "'\\n'", "'a b'"]
GLOB_GOOD = ['*.txt', "'f*'", '?.txt', "'[a-f]*'", '"*"', 'g.txt', "'d/*'", "'[!x]*'"]
RANGE_GOOD = ['1', ':2', '2:', '1:3', '-1', '-2:', ':-1', '1+1:3', '"2"']
NEW_FILE_NAMES = ['n%d.txt' % i for i in range(1, 9)]
NEW_DIR_NAMES = ['nd%d' % i for i in range(1, 9)]

SHELL_LINES = [['echo', 'hi'], ['printf', "'a\\nb\\nc\\n'"], ['true'], ['cat', 'f.txt'], ['echo', 'a', 'b', '|', 'cat'],
               ['exit', '0'], ['echo', 'é'], ['echo', 'x', '>', 'out.txt'], ['cat', '<', 'f.txt'],
               ['echo', 'err', '>&2']]
SHELL_LINES_FAILING = [['exit', '3'], ['false'], ['exit', '1']]
# statements only: a source that lands in an INTEGER position after a mutation is a Python syntax error for eval()
PY_SOURCES = ["'pass'", "'import sys; sys.stdout.write(str(1))'", '"import sys; sys.exit(0)"',
              "'import sys; sys.stdout.write(sys.stdin.read())'"]


class G:
    """One generation run.  All randomness comes from `draw` (a Hypothesis draw function)."""

    def __init__(self, draw, focus=None):
        self.draw = draw
        self.focus = focus  # token kind the case should contain (int / regex / repl / glob / range / ref) or None
        self.defined = set()  # keys of SYM that are defined (in execution order before the current instruction)
        self.new_files = 0
        self.new_dirs = 0
        self.toks = None
        self.need_nl = False
        self.elems = []

    # ---- drawing ----------------------------------------------------------------------------------------------
    def n(self, k):
        """0 <= value < k; 0 is 'the plain choice'"""
        return self.draw(st.integers(0, k - 1)) if k > 1 else 0

    def pick(self, seq):
        return seq[self.n(len(seq))]

    def maybe(self, one_in=2):
        return self.n(one_in) == one_in - 1

    def perm(self, seq):
        return list(self.draw(st.permutations(seq)))

    def want(self, *kinds):
        """bias towards productions that contain a token of the focused kind"""
        return self.focus in kinds and self.maybe(2)

    # ---- token emission ----------------------------------------------------------------------------------------
    def begin(self):
        self.toks = []
        self.need_nl = False

    def t(self, text, kind='kw'):
        if self.need_nl:
            self.nl()
        self.toks.append([text, kind])

    def nl(self):
        self.need_nl = False
        if self.toks and self.toks[-1] != NL:
            self.toks.append(list(NL))

    def eol(self):
        """what follows must start on a new line"""
        self.need_nl = True

    def end(self, ph, name):
        self.need_nl = False
        toks = self.toks
        while toks and toks[-1] == NL:
            toks.pop()
        self.elems.append({'ph': ph, 'name': name, 'toks': toks})
        self.toks = None

    def has(self, key):
        return key in self.defined

    # ---- strings ---------------------------------------------------------------------------------------------------
    def word(self):
        return self.pick(WORDS)

    def string(self, kind='str', values=None):
        """STRING: naked / soft / hard / concatenation / with symbol reference"""
        v = self.pick(values) if values else self.word()
        form = self.n(6)
        if form == 0:
            self.t(v, kind)
        elif form == 1:
            self.t('"%s"' % v, kind)
        elif form == 2:
            self.t("'%s'" % v, kind)
        elif form == 3:
            self.t('%s"%s"\'%s\'' % (v, self.word(), self.word()), kind)
        elif form == 4 and self.has('string'):
            self.t(self.pick(['@[S]@', '"@[S]@"', 'pre@[S]@post', '"a @[S]@ b"']), kind)
        else:
            self.t('"%s %s"' % (v, self.word()), kind)

    def text_words(self, lo=0, hi=3):
        for _ in range(lo + self.n(hi - lo + 1)):
            w = self.pick(WORDS + ['@[S]@'] if self.has('string') else WORDS)
            self.t(w, 'text')

    def here_doc(self, min_lines=0):
        marker = self.pick(['EOF', 'EOF', 'END', 'MARKER_1', 'eof-2'])
        self.t('<<' + marker, 'heredoc')
        self.nl()
        for _ in range(min_lines + self.n(4 - min_lines)):
            self.text_words(1, 3)
            self.nl()
        self.t(marker, 'marker')
        self.eol()

    def rich_string(self, kind='str', values=None, allow_multi=True, non_empty=False):
        form = self.n(8)
        if form == 6 and allow_multi:
            self.t(':>', 'kw')
            self.text_words(1, 3)
            self.eol()
        elif form == 7 and allow_multi:
            self.here_doc(1 if non_empty else 0)
        else:
            self.string(kind, values)

    # ---- paths --------------------------------------------------------------------------------------------------------
    def path(self, rels, names, force_rel=None, kind='path'):
        """[RELATIVITY] FILE-NAME.  rels: accepted options whose root makes `names` meaningful (None: default only)."""
        if force_rel is not None:
            self.t(force_rel, 'rel')
        elif rels and self.maybe(2):
            self.t(self.pick(rels), 'rel')
        name = self.pick(names)
        form = self.n(4)
        if form == 1:
            name = '"%s"' % name
        elif form == 2:
            name = "'%s'" % name
        self.t(name, kind)

    def existing_file(self):
        """PATH of an existing regular file with accepted relativities home / act / tmp / cd / act-home"""
        k = self.n(6)
        if k == 5 and self.has('home-path'):
            self.t('@[PH]@', 'sref:path')
        elif k == 0:
            self.path(['-rel-act', '-rel-cd'], ['f.txt', 'd/g.txt'], force_rel='-rel-act')
        elif k == 1:
            self.path(None, ['data.txt', 'x.txt'], force_rel=self.pick(['-rel-home', '-rel-act-home']))
        elif k == 2 and self.has('path'):
            self.t('@[P]@', 'sref:path')
        elif k == 3 and self.has('dir-path'):
            self.t('-rel', 'rel')
            self.t('PD', 'ref:path')
            self.t('g.txt', 'path')
        else:
            self.path(None, ['f.txt', 'd/g.txt'], force_rel='-rel-act')

    def existing_dir(self):
        k = self.n(3)
        if k == 1:
            self.path(None, ['hd'], force_rel='-rel-home')
        elif k == 2 and self.has('dir-path'):
            self.t('@[PD]@', 'sref:path')
        else:
            self.path(None, ['d', 'd/e'], force_rel='-rel-act')

    def new_file(self):
        self.new_files += 1
        name = NEW_FILE_NAMES[(self.new_files - 1) % len(NEW_FILE_NAMES)]
        if self.new_files > len(NEW_FILE_NAMES):
            name = 'x%d-%s' % (self.new_files, name)
        rel = self.pick([None, '-rel-act', '-rel-tmp', '-rel-cd'])
        if rel:
            self.t(rel, 'rel')
        self.t(name, 'path')

    def new_dir(self):
        self.new_dirs += 1
        name = NEW_DIR_NAMES[(self.new_dirs - 1) % len(NEW_DIR_NAMES)]
        if self.new_dirs > len(NEW_DIR_NAMES):
            name = 'x%d-%s' % (self.new_dirs, name)
        rel = self.pick([None, '-rel-act', '-rel-tmp', '-rel-cd'])
        if rel:
            self.t(rel, 'rel')
        self.t(name + self.pick(['', '', '/sub']), 'path')

    # ---- integers -----------------------------------------------------------------------------------------------------
    def integer(self):
        if self.has('int-string') and self.maybe(6):
            self.t(self.pick(['@[N]@', '"@[N]@ + 1"', '@[N]@*2']), 'int')
        else:
            self.t(self.pick(INTS_GOOD), 'int')

    def sym(self, key, prob=5):
        """reference to a symbol of the type by name or by @[..]@ - returns True if emitted"""
        if self.has(key) and self.maybe(2 if self.focus == 'ref' else prob):
            typ = SYM_TYPE.get(key, key)
            if self.maybe(4):
                self.t('@[%s]@' % SYM[key], 'sref:' + typ)
            else:
                self.t(SYM[key], 'ref:' + typ)
            return True
        return False

    def infix(self, operand, ops, d):
        """( A OP B [OP C] ) - infix operators are always generated inside parentheses (safe everywhere)"""
        self.t('(', 'kw')
        operand(d - 1)
        for _ in range(1 + self.n(2)):
            self.t(self.pick(ops), 'kw')
            operand(d - 1)
        self.t(')', 'kw')

    def int_matcher(self, d=2):
        if self.sym('integer-matcher'):
            return
        form = self.n(8) if d > 0 else self.n(4)
        if form <= 2:
            self.t(self.pick(['==', '!=', '<', '<=', '>', '>=']), 'kw')
            self.integer()
        elif form == 3:
            self.t('constant', 'kw')
            self.t(self.pick(['true', 'false']), 'enum:bool')
        elif form == 4:
            self.t('!', 'kw')
            self.int_matcher(d - 1)
        elif form == 5:
            self.t('(', 'kw')
            self.int_matcher(d - 1)
            self.t(')', 'kw')
        else:
            self.infix(self.int_matcher, ['&&', '||'], d)

    # ---- regex, glob ------------------------------------------------------------------------------------------
    def regex(self):
        if self.maybe(4):
            self.t('-ignore-case', 'kw')
        k = self.n(10)
        if k == 6 and self.has('string'):
            self.t(self.pick(['@[S]@', '"^@[S]@"']), 'regex')
        elif k == 8 or (k == 9 and not self.has('home-path')):
            # a regex whose value depends on a directory of the home directory structure
            self.t(self.pick(['@[EXACTLY_HOME]@', '"^@[EXACTLY_HOME]@"', '"@[EXACTLY_ACT_HOME]@/x"']), 'regex')
        elif k == 9:
            self.t(self.pick(['@[PH]@', '"@[PH]@$"']), 'regex')
        elif k == 7:
            self.t(':>', 'kw')
            self.t(self.pick(['a', 'b c', 'x+']), 'regex')
            self.eol()
        else:
            self.t(self.pick(REGEX_GOOD), 'regex')

    def glob_or_regex(self):
        if self.want('regex') or (self.focus != 'glob' and self.maybe(3)):
            self.t('~', 'kw')
            self.regex()
        else:
            self.t(self.pick(GLOB_GOOD), 'glob')

    # ---- programs ----------------------------------------------------------------------------------------------
    def shell_words(self, failing_ok=False):
        line = self.pick(SHELL_LINES + SHELL_LINES_FAILING) if (failing_ok and self.maybe(4)) else self.pick(SHELL_LINES)
        for w in line:
            self.t(w, 'text')
        self.eol()

    def program_arguments(self):
        for _ in range(self.n(4)):
            k = self.n(9)
            if k == 5 and self.has('list'):
                self.t(self.pick(['@[L]@', '"@[L]@"']), 'sref:list')
            elif k == 6:
                self.t(self.pick(['-existing-file', '-existing-path']), 'kw')
                self.path(None, ['data.txt'], force_rel='-rel-home')
            elif k == 7:
                self.t('-existing-dir', 'kw')
                self.path(None, ['hd'], force_rel='-rel-home')
            elif k == 8 and self.has('path'):
                self.t('@[P]@', 'sref:path')
            else:
                self.string()
        k = self.n(10)
        if k == 8:
            self.t(':>', 'kw')
            self.text_words(1, 3)
        elif k == 9:
            self.here_doc()
        self.eol()

    def pgm_and_args(self, failing_ok=False):
        """PGM-AND-ARGS (runs to end of line)"""
        k = self.n(9)
        if self.want('path', 'rel'):
            k = self.pick([6, 7, 7])
        if k <= 1:
            self.t('%', 'kw')
            if self.maybe(5):
                self.t('cat', 'str')  # no arguments: copies stdin
                self.eol()
            else:
                self.t(self.pick(['echo', 'echo', 'true'] + (['false'] if failing_ok else [])), 'str')
                self.program_arguments()
        elif k <= 3:
            self.t('$', 'kw')
            self.shell_words(failing_ok)
        elif k == 4 and self.has('program'):
            self.t('@', 'kw')
            self.t('PGM', 'ref:program')
            self.program_arguments()
        elif k == 5:
            self.t('-python', 'kw')
            self.t('-c', 'str')
            self.t(self.pick(PY_SOURCES), 'str')
            self.eol()
        elif k == 6:
            self.t('-python', 'kw')
            self.t('-existing-file', 'kw')
            self.path(None, ['prog.py'], force_rel=self.pick(['-rel-home', '-rel-act-home']))
            self.eol()
        elif k == 7:
            self.path(None, ['prog.sh'], force_rel=self.pick([None, '-rel-home', '-rel-act-home']) )
            self.program_arguments()
        else:
            self.t('%', 'kw')
            self.t('echo', 'str')
            self.program_arguments()

    def program(self, d=1, failing_ok=False, allow_transf=True):
        """PROGRAM = PGM-AND-ARGS [-stdin TS] [-transformed-by TT], optionally within parentheses"""
        paren = self.maybe(5)
        if paren:
            self.t('(', 'kw')
        self.pgm_and_args(failing_ok)
        if d > 0 and self.maybe(4):
            self.nl()
            self.t('-stdin', 'kw')
            self.text_source(d - 1, allow_program=False)
            self.eol()
        if d > 0 and allow_transf and self.maybe(5):
            self.nl()
            self.t('-transformed-by', 'kw')
            self.transformer(d - 1, simple=True)
            self.eol()
        if paren:
            self.nl()
            self.t(')', 'kw')
        else:
            self.eol()

    # ---- text source ------------------------------------------------------------------------------------------
    def transformation(self, d):
        if d > 0 and self.maybe(4):
            self.t('-transformed-by', 'kw')
            self.transformer(d - 1, simple=True)

    def text_source(self, d=1, allow_program=True, allow_multi=True):
        paren = self.maybe(8)
        if paren:
            self.t('(', 'kw')
        k = self.n(10)
        if k == 5 and self.has('text-source'):
            self.t('@[TS]@', 'sref:text-source')
            self.transformation(d)
        elif k == 6 and self.has('string'):
            self.t('@[S]@', 'sref:string')
            self.transformation(d)
        elif k == 7:
            self.t('-contents-of', 'kw')
            self.existing_file()
            self.transformation(d)
        elif k >= 8 and allow_program and d > 0:
            self.t(self.pick(['-stdout-from', '-stderr-from']), 'kw')
            if self.maybe(3):
                self.t('-ignore-exit-code', 'kw')
            self.program(d - 1)
        else:
            multi = allow_multi and not paren
            self.rich_string(allow_multi=multi)
            if not self.need_nl:
                self.transformation(d)
        if paren:
            self.t(')', 'kw')

    # ---- text transformer -------------------------------------------------------------------------------------
    def transformer(self, d=2, simple=False):
        """simple: no infix operator outside parentheses (always the case here) """
        if self.sym('text-transformer'):
            return
        form = self.n(13) if d > 0 else self.n(7)
        if self.want('repl'):
            form = 4
        elif self.want('range'):
            form = 6
        elif self.want('regex'):
            form = self.pick([3, 4])
        if form == 0:
            self.t('identity', 'kw')
        elif form == 1:
            self.t('char-case', 'kw')
            self.t(self.pick(['-to-upper', '-to-lower']), 'enum:case')
        elif form == 2:
            self.t('strip', 'kw')
            k = self.n(3)
            if k:
                self.t(['-trailing-space', '-trailing-new-lines'][k - 1], 'kw')
        elif form == 3:
            self.t('grep', 'kw')
            if self.maybe(3):
                self.t('-full', 'kw')
            self.regex()
        elif form == 4:
            self.t('replace', 'kw')
            if d > 0 and self.maybe(4):
                self.t('-at', 'kw')
                self.line_matcher(d - 1)
            if self.maybe(3):
                self.t('-preserve-new-lines', 'kw')
            k = self.n(8)
            if k == 6:
                self.t(self.pick(['@[EXACTLY_HOME]@', '"@[EXACTLY_ACT_HOME]@"', '"@[EXACTLY_ACT]@"']), 'regex')
            elif k == 7 and self.has('home-path'):
                self.t('@[PH]@', 'regex')
            else:
                self.t(self.pick(REGEX_GOOD), 'regex')
            k = self.n(8)
            if k == 7:
                self.t(self.pick(['@[EXACTLY_HOME]@', '"<@[EXACTLY_TMP]@>"']), 'repl')
            elif k == 6 and self.has('string'):
                self.t(self.pick(['@[S]@', '"[@[S]@]"']), 'repl')
            else:
                self.t(self.pick(REPL_GOOD), 'repl')
        elif form == 5:
            self.t('replace-test-case-dirs', 'kw')
        elif form == 6:
            self.t('filter', 'kw')
            self.t('-line-nums', 'kw')
            for _ in range(1 + self.n(3)):
                self.t(self.pick(RANGE_GOOD), 'range')
            self.eol()
        elif form == 7 or form == 8:
            self.t('filter', 'kw')
            self.line_matcher(d - 1)
        elif form == 9:
            self.t('run', 'kw')
            if self.maybe(3):
                self.t('-ignore-exit-code', 'kw')
            self.program(0, allow_transf=False)
        elif form == 10:
            self.t('(', 'kw')
            self.transformer(d - 1)
            self.t(')', 'kw')
        else:
            self.infix(self.transformer, ['|'], d)

    # ---- matchers ----------------------------------------------------------------------------------------------
    def text_matcher(self, d=2):
        if self.sym('text-matcher'):
            return
        form = self.n(16) if d > 0 else self.n(6)
        if d > 0 and self.want('repl', 'range'):
            form = 11
        elif self.want('regex'):
            form = 2
        elif d > 0 and self.want('int'):
            form = 6
        if form == 0:
            self.t('is-empty', 'kw')
        elif form == 1:
            self.t('constant', 'kw')
            self.t(self.pick(['true', 'false']), 'enum:bool')
        elif form == 2 or form == 3:
            self.t(self.pick(['matches', '~']), 'kw')
            if self.maybe(3):
                self.t('-full', 'kw')
            self.regex()
        elif form == 4 or form == 5:
            self.t(self.pick(['equals', '==']), 'kw')
            self.text_source(d - 1)
        elif form == 6 or form == 7:
            self.t('num-lines', 'kw')
            self.int_matcher(d - 1)
        elif form == 8 or form == 9:
            self.t(self.pick(['every', 'any']), 'kw')
            self.t('line', 'kw')
            self.t(':', 'kw')
            self.line_matcher(d - 1)
        elif form == 10:
            self.t('run', 'kw')
            self.program(0, failing_ok=True, allow_transf=False)
        elif form == 11 or form == 12:
            self.t('-transformed-by', 'kw')
            self.transformer(d - 1, simple=True)
            self.text_matcher(d - 1)
        elif form == 13:
            self.t('!', 'kw')
            self.text_matcher(d - 1)
        elif form == 14:
            self.t('(', 'kw')
            self.text_matcher(d - 1)
            self.t(')', 'kw')
        else:
            self.infix(self.text_matcher, ['&&', '||'], d)

    def line_matcher(self, d=1):
        if self.sym('line-matcher'):
            return
        form = self.n(8) if d > 0 else self.n(3)
        if self.want('int'):
            form = 1
        elif self.want('regex', 'repl', 'range'):
            form = 2
        if form == 0:
            self.t('constant', 'kw')
            self.t(self.pick(['true', 'false']), 'enum:bool')
        elif form == 1 or form == 3:
            self.t('line-num', 'kw')
            self.int_matcher(d - 1)
        elif form == 2 or form == 4:
            self.t('contents', 'kw')
            self.text_matcher(d - 1)
        elif form == 5:
            self.t('!', 'kw')
            self.line_matcher(d - 1)
        elif form == 6:
            self.t('(', 'kw')
            self.line_matcher(d - 1)
            self.t(')', 'kw')
        else:
            self.infix(self.line_matcher, ['&&', '||'], d)

    def file_matcher(self, d=2):
        if self.sym('file-matcher'):
            return
        form = self.n(14) if d > 0 else self.n(6)
        if self.want('glob', 'regex'):
            form = 2
        elif d > 0 and self.want('int'):
            form = 8
        elif d > 0 and self.want('repl', 'range'):
            form = 6
        if form == 0:
            self.t('type', 'kw')
            self.t(self.pick(['file', 'dir', 'symlink']), 'enum:ftype')
        elif form == 1:
            self.t('constant', 'kw')
            self.t(self.pick(['true', 'false']), 'enum:bool')
        elif form <= 5:
            if self.focus == 'glob':
                self.t(self.pick(['path', 'path', 'path', 'name', 'stem', 'suffixes', 'suffix']), 'kw')
            else:
                self.t(self.pick(['name', 'name', 'path', 'stem', 'suffixes', 'suffix']), 'kw')
            self.glob_or_regex()
        elif form == 6 or form == 7:
            self.t('contents', 'kw')
            self.text_matcher(d - 1)
        elif form == 8 or form == 9:
            self.t('dir-contents', 'kw')
            self.dir_contents_options()
            self.files_matcher(d - 1)
        elif form == 10:
            self.t('run', 'kw')
            k = self.n(3)
            if k == 1:
                self.t('-path-arg-last', 'kw')
            elif k == 2:
                self.t('-path-arg-marker', 'kw')
                self.t('MARK', 'str')
            self.t('%', 'kw')
            self.t(self.pick(['echo', 'cat', 'true']), 'str')
            if k == 2:
                self.t('MARK', 'str')
            self.eol()
        elif form == 11:
            self.t('!', 'kw')
            self.file_matcher(d - 1)
        elif form == 12:
            self.t('(', 'kw')
            self.file_matcher(d - 1)
            self.t(')', 'kw')
        else:
            self.infix(self.file_matcher, ['&&', '||'], d)

    def dir_contents_options(self):
        if self.maybe(3):
            self.t('-recursive', 'kw')
            if self.maybe(2):
                self.t('-min-depth', 'kw')
                self.t(self.pick(DEPTH_GOOD), 'int')
            if self.maybe(2):
                self.t('-max-depth', 'kw')
                self.t(self.pick(DEPTH_GOOD), 'int')

    def files_matcher(self, d=2):
        if self.sym('files-matcher'):
            return
        form = self.n(14) if d > 0 else self.n(3)
        if self.want('int'):
            form = 2
        elif d > 0 and self.want('glob', 'regex', 'repl', 'range'):
            form = 4
        if form == 0:
            self.t('is-empty', 'kw')
        elif form == 1:
            self.t('constant', 'kw')
            self.t(self.pick(['true', 'false']), 'enum:bool')
        elif form == 2 or form == 3:
            self.t('num-files', 'kw')
            self.int_matcher(d - 1)
        elif form == 4 or form == 5:
            self.t(self.pick(['every', 'any']), 'kw')
            self.t('file', 'kw')
            self.t(':', 'kw')
            self.file_matcher(d - 1)
        elif form == 6 or form == 7:
            self.t('matches', 'kw')
            if self.maybe(3):
                self.t('-full', 'kw')
            self.files_condition(d - 1)
        elif form == 8 or form == 9:
            self.t(self.pick(['-selection', '-with-pruned']), 'kw')
            self.file_matcher(d - 1)
            self.files_matcher(d - 1)
        elif form == 10 or form == 11:
            self.t('!', 'kw')
            self.files_matcher(d - 1)
        elif form == 12:
            self.t('(', 'kw')
            self.files_matcher(d - 1)
            self.t(')', 'kw')
        else:
            self.infix(self.files_matcher, ['&&', '||'], d)

    def files_condition(self, d=1):
        if self.sym('files-condition', 3):
            return
        paren = self.maybe(6)
        if paren:
            self.t('(', 'kw')
        self.t('{', 'kw')
        self.nl()
        for _ in range(self.n(4)):
            self.string('path', ['f.txt', 'd', 'g.txt', 'e', 'd/g.txt', 'n1.txt'])
            if self.maybe(2):
                self.t(':', 'kw')
                self.file_matcher(d - 1)
            self.nl()
        self.t('}', 'kw')
        if paren:
            self.t(')', 'kw')

    def files_source(self, d=1):
        if self.sym('files-source', 4):
            return
        k = self.n(6)
        if k == 4:
            self.t('dir-contents-of', 'kw')
            self.existing_dir()
            return
        paren = k == 5
        if paren:
            self.t('(', 'kw')
        self.t('{', 'kw')
        self.nl()
        used = 0
        for _ in range(self.n(4)):
            used += 1
            name = 'm%d' % used
            if self.maybe(2):
                self.t('file', 'kw')
                self.t(name + '.txt', 'path')
                if self.maybe(2):
                    self.t('=', 'kw')
                    self.text_source(d - 1)
            else:
                self.t('dir', 'kw')
                self.t(name + self.pick(['', '/s']), 'path')
                if d > 0 and self.maybe(3):
                    self.t('=', 'kw')
                    self.files_source(d - 1)
            self.nl()
        self.t('}', 'kw')
        if paren:
            self.t(')', 'kw')

    # ---- instructions ------------------------------------------------------------------------------------------
    def i_def(self, ph, key):
        """def TYPE NAME = VALUE for the symbol of SYM[key]"""
        typ = SYM_TYPE.get(key, key)
        self.begin()
        self.t('def', 'kw')
        self.t(typ, 'kw')
        self.t(SYM[key], 'name')
        self.t('=', 'kw')
        if key == 'string':
            self.rich_string(non_empty=True)  # S is also used as a file name
        elif key == 'int-string':
            self.t(self.pick(['2', '1', '3']), 'int')
        elif key == 'list':
            for _ in range(self.n(4)):
                self.string()
            if self.has('string') and self.maybe(3):
                self.t('@[S]@', 'sref:string')
        elif key == 'path':
            self.t(self.pick(['-rel-act', '-rel-act', '-rel-cd']), 'rel')
            self.t('f.txt', 'path')
        elif key == 'dir-path':
            self.t('-rel-act', 'rel')
            self.t('d', 'path')
        elif key == 'home-path':
            self.t(self.pick(['-rel-home', '-rel-act-home']), 'rel')
            self.t('data.txt', 'path')
        elif key == 'integer-matcher':
            self.int_matcher(2)
        elif key == 'line-matcher':
            self.line_matcher(2)
        elif key == 'file-matcher':
            self.file_matcher(2)
        elif key == 'files-matcher':
            self.files_matcher(2)
        elif key == 'files-condition':
            self.files_condition(1)
        elif key == 'files-source':
            self.files_source(1)
        elif key == 'text-source':
            self.text_source(1)
        elif key == 'text-matcher':
            self.text_matcher(2)
        elif key == 'text-transformer':
            self.transformer(2)
        elif key == 'program':
            self.program(1)
        self.end(ph, 'def')
        self.defined.add(key)

    def i_extra_def(self, ph):
        """a further definition (fresh name) of a random type - never referenced"""
        key = self.pick(TYPES)
        saved = SYM[key]
        self.extra_defs = getattr(self, 'extra_defs', 0) + 1
        name = 'X%d' % self.extra_defs
        self.begin()
        self.t('def', 'kw')
        self.t(key, 'kw')
        self.t(name, 'name')
        self.t('=', 'kw')
        {'string': self.rich_string, 'list': lambda: [self.string() for _ in range(self.n(3))],
         'path': lambda: self.path(['-rel-act', '-rel-tmp', '-rel-home', '-rel-result', '-rel-here', '-rel-act-home',
                                    '-rel-cd'], ['f.txt', 'd', 'nofile']),
         'integer-matcher': self.int_matcher, 'line-matcher': self.line_matcher, 'file-matcher': self.file_matcher,
         'files-matcher': self.files_matcher, 'files-condition': self.files_condition,
         'files-source': self.files_source, 'text-source': self.text_source, 'text-matcher': self.text_matcher,
         'text-transformer': self.transformer, 'program': self.program}[key]()
        self.end(ph, 'def')

    def i_file(self, ph):
        self.begin()
        self.t('file', 'kw')
        k = self.n(5)
        if k == 0:
            self.new_file()
        elif k == 4:
            # append to the file every case has
            self.t('-rel-act', 'rel')
            self.t('f.txt', 'path')
            self.t('+=', 'kw')
            self.text_source(1)
        else:
            self.new_file()
            self.t('=', 'kw')
            self.text_source(2)
        self.end(ph, 'file')

    def i_dir(self, ph):
        self.begin()
        self.t('dir', 'kw')
        k = self.n(5)
        if k == 0:
            self.new_dir()
        elif k == 4:
            self.t('-rel-act', 'rel')
            self.t('d', 'path')
            self.t('+=', 'kw')
            self.files_source_fresh()
        else:
            self.new_dir()
            self.t('=', 'kw')
            self.files_source(2)
        self.end(ph, 'dir')

    def files_source_fresh(self):
        """contents that can be added to the existing directory d without collisions"""
        self.appends = getattr(self, 'appends', 0) + 1
        self.t('{', 'kw')
        self.nl()
        self.t('file', 'kw')
        self.t('added%d.txt' % self.appends, 'path')
        if self.maybe(2):
            self.t('=', 'kw')
            self.text_source(0)
        self.nl()
        self.t('}', 'kw')

    def i_cd(self, ph):
        """cd into the directory every case has, and back (later relative names keep their meaning)"""
        self.begin()
        self.t('cd', 'kw')
        k = self.n(3)
        if k == 0:
            self.t('-rel-act', 'rel')
            self.t('d', 'path')
        elif k == 1:
            self.t('-rel-cd', 'rel')
            self.t('d/e', 'path')
        else:
            self.t(self.pick(['d', '"d"', '@[PD]@' if self.has('dir-path') else 'd/e']), 'path')
        self.end(ph, 'cd')
        self.begin()
        self.t('cd', 'kw')
        self.t('@[EXACTLY_ACT]@', 'sref:path')
        self.end(ph, 'cd')

    def i_copy(self, ph):
        self.begin()
        self.t('copy', 'kw')
        k = self.n(3)
        if k == 0:
            self.path(None, ['data.txt', 'hd'], force_rel=self.pick([None, '-rel-home', '-rel-act-home']))
        else:
            self.existing_file()
        # destination: always a new path (copying twice to the same default destination would be a run-time error)
        self.new_dir() if self.maybe(2) else self.new_file()
        self.end(ph, 'copy')

    def i_env(self, ph):
        self.begin()
        self.t('env', 'kw')
        if ph == 'setup' and self.maybe(3):
            self.t('-of', 'kw')
            self.t(self.pick(['act', '!act']), 'enum:of')
        if self.maybe(4):
            self.t('unset', 'kw')
            self.t(self.pick(['VAR1', 'VAR2']), 'envname')
        else:
            self.t(self.pick(['VAR1', 'VAR2', '"VAR3"']), 'envname')
            self.t('=', 'kw')
            k = self.n(4)
            if k == 0:
                self.t(self.pick(['value', '"a ${VAR1} b"', "'${VAR2}'", '${VAR1}:x']), 'str')
            else:
                self.text_source(1)
        self.end(ph, 'env')

    def i_run(self, ph):
        self.begin()
        self.t('run', 'kw')
        if self.maybe(3):
            self.t('-ignore-exit-code', 'kw')
        self.program(1)
        self.end(ph, 'run')

    def i_shell(self, ph):
        self.begin()
        self.t('$', 'kw')
        self.shell_words()
        self.end(ph, '$')

    def i_sys(self, ph):
        self.begin()
        self.t('%', 'kw')
        self.t(self.pick(['echo', 'true', 'echo']), 'str')
        self.program_arguments()
        self.end(ph, '%')

    def i_stdin(self, ph):
        self.begin()
        self.t('stdin', 'kw')
        self.t('=', 'kw')
        self.text_source(2)
        self.end(ph, 'stdin')

    def i_timeout(self, ph):
        self.begin()
        self.t('timeout', 'kw')
        self.t('=', 'kw')
        if self.maybe(4):
            self.t('none', 'kw')
        else:
            self.t(self.pick(['5', '10', '2*3', '60', '10**100', '"7"', '@[N]@' if self.has('int-string') else '8']),
                   'tmo')
        self.end(ph, 'timeout')

    # assert phase
    def i_contents(self, ph):
        self.begin()
        self.t('contents', 'kw')
        self.existing_file()
        self.t(':', 'kw')
        self.text_matcher(3)
        self.end(ph, 'contents')

    def i_dir_contents(self, ph):
        self.begin()
        self.t('dir-contents', 'kw')
        k = self.n(3)
        if k == 1 and self.has('dir-path'):
            self.t('@[PD]@', 'sref:path')
        elif k == 2:
            self.path(None, ['hd'], force_rel='-rel-act-home')
        else:
            self.path(None, ['d', 'd/e'], force_rel='-rel-act')
        self.t(':', 'kw')
        self.dir_contents_options()
        self.files_matcher(3)
        self.end(ph, 'dir-contents')

    def i_exists(self, ph):
        self.begin()
        self.t('exists', 'kw')
        if self.maybe(4):
            self.t('!', 'kw')
        if self.maybe(2):
            self.existing_file()
        elif self.maybe(2):
            self.existing_dir()
        else:
            self.path(['-rel-act', '-rel-tmp', '-rel-home', '-rel-cd', '-rel-act-home'], ['nofile', 'f.txt', 'd'])
        if self.maybe(2):
            self.t(':', 'kw')
            self.file_matcher(3)
        self.end(ph, 'exists')

    def from_program(self):
        if self.maybe(4):
            self.t('-from', 'kw')
            self.program(1, failing_ok=True)
            self.nl()
            return True
        return False

    def i_exit_code(self, ph):
        self.begin()
        self.t('exit-code', 'kw')
        self.from_program()
        self.int_matcher(3)
        self.end(ph, 'exit-code')

    def i_stdout(self, ph):
        self.begin()
        name = self.pick(['stdout', 'stderr'])
        self.t(name, 'kw')
        self.from_program()
        self.text_matcher(3)
        self.end(ph, name)

    # conf phase
    def conf(self):
        actor = 'command'
        for _ in range(self.n(4)):
            k = self.n(4)
            self.begin()
            if k == 0:
                self.t('status', 'kw')
                self.t('=', 'kw')
                self.t(self.pick(['PASS', 'PASS', 'FAIL', 'SKIP']), 'enum:status')
                self.end('conf', 'status')
            elif k == 1:
                self.t('home', 'kw')
                self.t('=', 'kw')
                # `home` stays what it is: later instructions name files relative to it
                self.t(self.pick(['hd', 'hd', '"hd"']), 'path')
                self.end('conf', 'home')
            elif k == 2:
                self.t('act-home', 'kw')
                self.t('=', 'kw')
                self.t('hd', 'path')
                self.end('conf', 'act-home')
            else:
                actor = self.pick(['command', 'null', 'source-sh', 'source-py', 'file-sh'])
                self.t('actor', 'kw')
                self.t('=', 'kw')
                if actor == 'command':
                    self.t('command', 'kw')
                elif actor == 'null':
                    self.t('null', 'kw')
                elif actor == 'source-sh':
                    self.t('source', 'kw')
                    self.t('%', 'kw')
                    self.t('sh', 'str')
                elif actor == 'source-py':
                    self.t('source', 'kw')
                    self.t('-python', 'kw')
                else:
                    self.t('file', 'kw')
                    self.t('%', 'kw')
                    self.t('sh', 'str')
                self.end('conf', 'actor')
        return actor

    def act(self, actor):
        """the lines of the act phase (one element per line)"""
        if actor == 'command':
            if self.maybe(6):
                self.comment('act')
            self.begin()
            self.program(1, failing_ok=True)
            self.end('act', 'act-program')
        elif actor == 'null':
            for _ in range(self.n(3)):
                self.begin()
                self.text_words(1, 3)
                self.end('act', 'act-null')
        elif actor == 'source-sh':
            for _ in range(1 + self.n(2)):
                self.begin()
                self.shell_words()
                self.end('act', 'act-source')
        elif actor == 'source-py':
            for _ in range(1 + self.n(2)):
                self.begin()
                self.t(self.pick(['import sys', 'pass', 'import sys', 'x = 1']), 'text')
                self.end('act', 'act-source')
        else:
            self.begin()
            self.t('prog.sh', 'path')
            for _ in range(self.n(3)):
                self.string()
            self.end('act', 'act-file')

    # non-instruction elements
    def comment(self, ph):
        self.begin()
        self.t('#', 'cmt')
        self.text_words(0, 3)
        self.end(ph, '(comment)')

    def blank(self, ph):
        self.elems.append({'ph': ph, 'name': '(blank)', 'toks': []})

    def description(self, ph):
        self.begin()
        k = self.n(3)
        if k == 0:
            self.t('`' + self.pick(DESC_WORDS) + '`', 'desc')
        elif k == 1:
            self.t('`' + self.pick(DESC_WORDS), 'desc')
            self.t(self.pick(DESC_WORDS) + '`', 'desc')
        else:
            self.t('`' + self.pick(DESC_WORDS), 'desc')
            self.nl()
            self.t(self.pick(DESC_WORDS) + '`', 'desc')
        self.end(ph, '(description)')

    def header(self, ph):
        self.elems.append({'ph': ph, 'name': '(header)', 'toks': [['[%s]' % ph, 'hdr']]})

    def instruction(self, ph):
        common = [self.i_file, self.i_dir, self.i_shell, self.i_sys, self.i_run, self.i_env, self.i_copy,
                  self.i_timeout, self.i_cd, self.i_extra_def]
        if ph == 'setup':
            table = common + [self.i_stdin, self.i_file, self.i_dir]
        elif ph == 'assert':
            table = [self.i_contents, self.i_dir_contents, self.i_exists, self.i_exit_code, self.i_stdout,
                     self.i_contents, self.i_dir_contents, self.i_exists, self.i_exit_code, self.i_stdout,
                     self.i_stdout, self.i_exit_code] + common
        else:
            table = common
        special = {'tmo': self.i_timeout, 'envname': self.i_env, 'name': self.i_extra_def}.get(self.focus)
        if special is not None and self.maybe(2):
            special(ph)
            if self.focus == 'tmo' and self.maybe(2):
                # a timeout matters to the processes started after it
                self.pick([self.i_sys, self.i_shell, self.i_run])(ph)
            return
        self.pick(table)(ph)


# order in which the symbols are defined (a definition may use the ones before it)
DEF_ORDER = ['string', 'int-string', 'list', 'path', 'dir-path', 'home-path', 'integer-matcher', 'text-transformer', 'text-matcher',
             'line-matcher', 'file-matcher', 'files-matcher', 'files-condition', 'text-source', 'files-source',
             'program']

PRELUDE = [
    # every case starts [setup] with these two (the files the other instructions read)
    [['file', 'kw'], ['-rel-act', 'kw'], ['f.txt', 'path'], ['=', 'kw'], ['<<EOF', 'heredoc'], NL, ['a', 'text'], NL,
     ['b', 'text'], ['c', 'text'], NL, ['EOF', 'marker']],
    [['dir', 'kw'], ['-rel-act', 'kw'], ['d', 'path'], ['=', 'kw'], ['{', 'kw'], NL, ['file', 'kw'], ['g.txt', 'path'],
     ['=', 'kw'], ['"x"', 'str'], NL, ['dir', 'kw'], ['e', 'path'], NL, ['}', 'kw']],
]


def _has_kind(elems, focus):
    for e in elems:
        for t in e['toks']:
            k = t[1]
            if k == focus or k.startswith(focus + ':') or \
                    (focus == 'ref' and (k.startswith('ref:') or k.startswith('sref:'))):
                return True
    return False


def focused_instruction(g, ph, tries=40):
    """an instruction of the phase that contains a token of kind g.focus (best effort: the last try is kept)"""
    for i in range(tries):
        mark = len(g.elems)
        g.instruction(ph)
        if _has_kind(g.elems[mark:], g.focus) or i == tries - 1:
            return
        del g.elems[mark:]


def build_document_g(g):
    """-> {'elems': [...], 'inc': [...] | None, 'actor': ...}; g.focus: the case is small and built around one
    instruction that contains a token of that kind"""
    focus = g.focus
    actor = g.conf()
    conf_elems, g.elems = g.elems, []

    # ---- setup: prelude, definitions, instructions
    for toks in PRELUDE:
        g.elems.append({'ph': 'setup', 'name': toks[0][0], 'toks': [list(t) for t in toks]})
    if focus == 'ref':
        n_defs = g.pick([15, 15, 6, 30])
    elif focus:
        n_defs = g.pick([0, 0, 1, 2, 4])
    else:
        n_defs = g.pick([0, 1, 2, 3, 4, 6, 15])
    wanted = set()
    for _ in range(n_defs):
        wanted.add(g.pick(DEF_ORDER))
    inc_elems = None
    if g.maybe(5):
        # included file: defines INC, creates a file; its default phase is [setup]
        saved, g.elems = g.elems, []
        g.begin()
        g.t('def', 'kw'); g.t('string', 'kw'); g.t('INC', 'name'); g.t('=', 'kw'); g.string()
        g.end('setup', 'def')
        if focus and g.maybe(2):
            focused_instruction(g, 'setup')
        for _ in range(g.n(3)):
            g.instruction('setup')
        if g.maybe(3):
            g.header('assert')
            g.i_exit_code('assert')
        inc_elems, g.elems = g.elems, saved
        g.begin()
        g.t('including', 'kw')
        g.t(INC_NAME, 'path')
        g.end('setup', 'including')
    for key in DEF_ORDER:
        if key in wanted:
            g.i_def('setup', key)
    if focus in ('int', 'regex', 'repl', 'range', 'glob'):
        # the instructions of [assert] are the ones built from matchers
        focus_ph = g.pick(['assert', 'assert', 'assert', 'setup', 'assert', 'before-assert', 'assert', 'cleanup'])
    else:
        focus_ph = g.pick(['assert', 'assert', 'setup', 'before-assert', 'cleanup', 'assert']) if focus else None
    if focus_ph == 'setup':
        focused_instruction(g, 'setup')
    for _ in range(g.n(3) if focus else g.n(4)):
        g.instruction('setup')
    setup_elems, g.elems = g.elems, []

    sections = {'conf': conf_elems, 'setup': setup_elems}
    g.act(actor)
    sections['act'], g.elems = g.elems, []
    for ph in ['before-assert', 'assert', 'cleanup']:
        lo = 1 if ph == 'assert' and not focus else 0
        if ph == focus_ph:
            if g.maybe(3):
                g.description(ph)
            focused_instruction(g, ph)
        for _ in range(lo + (g.n(2) if focus else g.n(3))):
            if g.maybe(6):
                g.description(ph)
            g.instruction(ph)
        sections[ph], g.elems = g.elems, []

    # ---- file order: a permutation of the phases; a phase may be split over two headers
    order = list(PHASES)
    k = g.n(6)
    if k:
        order = g.perm(PHASES)
    doc = []
    act_first_without_header = order[0] == 'act' and g.maybe(2)
    for i, ph in enumerate(order):
        elems = sections[ph]
        if not elems and ph != 'act' and g.maybe(2):
            continue
        if not (ph == 'act' and i == 0 and act_first_without_header):
            doc.append({'ph': ph, 'name': '(header)', 'toks': [['[%s]' % ph, 'hdr']]})
        for e in elems:
            doc.append(e)
            if ph != 'act' or actor in ('command', 'file-sh'):
                j = g.n(12)
                if j == 10:
                    doc.append({'ph': ph, 'name': '(blank)', 'toks': []})
                elif j == 11:
                    doc.append({'ph': ph, 'name': '(comment)',
                                'toks': [['#', 'cmt'], [g.word(), 'text']]})
        if g.maybe(3):
            doc.append({'ph': ph, 'name': '(blank)', 'toks': []})
    return {'elems': doc, 'inc': inc_elems, 'actor': actor}


def build_document(draw, focus=None):
    return build_document_g(G(draw, focus))


@st.composite
def documents(draw, focus=None):
    return build_document(draw, focus)


class ChoiceG(G):
    """the grammar driven by an explicit sequence of choices instead of Hypothesis (byte strings of a fuzzer, a
    seeded random.Random): `next_choice(k)` returns 0 <= value < k"""

    def __init__(self, next_choice, focus=None):
        G.__init__(self, None, focus)
        self._next = next_choice

    def n(self, k):
        return self._next(k) if k > 1 else 0

    def perm(self, seq):
        seq = list(seq)
        out = []
        while seq:
            out.append(seq.pop(self.n(len(seq))))
        return out


def byte_choices(data):
    """choice function over a byte string: one byte per choice (two for k > 256); 0 ('the plain choice') when
    the bytes are used up"""
    pos = [0]

    def nxt(k):
        i = pos[0]
        if k <= 256:
            if i >= len(data):
                return 0
            pos[0] = i + 1
            return data[i] % k
        if i + 1 >= len(data):
            return 0
        pos[0] = i + 2
        return (data[i] * 256 + data[i + 1]) % k

    nxt.pos = pos
    return nxt


def flatten(elems):
    """-> (tokens [[text, kind], ...] with NL between elements, owner index per token)"""
    toks, owner = [], []
    for i, e in enumerate(elems):
        for t in e['toks']:
            toks.append(t)
            owner.append(i)
        toks.append(list(NL))
        owner.append(i)
    return toks, owner


def render(toks):
    """tokens of a line are joined by single blanks; every line ends with a line break"""
    lines, cur = [], []
    for text, kind in toks:
        if kind == 'nl':
            lines.append(' '.join(cur))
            cur = []
        else:
            cur.append(text)
    if cur:
        lines.append(' '.join(cur))
        return '\n'.join(lines)
    return '\n'.join(lines) + ('\n' if lines else '')


# ---- deep nesting: valid texts whose only peculiarity is the depth of one construct --------------------------------------
_DEEP_HEAD = '[setup]\nfile -rel-act f.txt = <<EOF\na\nb c\nEOF\ndir -rel-act d = {\nfile g.txt = "x"\ndir e\n}\n'


def _deep_defs(n, typ, first, nxt):
    return ''.join(['def %s D0 = %s\n' % (typ, first)] + ['def %s D%d = %s\n' % (typ, i + 1, nxt % i) for i in range(n)])


DEEP_CONSTRUCTS = {
    # name -> function(depth) -> text of the case (each is valid by the manual for every depth >= 1)
    'int-matcher-parens': lambda n: '[act]\n% true\n[assert]\nexit-code ' + '( ' * n + '== 0' + ' )' * n + '\n',
    'int-matcher-negations': lambda n: '[act]\n% true\n[assert]\nexit-code ' + '! ' * n + '== 1\n',
    'int-matcher-negations-pass': lambda n: '[act]\n% true\n[assert]\nexit-code ' + '! ' * (2 * n) + '== 0\n',
    'text-matcher-negations': lambda n: '[act]\n% true\n[assert]\nstdout ' + '! ' * (2 * n + 1) + 'is-empty\n',
    'text-matcher-transformed': lambda n: '[act]\n% true\n[assert]\nstdout ' + '-transformed-by identity ' * n + '! is-empty\n',
    'line-matcher-nesting': lambda n: '[act]\n% echo a\n[assert]\nstdout ' + 'every line : contents ' * n + 'is-empty\n',
    'transformer-sequence': lambda n: ('[act]\n% echo a\n[assert]\nstdout -transformed-by ( ' +
                                       ' | '.join(['identity'] * (n + 1)) + ' ) is-empty\n'),
    'conjunction-chain': lambda n: '[act]\n% true\n[assert]\nexit-code ( ' + ' && '.join(['== 0'] * n + ['== 1']) + ' )\n',
    'files-matcher-negations': lambda n: _DEEP_HEAD + '[act]\n% true\n[assert]\ndir-contents -rel-act d : ' + '! ' * (2 * n) +
                                         'is-empty\n',
    'file-matcher-dir-contents': lambda n: _DEEP_HEAD + '[act]\n% true\n[assert]\nexists -rel-act d : ' +
                                           'dir-contents any file : ' * n + 'type file\n',
    'regex-groups': lambda n: "[act]\n% true\n[assert]\nstdout matches '" + '(' * n + 'a' + ')' * n + "'\n",
    'integer-parens': lambda n: '[act]\n% true\n[assert]\nexit-code == ' + '(' * n + '1' + ')' * n + '\n',
    'integer-minus': lambda n: '[act]\n% true\n[assert]\nexit-code == ' + '-' * (2 * n + 1) + '1\n',
    'string-symbol-chain': lambda n: ('[setup]\n' + _deep_defs(n, 'string', 'x', '@[D%d]@') +
                                      '[act]\n%% echo @[D%d]@\n[assert]\nstdout equals y\n' % n),
    'matcher-symbol-chain': lambda n: ('[setup]\n' + _deep_defs(n, 'integer-matcher', '== 1', '! D%d') +
                                       '[act]\n%% true\n[assert]\nexit-code D%d\n' % (2 * (n // 2))),
    'transformer-symbol-chain': lambda n: ('[setup]\n' + _deep_defs(n, 'text-transformer', 'identity', 'D%d') +
                                           '[act]\n%% echo a\n[assert]\nstdout -transformed-by D%d is-empty\n' % n),
    'list-elements': lambda n: '[setup]\ndef list D = ' + ' '.join(['a'] * n) + '\n[act]\n% echo @[D]@\n[assert]\nstdout is-empty\n',
    'dir-spec-nesting': lambda n: ('[setup]\ndir nd = ' + '{\ndir s = ' * min(n, 120) + '{\n}\n' + '}\n' * min(n, 120) +
                                   '[act]\n% true\n[assert]\nexists -rel-act nd/x\n'),
    'path-components': lambda n: ('[setup]\nfile ' + 's/' * min(n, 120) + 'f.txt = x\n[act]\n% true\n[assert]\nexists -rel-act ' +
                                  's/' * min(n, 120) + 'g.txt\n'),
    'long-line': lambda n: '[act]\n% echo ' + 'a ' * (10 * n) + '\n[assert]\nstdout is-empty\n',
    'many-instructions': lambda n: ('[setup]\n' + 'env VAR1 = x\n' * (3 * n) + '[act]\n% true\n[assert]\nexit-code == 1\n'),
    'many-phase-headers': lambda n: '[setup]\n[act]\n' * n + '% true\n[assert]\nexit-code == 1\n',
    'here-doc-lines': lambda n: ('[setup]\nfile big.txt = <<EOF\n' + 'a line\n' * (20 * n) +
                                 'EOF\n[act]\n% true\n[assert]\ncontents -rel-act big.txt : is-empty\n'),
}
DEEP_DEPTHS = {'quick': [60, 400, 1500], 'thorough': [20, 60, 150, 250, 400, 700, 1000, 1500, 3000]}
