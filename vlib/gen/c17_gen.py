"""C17 generators, part 1: suite files that supply phase contents (sub-check `suite_contents`).

The values produced are plain JSON (see vlib/ref/c17_model.py for the `contents` structure); rendering to file texts
is here too.  Independent of the code under test.

Construction rules (DESIGN 2.10): one instruction per line; markers are fixed-form shell lines
`$ echo "<text>" >> {MARKERS}` whose text is made of [A-Za-z0-9_.=|<>@\\[\\] -] only; phase headers are `[name]` alone
on a line; symbol names / environment variable names come from fixed pools.
"""
from hypothesis import strategies as st

from vlib.ref import c17_model as model

IPHASES = ['setup', 'before-assert', 'assert', 'cleanup']
ALL_PHASES = ['setup', 'act', 'before-assert', 'assert', 'cleanup']
SYMS = ['SA', 'SB']
VARS = ['VERIF_C17_A', 'VERIF_C17_B']
PP_LINE = 'preprocessor = sed -e s/%s/%s/' % (model.PP_TOKEN, model.PP_REPLACEMENT)


def _spread(pairs):
    items = []
    for k, (v, n) in enumerate(pairs):
        for i in range(n):
            items.append(((i + 0.5) / n, k, v))
    items.sort(key=lambda t: (t[0], t[1]))
    return [v for _, _, v in items]


def w(pairs):
    """weighted choice (values interleaved evenly, see c16_gen._spread)"""
    return st.sampled_from(_spread(pairs))


def chance(draw, k, n):
    return draw(w([(False, n - k), (True, k)]))


# ---- rendering ------------------------------------------------------------------------------------------------
def marker_text(who, phase, k, item):
    t = '@[EXACTLY_TMP]@|%s|%s.%d' % (who, phase, k)
    kind = item[0]
    if kind == 'u':
        t += ' sym=@[%s]@' % item[1]
    elif kind == 'h':
        t += ' home=@[EXACTLY_HOME]@ act-home=@[EXACTLY_ACT_HOME]@'
    elif kind == 'p':
        t += ' ' + model.PP_TOKEN
    elif kind == 'E':
        t += ' env=${%s-%s}' % (item[1], model.ENV_UNSET)
    return t


def render_item(contents, phase, k, item):
    who = contents['who']
    kind = item[0]
    if kind == 'v':
        return 'def string V_%s_%s_%d = @[UNDEFINED_SYMBOL]@' % (who, phase.replace('-', '_'), k)
    if kind == 'd':
        return 'def string %s = %s' % (item[1], model.value_of(who, phase, k))
    if kind == 'e':
        return 'env %s = %s' % (item[1], model.value_of(who, phase, k))
    line = 'echo "%s" >> {MARKERS}' % marker_text(who, phase, k, item)
    if kind == 'b':
        line += '; false'
    if phase == 'act' and contents['act_style'] == 'sh':
        return line
    return '$ ' + line


def render_conf(contents):
    out = []
    c = contents['conf']
    if contents.get('pp'):
        out.append(PP_LINE)
    if c.get('status') is not None:
        out.append('status = ' + c['status'])
    if c.get('actor') is not None:
        out.append({'null': 'actor = null', 'command': 'actor = command', 'source': 'actor = source % sh'}[c['actor']])
    if c.get('home') is not None:
        out.append('home = ' + c['home'])
    if c.get('act_home') is not None:
        out.append('act-home = ' + c['act_home'])
    return out


def render_file(contents, listing=None):
    """listing: None for a case file, else {'cases': [...], 'suites': [...]} for a suite file"""
    sections = {}
    conf = render_conf(contents)
    if conf:
        sections['conf'] = conf
    for ph in ALL_PHASES:
        items = contents['phases'].get(ph) or []
        if items:
            sections[ph] = [render_item(contents, ph, k, it) for k, it in enumerate(items)]
    if listing is not None:
        if listing.get('cases'):
            sections['cases'] = list(listing['cases'])
        if listing.get('suites'):
            sections['suites'] = list(listing['suites'])
    lay = contents.get('layout') or {}
    names = [n for n in (lay.get('order') or []) if n in sections] + \
            [n for n in ['conf', 'cases', 'suites'] + ALL_PHASES if n in sections and n not in (lay.get('order') or [])]
    out = []
    tail = []
    for n in names:
        lines = sections[n]
        if lay.get('split') == n and len(lines) >= 2:
            h = len(lines) // 2
            lines, rest = lines[:h], lines[h:]
            tail = ['[%s]' % n] + rest
        if n == 'cases' and listing is not None and lay.get('default_section') and not out:
            out.extend(lines)  # [cases] is the default section of a suite file
        else:
            out.append('[%s]' % n)
            out.extend(lines)
        if lay.get('blank'):
            out.append('')
    out.extend(tail)
    return '\n'.join(out) + '\n'


# ---- strategies -------------------------------------------------------------------------------------------------
_ITEM_KINDS = w([('m', 20), ('b', 4), ('v', 1), ('d', 6), ('u', 6), ('h', 2), ('p', 4), ('e', 4), ('E', 6)])
_PLAIN_KINDS = w([('m', 10), ('b', 2), ('h', 1), ('p', 2), ('e', 2), ('E', 3)])
_ACT_KINDS = w([('m', 6), ('u', 2), ('h', 1), ('p', 1), ('E', 2)])


def _item(draw, phase, plain=False):
    kind = draw(_ACT_KINDS if phase == 'act' else _PLAIN_KINDS if plain else _ITEM_KINDS)
    if plain and kind == 'u':
        kind = 'm'
    if kind in ('d', 'u'):
        return [kind, draw(st.sampled_from(SYMS))]
    if kind in ('e', 'E'):
        return [kind, draw(st.sampled_from(VARS))]
    return [kind]


def _layout(draw, is_suite):
    if not chance(draw, 1, 3):
        return {}
    names = ['conf'] + ALL_PHASES + (['cases', 'suites'] if is_suite else [])
    return {'order': draw(st.permutations(names)), 'split': draw(st.sampled_from(ALL_PHASES + ['conf', 'none'])),
            'blank': chance(draw, 1, 2), 'default_section': is_suite and chance(draw, 1, 2)}


def _contents(draw, who, directory, is_suite, density, suite=None, plain=False):
    """density: k of 10 = probability that a phase has contents; suite: the contents this case is listed under"""
    inherited_actor = suite['conf']['actor'] if suite else None
    suite_act = len(suite['phases'].get('act', [])) if suite else 0
    act_budget = 0 if suite_act else 1
    conf = {'status': draw(w([(None, 14), ('FAIL', 3), ('PASS', 2), ('SKIP', 1)])),
            'actor': draw(w([(None, 12), ('source', 5), ('null', 2), ('command', 1)])) if is_suite
            else draw(w([(None, 16), ('source', 2), ('null', 1), ('command', 1)])),
            'home': draw(w([(None, 8), ('d1', 1), ('d2', 1)])),
            'act_home': draw(w([(None, 10), ('d1', 1), ('d2', 1)]))}
    if suite_act and conf['actor'] in ('source', 'command') and \
            ('sh' if conf['actor'] == 'source' else 'cmd') != suite['act_style']:
        conf['actor'] = None  # the suite's act lines are written for the suite's actor
    eff_actor = conf['actor'] or inherited_actor or 'command'
    c = {'who': who, 'dir': directory, 'conf': conf, 'act_style': 'sh' if eff_actor == 'source' else 'cmd',
         'phases': {}, 'layout': _layout(draw, is_suite)}
    if is_suite:
        c['pp'] = chance(draw, 3, 10)
    for ph in ALL_PHASES:
        if not chance(draw, density, 10):
            continue
        if ph == 'act':
            if eff_actor == 'command':
                n = min(act_budget, 1) if not chance(draw, 1, 12) else 1
            else:
                n = draw(st.integers(1, 2))
        else:
            n = draw(w([(1, 5), (2, 3), (3, 1)]))
        if n:
            c['phases'][ph] = [_item(draw, ph, plain) for _ in range(n)]
    return c


def _repair(suite, case):
    """make most symbol uses of the case refer to something defined earlier (in the documented merged order)"""
    defined = set()
    for ph in ALL_PHASES:
        for src, k, it in model.merged_phase(suite, case, ph):
            if it[0] == 'd':
                if it[1] in defined and src is case:
                    other = [s for s in SYMS if s not in defined]
                    if other:
                        it[1] = other[0]
                    else:
                        it[:] = ['m']
                        continue
                defined.add(it[1])
            elif it[0] == 'u' and it[1] not in defined and src is case:
                if defined:
                    it[1] = sorted(defined)[0]
                else:
                    it[:] = ['m']


@st.composite
def suite_with_contents(draw):
    root_file = draw(w([('exactly.suite', 3), ('main.suite', 2)]))
    root = _contents(draw, 'S', '', True, draw(w([(6, 3), (9, 1), (3, 1)])))
    root['file'] = root_file
    if not chance(draw, 1, 4):
        _repair(None, root)  # else: suite-level uses of symbols that only (some) cases define
    n_cases = draw(w([(1, 3), (2, 4), (3, 2)]))
    cases = []
    for i in range(n_cases):
        c = _contents(draw, 'c%d' % i, '', False, draw(w([(5, 3), (8, 1), (2, 1)])), suite=root)
        c['file'] = 'c%d.case' % i
        if not chance(draw, 1, 7):
            _repair(root, c)
        cases.append(c)
    sub = None
    if chance(draw, 9, 20):
        sub_file = draw(w([('sub/exactly.suite', 3), ('sub/x.suite', 2), ('s2.suite', 2)]))
        d = 'sub' if sub_file.startswith('sub/') else ''
        t = _contents(draw, 'T', d, True, draw(w([(0, 2), (5, 2), (8, 1)])))
        t['file'] = sub_file
        sub_cases = []
        for i in range(draw(w([(1, 3), (2, 1)]))):
            c = _contents(draw, 't%d' % i, d, False, draw(w([(5, 3), (8, 1)])), suite=t)
            c['file'] = (d + '/' if d else '') + 't%d.case' % i
            if not chance(draw, 1, 4):  # sub-suite cases that use symbols of the parent stay unrepaired more often
                _repair(t, c)
            sub_cases.append(c)
        sub = {'contents': t, 'cases': sub_cases}
    other = None
    if chance(draw, 7, 20):
        other = _contents(draw, 'O', '', True, 6, plain=not chance(draw, 1, 3))
        other['file'] = 'other.suite'
    return {'root': root, 'cases': cases, 'sub': sub, 'other': other,
            'cwd_parent': chance(draw, 1, 5)}


# ---- the complete matrix: phases supplied by the suite x phases supplied by the case ---------------------------------
SECTIONS = ['conf'] + ALL_PHASES
_SUITE_CONFS = [({'actor': 'source'}, False), ({'home': 'd1'}, False), ({'status': 'FAIL'}, False), ({}, True),
                ({'actor': 'null'}, False), ({'actor': 'source', 'act_home': 'd2'}, True), ({'home': 'd2'}, True),
                ({'status': 'PASS', 'act_home': 'd1'}, False)]
_CASE_CONFS = [{'status': 'FAIL'}, {'home': 'd2'}, {'actor': 'source'}, {'act_home': 'd1'}, {'actor': 'null'},
               {'status': 'PASS', 'home': 'd1'}]
_EXTRA_SUITE = [['h'], ['E', VARS[0]], ['m'], ['p']]
_EXTRA_CASE = [['p'], ['m'], ['E', VARS[0]], ['h']]


def _subset_contents(who, directory, bits, variant, suite=None, source_actor=None):
    """contents of a suite file (suite=None) or of a case listed by `suite` that supplies exactly the sections given
    by `bits` (bit i = SECTIONS[i]); `variant` selects among the fixed ways to fill a section.
    source_actor: 'here' = this file's [conf] sets the source interpreter actor, 'case' (suite only) = the case will -
    the suite's [act] lines are then written for that actor (both files supply [act] lines: only the source
    interpreter actor accepts more than one)"""
    is_suite = suite is None
    has = {name: bool(bits >> i & 1) for i, name in enumerate(SECTIONS)}
    conf = {'status': None, 'actor': None, 'home': None, 'act_home': None}
    pp = False
    if has['conf']:
        if is_suite:
            d, pp = _SUITE_CONFS[variant % len(_SUITE_CONFS)]
            if source_actor == 'here':
                d, pp = [v for v in _SUITE_CONFS if v[0].get('actor') == 'source'][variant % 2]
            conf.update(d)
        else:
            for k in range(len(_CASE_CONFS)):
                d = _CASE_CONFS[(variant + k) % len(_CASE_CONFS)]
                if source_actor == 'here':
                    d = {'actor': 'source', 'status': [None, 'FAIL'][variant % 2]}
                a = d.get('actor')
                if a in ('source', 'command') and suite['phases'].get('act') and \
                        ('sh' if a == 'source' else 'cmd') != suite['act_style']:
                    continue  # the suite's act lines are written for the suite's actor
                if a == 'null' and suite['phases'].get('act') and has['act']:
                    continue  # keep both [act] contributions observable
                conf.update(d)
                break
    eff_actor = conf['actor'] or (suite['conf']['actor'] if suite else None) or 'command'
    if is_suite and source_actor == 'case':
        eff_actor = 'source'
    c = {'who': who, 'dir': directory, 'conf': conf, 'act_style': 'sh' if eff_actor == 'source' else 'cmd',
         'phases': {}, 'layout': {}}
    if is_suite:
        c['pp'] = pp
    extra = _EXTRA_SUITE if is_suite else _EXTRA_CASE
    for pi, ph in enumerate(ALL_PHASES):
        if not has[ph]:
            continue
        if ph == 'act':
            if c['act_style'] == 'sh':
                items = [['m'], ['E', VARS[0]]] if is_suite else [['p'], ['m']]
            else:
                items = [['m']]
        else:
            items = [['m'], list(extra[(pi + variant) % 4])]
            if ph == 'setup' and is_suite:
                items.append(['d', SYMS[0]])
                if variant % 2:
                    items.insert(0, ['e', VARS[0]])
            if ph == 'assert' and not is_suite and suite['phases'].get('setup'):
                items.append(['u', SYMS[0]])  # a symbol that only the suite defines
        c['phases'][ph] = items
    return c


def enum_phase_subsets(tier):
    """every subset of {conf, setup, act, before-assert, assert, cleanup} supplied by the suite x every subset supplied
    by the case (thorough: all 64 x 64; quick: for every suite subset the same subset, the complement, all sections and
    one more, in turn), the way of filling a section varied in turn (conf: actor / home / act-home / status /
    preprocessor); every fifth with a sub-suite whose case supplies the same sections as the case of the root suite,
    every third with an unrelated other.suite (other sections) that is given with --suite"""
    n = 1 << len(SECTIONS)
    for si in range(n):
        if tier == 'quick':
            picks = sorted({si, (n - 1) ^ si, n - 1, (si * 37 + 11) % n})
        else:
            picks = range(n)
        for ci in picks:
            v = si + ci if tier == 'quick' else si * 5 + ci * 3
            both_act = si >> 2 & 1 and ci >> 2 & 1
            # both files supply [act] lines: let one of the [conf] sections (if there is one) choose the source actor
            who_sets = None if not both_act or v % 5 == 0 else 'suite' if si & 1 else 'case' if ci & 1 else None
            root = _subset_contents('S', '', si, v, source_actor={'suite': 'here', 'case': 'case'}.get(who_sets))
            root['file'] = 'exactly.suite' if v % 4 else 'main.suite'
            if si & 1 and v % 23 == 0:
                root['conf']['status'] = 'SKIP'  # nothing is executed: rarely
            case = _subset_contents('c0', '', ci, v // 2, suite=root,
                                    source_actor='here' if who_sets == 'case' else None)
            case['file'] = 'c0.case'
            sub = None
            if (si + 2 * ci) % 5 == 0:
                t = _subset_contents('T', 'sub', si if v % 2 else 0, v + 1,
                                     source_actor={'suite': 'here', 'case': 'case'}.get(who_sets) if v % 2 else None)
                t['file'] = 'sub/exactly.suite' if v % 3 else 'sub/x.suite'
                tc = _subset_contents('t0', 'sub', ci, v // 2, suite=t,
                                      source_actor='here' if who_sets == 'case' else None)
                tc['file'] = 'sub/t0.case'
                sub = {'contents': t, 'cases': [tc]}
            other = None
            if (si + ci) % 3 == 0:
                # an unrelated suite file given with --suite: its contents apply, not those of exactly.suite
                other = _subset_contents('O', '', (si * 7 + 5) % n, v + 3,
                                         source_actor='case' if case['act_style'] == 'sh' else None)
                if other['act_style'] != case['act_style']:
                    other['phases'].pop('act', None)
                other['file'] = 'other.suite'
            yield {'root': root, 'cases': [case], 'sub': sub, 'other': other, 'cwd_parent': (si + ci) % 7 == 0}
