"""Regex generator for C05: Python regular expressions that compile *by construction* (no filtering), small
enough not to backtrack catastrophically (no quantifier is applied to something that contains a quantifier), and
with a good chance of matching a given hint text.

A REGEX value is ``{'pat': str, 'ic': bool, 'groups': int}`` (``groups`` = number of capturing groups, needed
for valid back-references in ``replace`` templates).  The alphabet of the patterns excludes ' " # @ so that a
pattern can always be written as one hard-quoted STRING.
"""
from hypothesis import strategies as st

META = set('.*+?()[]\\^$|{}')
CHARS = list('abAB \t.*+?()[]\\^$|é012')

_char = st.sampled_from(CHARS)
_bool = st.booleans()
_atom_kind = st.sampled_from(['lit', 'lit', 'lit', 'lit', 'hint', 'hint', 'hint', 'any', 'cls', 'short', 'group',
                              'ncgroup'])
_quant = st.sampled_from(['', '', '', '', '', '*', '+', '?', '{2}', '{1,2}', '*?', '+?'])
_short = st.sampled_from(['\\d', '\\s', '\\S', '\\w', '\\W', '\\D'])
_cls_kind = st.sampled_from(['set', 'set', 'negset', 'range'])
_ranges = st.sampled_from(['a-b', 'A-B', '0-2', 'a-bA-B', '0-9'])
_n_items = st.sampled_from([1, 1, 2, 2, 2, 3, 4])
_anchor_start = st.sampled_from(['', '', '', '', '', '^', '\\A', '\\b'])
_anchor_end = st.sampled_from(['', '', '', '', '', '$', '\\Z', '\\b'])
_pct = st.integers(0, 99)


def esc(ch: str) -> str:
    """A pattern that matches exactly the character ``ch``."""
    if ch in META:
        return '\\' + ch
    if ch == '\n':
        return '\\n'
    return ch


def _esc_in_class(ch: str) -> str:
    if ch in META or ch == '-':
        return '\\' + ch
    if ch == '\n':
        return '\\n'
    return ch


def _draw_class(draw, pool):
    kind = draw(_cls_kind)
    if kind == 'range':
        return '[' + draw(_ranges) + ']'
    n = draw(st.integers(1, 3))
    members = []
    for _ in range(n):
        members.append(pool[draw(st.integers(0, len(pool) - 1))] if pool and draw(_bool) else draw(_char))
    body = ''.join(_esc_in_class(c) for c in members)
    return ('[^' if kind == 'negset' else '[') + body + ']'


class _State:
    def __init__(self):
        self.groups = 0


def _draw_seq(draw, pool, state, depth, allow_quant):
    """-> (pattern, contains_quantifier)"""
    items = []
    has_q = False
    for _ in range(draw(_n_items)):
        kind = draw(_atom_kind)
        inner_q = False
        if kind in ('group', 'ncgroup') and depth >= 2:
            kind = 'lit'
        if kind == 'hint' and not pool:
            kind = 'lit'
        if kind == 'lit':
            atom = esc(draw(_char))
        elif kind == 'hint':
            atom = esc(pool[draw(st.integers(0, len(pool) - 1))])
        elif kind == 'any':
            atom = '.'
        elif kind == 'cls':
            atom = _draw_class(draw, pool)
        elif kind == 'short':
            atom = draw(_short)
        else:
            if kind == 'group':
                state.groups += 1
            body, inner_q = _draw_alt(draw, pool, state, depth + 1, allow_quant)
            atom = ('(' if kind == 'group' else '(?:') + body + ')'
        q = draw(_quant) if allow_quant and not inner_q else ''
        if q:
            has_q = True
        has_q = has_q or inner_q
        items.append(atom + q)
    return ''.join(items), has_q


def _draw_alt(draw, pool, state, depth, allow_quant):
    pat, has_q = _draw_seq(draw, pool, state, depth, allow_quant)
    if draw(_pct) < 18:
        pat2, q2 = _draw_seq(draw, pool, state, depth, allow_quant)
        pat = pat + '|' + pat2
        has_q = has_q or q2
    return pat, has_q


def draw_random_regex(draw, hint: str = ''):
    """A regex from the grammar; literals are drawn from the hint text about half of the time."""
    pool = [c for c in hint if c != '\n']
    state = _State()
    pat, _ = _draw_alt(draw, pool, state, 0, True)
    if state.groups and draw(_pct) < 25:
        pat = pat + '\\%d' % draw(st.integers(1, state.groups))  # back-reference inside the pattern
    a, z = draw(_anchor_start), draw(_anchor_end)
    if '|' in pat and (a or z) and not pat.startswith('('):
        pat = '(?:' + pat + ')'
    pat = a + pat + z
    return {'pat': pat, 'ic': draw(_pct) < 20, 'groups': state.groups}


_gen_kind = st.sampled_from(['lit', 'lit', 'lit', 'any', 'cls', 'short', 'opt', 'star', 'swap'])


def _char_class_of(ch):
    if ch.isdigit():
        return '\\d'
    if ch in ' \t':
        return '\\s'
    if ch.isalnum():
        return '\\w'
    return '\\W'


def draw_regex_from_substring(draw, hint: str):
    """Generalise a substring of one line of the hint: the result matches (part of) that line, unless a
    deliberate distortion (swapped case without -ignore-case) was drawn."""
    lines = [l for l in hint.split('\n') if l != ''] or ['']
    line = lines[draw(st.integers(0, len(lines) - 1))]
    if line == '':
        return {'pat': draw(st.sampled_from(['', '^$', '^', '$', '.*', 'a*', '\\s*', '(?:a|)'])), 'ic': False,
                'groups': 0}
    i = draw(st.integers(0, len(line) - 1))
    j = min(len(line), i + draw(st.sampled_from([1, 1, 2, 2, 3, 4, 8])))
    groups = 0
    parts = []
    group_open_at = draw(st.integers(0, 3))
    for k, ch in enumerate(line[i:j]):
        kind = draw(_gen_kind)
        if kind == 'lit':
            p = esc(ch)
        elif kind == 'any':
            p = '.'
        elif kind == 'cls':
            other = draw(_char)
            p = '[' + _esc_in_class(ch) + _esc_in_class(other) + ']'
        elif kind == 'short':
            p = _char_class_of(ch)
        elif kind == 'opt':
            p = esc(ch) + '?'
        elif kind == 'star':
            p = esc(ch) + draw(st.sampled_from(['*', '+']))
        else:
            p = esc(ch.swapcase())
        if k == group_open_at:
            groups += 1
            p = '(' + p + ')'
        parts.append(p)
    pat = ''.join(parts)
    whole = (i == 0 and j == len(line))
    anchor = draw(_pct)
    if anchor < 15 or (whole and anchor < 50):
        pat = '^' + pat
    anchor = draw(_pct)
    if anchor < 15 or (whole and anchor < 50):
        pat = pat + '$'
    return {'pat': pat, 'ic': draw(_pct) < 25, 'groups': groups}


_full_kind = st.sampled_from(['lit', 'lit', 'lit', 'lit', 'any', 'short', 'star', 'cls'])


def draw_regex_for_whole(draw, hint: str):
    """Generalise the whole hint text (up to 16 characters, across lines): a candidate for a -full match."""
    parts = []
    text = hint[:16]
    i = 0
    while i < len(text):
        ch = text[i]
        kind = draw(_full_kind)
        if kind == 'lit':
            parts.append(esc(ch))
        elif kind == 'any':
            parts.append('.' if ch != '\n' else '\\s')
        elif kind == 'short':
            parts.append(_char_class_of(ch) if ch != '\n' else '\\s')
        elif kind == 'cls':
            parts.append('[' + _esc_in_class(ch) + _esc_in_class(draw(_char)) + ']')
        else:
            j = i
            while j + 1 < len(text) and text[j + 1] == ch:
                j += 1
            parts.append(esc(ch) + draw(st.sampled_from(['*', '+'])))
            i = j
        i += 1
    pat = ''.join(parts)
    if len(hint) > 16:
        pat += draw(st.sampled_from(['(?:.|\\n)*', '[^é]*', '.*']))
    return {'pat': pat, 'ic': draw(_pct) < 15, 'groups': 0}


_inline_flags = st.sampled_from(['(?m)', '(?m)', '(?s)', '(?s)', '(?i)', '(?ms)'])


def draw_regex(draw, hint: str = '', full: bool = False):
    """hint: the text the regex will be applied to; full: it will be used with -full."""
    k = draw(_pct)
    if full and k < 45:
        rx = draw_regex_for_whole(draw, hint)
    elif hint and k < 55:
        rx = draw_regex_from_substring(draw, hint)
    else:
        rx = draw_random_regex(draw, hint)
    if draw(_pct) < 7:
        # global inline flags ("Python syntax"): multi-line anchors, dot matching new-line, ignore case
        rx = dict(rx, pat=draw(_inline_flags) + rx['pat'])
    return rx


@st.composite
def regexes(draw, hint: str = '', full: bool = False):
    return draw_regex(draw, hint, full)


# ---- replacement templates ------------------------------------------------------------------------------------
_tpl_kind = st.sampled_from(['lit', 'lit', 'lit', 'lit', 'nl', 'tab', 'bs', 'amp', 'ref', 'gref'])
_tpl_lit = st.sampled_from(list('abAB .*+?()[]^$|éXY-<>'))
_tpl_n = st.sampled_from([0, 1, 1, 1, 2, 2, 3])


def draw_template(draw, groups: int) -> str:
    """A replacement STRING for ``replace``: literal characters, \\n, \\t, \\\\ (a backslash), the unknown escape
    \\& ("left alone"), and back-references \\N / \\g<N> to groups that exist."""
    parts = []
    n = draw(_tpl_n)
    want_ref = groups > 0 and draw(_bool)  # at least one back-reference in half of the templates that can have one
    if want_ref:
        n = max(n, 1)
    ref_at = draw(st.integers(0, n - 1)) if want_ref else -1
    for i in range(n):
        kind = draw(_tpl_kind)
        if i == ref_at:
            kind = 'ref' if draw(_bool) else 'gref'
        if kind in ('ref', 'gref') and not groups:
            kind = 'lit'
        if kind == 'lit':
            ch = draw(_tpl_lit)
            if parts and parts[-1].startswith('\\') and parts[-1][1:].isdigit() and ch.isdigit():
                ch = 'x'
            parts.append(ch)
        elif kind == 'nl':
            parts.append('\\n')
        elif kind == 'tab':
            parts.append('\\t')
        elif kind == 'bs':
            parts.append('\\\\')
        elif kind == 'amp':
            parts.append('\\&')
        elif kind == 'ref':
            parts.append('\\%d' % draw(st.integers(1, min(groups, 9))))
        else:
            parts.append('\\g<%d>' % draw(st.integers(1, groups)))
    return ''.join(parts)
