"""Observable leaf program of the C06 check (harmless by construction; standard library only).

usage: c06_leaf.py TRACE ID EXIT OUTHEX [EXTRA-ARG...]

Appends one line ``ID <tab> hex(stdin) <tab> hex(last extra argument)`` to TRACE, writes the bytes given as
hexadecimal OUTHEX ('-' = nothing) to stdout and exits with EXIT.  One shared TRACE file per case, so that the
order of the lines is the order in which the program under test invoked its leaves.
"""
import os
import sys


def main() -> int:
    if len(sys.argv) < 5:
        return 99
    trace, ident, code, out_hex = sys.argv[1], sys.argv[2], int(sys.argv[3]), sys.argv[4]
    extra = sys.argv[5:]
    try:
        data = sys.stdin.buffer.read()
    except Exception:
        data = b'<unreadable>'
    last = os.path.basename(extra[-1]) if extra else ''
    line = '%s\t%s\t%s\n' % (ident, data.hex(), last.encode('utf-8', 'surrogateescape').hex())
    fd = os.open(trace, os.O_WRONLY | os.O_APPEND | os.O_CREAT, 0o644)
    try:
        os.write(fd, line.encode('ascii'))
    finally:
        os.close(fd)
    if out_hex != '-':
        sys.stdout.buffer.write(bytes.fromhex(out_hex))
        sys.stdout.buffer.flush()
    return code


if __name__ == '__main__':
    sys.exit(main())
