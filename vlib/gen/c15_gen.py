"""C15 generators (Hypothesis strategies producing JSON-able cases).  Independent of the code under test; uses the
reference model (vlib/ref/c15_tree.py) only to steer generation (valid appends, exact `matches` conditions).
"""
import functools
import os.path

from hypothesis import strategies as st

from vlib.ref import c15_tree as ref

# ======================================================================================================
# (b) trees with links, matcher expressions
# ======================================================================================================
# no name equals / starts like a component of the work directory (tmp, vx-*, p<pid>, c<n>, home, tree):
# `path` patterns must not depend on where the harness runs
NAMES = ['a', 'b', 'ab', 'a.txt', 'b.txt', 'a.tar.gz', '.x', 'f.', 'x.y', 'A', 'b.d', 'e']
TEXTS = ['', 'x', 'abc', 'x\n', 'l1\nl2\n', 'abc\n']


def _rel_target(link_path, target_path):
    return os.path.relpath('/' + target_path, '/' + os.path.dirname(link_path)) if target_path != '' \
        else os.path.relpath('/', '/' + os.path.dirname(link_path))


@st.composite
def link_trees(draw, max_nodes=10, max_depth=3):
    """-> list of nodes {'p','t',...}; parents precede children; depth (number of components) <= max_depth+1"""
    n = draw(st.sampled_from(list(range(max_nodes + 1)) + [5, 6, 7, 8, 9, 10, 10, 10]))
    nodes = []
    dirs = ['']  # paths of real directories
    files = []
    links = []
    used = set()
    for _ in range(n):
        cand_parents = [d for d in dirs if (d.count('/') + 1 if d else 0) < max_depth + 1]
        # favour deep parents so that trees get >= 2 levels
        parent = draw(st.sampled_from(cand_parents + cand_parents[-2:] + cand_parents[-1:]))
        name = draw(st.sampled_from(NAMES))
        p = (parent + '/' + name) if parent else name
        if p in used:
            continue
        used.add(p)
        t = draw(st.sampled_from(['f', 'f', 'f', 'd', 'd', 'd', 'l', 'l']))
        if t == 'd' and p.count('/') >= max_depth:
            t = 'f'
        if t == 'f':
            nodes.append({'p': p, 't': 'f', 'text': draw(st.sampled_from(TEXTS))})
            files.append(p)
        elif t == 'd':
            nodes.append({'p': p, 't': 'd'})
            dirs.append(p)
        else:
            kinds = ['dangling']
            if files:
                kinds += ['file', 'file']
            other_dirs = [d for d in dirs if d != '' and not (parent == d or parent.startswith(d + '/'))]
            if other_dirs:
                kinds += ['dir', 'dir', 'dir']
            kinds += ['anc'] if len(kinds) <= 2 else []
            if links:
                kinds += ['link']
            lk = draw(st.sampled_from(kinds))
            if lk == 'dangling':
                # never through a name that may exist (a link `a -> a/nowhere` would be a link cycle, ELOOP)
                target = draw(st.sampled_from(['nowhere', 'zz/nowhere', '../nowhere-up'] if parent else
                                              ['nowhere', 'zz/nowhere']))
            elif lk == 'file':
                target = _rel_target(p, draw(st.sampled_from(files)))
            elif lk == 'dir':
                target = _rel_target(p, draw(st.sampled_from(other_dirs)))
            elif lk == 'anc':
                ancs = ['']
                cur = ''
                for comp in parent.split('/') if parent else []:
                    cur = (cur + '/' + comp) if cur else comp
                    ancs.append(cur)
                target = _rel_target(p, draw(st.sampled_from(ancs)))
            else:
                target = _rel_target(p, draw(st.sampled_from(links)))
            nodes.append({'p': p, 't': 'l', 'target': target, 'lk': lk})
            links.append(p)
    return nodes


def is_cyclic(nodes):
    """Does an unbounded recursive walk (links followed) from any directory of the tree never end?"""
    tree = ref.LinkTree(nodes)

    def walk(access, stack):
        r = tree.resolve(access)
        if r is None or r[0][0] != 'd':
            return False
        if r[1] in stack:
            return True
        if len(access) > 12:
            return True
        for name in tree.children(r[1]):
            if walk(access + (name,), stack | {r[1]}):
                return True
        return False

    return walk((), frozenset())


_INT_OPS = ['==', '!=', '<', '<=', '>', '>=']


def _depths(force_max):
    mx = st.integers(0, 3) if force_max else (st.none() | st.integers(0, 4))
    return st.fixed_dictionaries({'min': st.none() | st.integers(0, 4), 'max': mx})


def rec_opts(force_max):
    return _depths(force_max) | _depths(force_max) | _depths(force_max) | st.none()


_GLOBS = {
    'name': ['a', 'a*', '*.txt', '?', '??', '[ab]', '[!a]*', '*', '*.*', 'a.*', '[a-e]', '.*', '?.?', 'A', '*b*'],
    'stem': ['a', 'b', '', '?', 'a*', '[ab]', '*', 'x', '[!a]'],
    'suffix': ['.txt', '.gz', '', '.', '.?', '.*', '*', '.[tx]*', '.y'],
    'suffixes': ['.txt', '.tar.gz', '.tar*', '', '.', '*.gz', '.*.*', '*', '.x'],
    'path': ['*/a', '*/b', '*/a/b', '*/tree/a', '*/[ab]', '*/a.txt', '*/a/[a-e]', '*/tree/b/a'],
}
_REGEXES = {
    'name': ['^a$', 'a', '^[ab]', r'\.txt$', '^.$', 'b', r'^a\.', 'A', '^[^.]*$', 'x|e'],
    'stem': ['^a$', 'a', '^$', '^.$', 'b$', '^[abx]$'],
    'suffix': [r'^\.txt$', 'gz', '^$', r'^\.$', 't', r'^\..$'],
    'suffixes': [r'^\.tar\.gz$', 'tar', '^$', r'\.gz$', r'^\.[^.]*$', r'\..*\.'],
    'path': ['/a$', '/a/', 'tree/a(/|$)', 'tree/[^/]*$', 'tree/[^/]+/[^/]+$', '/b/a', r'\.txt$',
             'tree/([^/]+/){2}', '/tree/b$', '/e/'],
}


def _name_matchers():
    def one(kind):
        return st.one_of(
            st.builds(lambda g: {'k': kind, 'glob': g}, st.sampled_from(_GLOBS[kind])),
            st.builds(lambda r, ic: {'k': kind, 're': r, 'ic': ic}, st.sampled_from(_REGEXES[kind]),
                      st.sampled_from([False, False, False, True])),
        )

    return st.one_of(one('name'), one('name'), one('stem'), one('suffix'), one('suffixes'), one('path'))


_text_matchers = st.one_of(
    st.just({'k': 'empty'}),
    st.just({'k': 'not', 'x': {'k': 'empty'}}),
    st.builds(lambda s: {'k': 'equals', 's': s}, st.sampled_from(['x', 'abc', ''])),
    st.builds(lambda op, n: {'k': 'numlines', 'op': op, 'n': n}, st.sampled_from(_INT_OPS), st.integers(0, 2)),
)

_types = st.builds(lambda v: {'k': 'type', 'v': v}, st.sampled_from(['file', 'dir', 'symlink']))
_consts = st.builds(lambda v: {'k': 'const', 'v': v}, st.booleans())


def _guard(type_name, m):
    return {'k': 'and', 'xs': [{'k': 'type', 'v': type_name}, m]}


@functools.lru_cache(maxsize=None)
def file_matchers(depth, force_max):
    """depth = remaining nesting budget"""
    contents = st.builds(lambda tm: {'k': 'contents', 'tm': tm}, _text_matchers)
    leaves = [_types, _types, st.just({'k': 'type', 'v': 'symlink'}), _name_matchers(), _name_matchers(), _consts,
              st.builds(lambda c: _guard('file', c), contents),
              contents]  # unguarded: HARD_ERROR on non-regular files is documented
    if depth <= 0:
        return st.one_of(*leaves)
    sub = st.deferred(lambda: file_matchers(depth - 1, force_max))
    dirc = st.builds(lambda rec, m: {'k': 'dircontents', 'rec': rec, 'm': m}, rec_opts(force_max),
                     st.deferred(lambda: files_matchers(depth - 1, force_max)))
    return st.one_of(
        *leaves,
        st.builds(lambda d: _guard('dir', d), dirc),
        st.builds(lambda d: _guard('dir', d), dirc),
        dirc,
        st.builds(lambda x: {'k': 'not', 'x': x}, sub),
        st.builds(lambda xs: {'k': 'and', 'xs': xs}, st.lists(sub, min_size=2, max_size=3)),
        st.builds(lambda xs: {'k': 'or', 'xs': xs}, st.lists(sub, min_size=2, max_size=3)),
        st.builds(lambda x: {'k': 'par', 'x': x}, sub),
    )


@functools.lru_cache(maxsize=None)
def prune_matchers(depth, force_max):
    """pruning matchers are only applied to directories: name tests, constants, nested dir-contents"""
    base = st.one_of(_name_matchers(), _name_matchers(), _consts, _types,
                     st.builds(lambda rec, m: {'k': 'dircontents', 'rec': rec, 'm': m}, rec_opts(force_max),
                               st.deferred(lambda: files_matchers(0, force_max))))
    return st.one_of(base, base, st.builds(lambda x: {'k': 'not', 'x': x}, base),
                     st.builds(lambda a, b: {'k': 'or', 'xs': [a, b]}, base, base),
                     st.deferred(lambda: file_matchers(max(depth - 1, 0), force_max)))


@functools.lru_cache(maxsize=None)
def files_conditions(depth, force_max):
    # an int is replaced by a name of the case's tree (see _bind_names)
    name = st.integers(0, 40)
    name = st.one_of(name, name, name, st.sampled_from(NAMES), st.sampled_from(['a/b', 'b/a', 'a/a.txt', 'e/e/e']))
    fm = st.none() | st.deferred(lambda: file_matchers(max(depth - 1, 0), force_max))
    return st.lists(st.tuples(name, fm).map(list), min_size=0, max_size=4)


@functools.lru_cache(maxsize=None)
def files_matchers(depth, force_max):
    fm = st.deferred(lambda: file_matchers(max(depth - 1, 0), force_max))
    leaves = [
        st.just({'k': 'empty'}),
        st.builds(lambda op, n: {'k': 'numfiles', 'op': op, 'n': n}, st.sampled_from(_INT_OPS), st.integers(0, 6)),
        st.builds(lambda op, n: {'k': 'numfiles', 'op': op, 'n': n}, st.sampled_from(_INT_OPS), st.integers(0, 3)),
        st.builds(lambda full, fc, inl: {'k': 'matches', 'full': full, 'fc': fc, 'inline': inl}, st.booleans(),
                  files_conditions(depth, force_max), st.booleans()),
        st.builds(lambda q, m: {'k': q, 'fm': m}, st.sampled_from(['every', 'any']), fm),
        st.builds(lambda q, m: {'k': q, 'fm': m}, st.sampled_from(['every', 'any']), fm),
    ]
    if depth <= 0:
        return st.one_of(*leaves, _consts)
    sub = st.deferred(lambda: files_matchers(depth - 1, force_max))
    # nested selections: the inner FILE-MATCHER is applied to "the sub set of files matched by" the outer one only -
    # an inner matcher that is HARD_ERROR on the file types the outer one excludes must never meet such a file
    only_files = st.builds(lambda tm: {'k': 'contents', 'tm': tm}, _text_matchers)
    only_dirs = st.builds(lambda rec, m: {'k': 'dircontents', 'rec': rec, 'm': m}, rec_opts(force_max),
                          st.deferred(lambda: files_matchers(0, force_max)))
    nested_sel = st.one_of(
        st.builds(lambda inner, m: {'k': 'sel', 'fm': {'k': 'type', 'v': 'file'},
                                    'm': {'k': 'sel', 'fm': inner, 'm': m}}, only_files, sub),
        st.builds(lambda inner, m: {'k': 'sel', 'fm': {'k': 'type', 'v': 'dir'},
                                    'm': {'k': 'sel', 'fm': inner, 'm': m}}, only_dirs, sub),
        st.builds(lambda inner, q: {'k': 'sel', 'fm': {'k': 'type', 'v': 'file'},
                                    'm': {'k': q, 'fm': inner}}, only_files, st.sampled_from(['every', 'any'])))
    # one model, several operands: an operand that looks at every file first, then one that derives a pruned (or
    # selected) model from the same model - what the first one saw must not be what the second one gets
    whole = st.one_of(leaves[1], leaves[2], st.just({'k': 'empty'}),
                      st.just({'k': 'every', 'fm': {'k': 'const', 'v': True}}),
                      st.just({'k': 'not', 'x': {'k': 'any', 'fm': {'k': 'const', 'v': False}}}))
    derived = st.one_of(
        st.builds(lambda f, m: {'k': 'prune', 'fm': f, 'm': m},
                  st.deferred(lambda: prune_matchers(depth, force_max)), st.one_of(leaves[1], leaves[2], sub)),
        st.builds(lambda f, m: {'k': 'sel', 'fm': f, 'm': m}, fm, st.one_of(leaves[1], leaves[2])))
    shared_model = st.builds(lambda op, a, b, c: {'k': op, 'xs': [a, b] + ([c] if c is not None else [])},
                             st.sampled_from(['and', 'or']), whole, derived, st.none() | derived)
    return st.one_of(
        *leaves[1:],
        nested_sel,
        shared_model,
        st.builds(lambda f, m: {'k': 'sel', 'fm': f, 'm': m}, fm, sub),
        st.builds(lambda f, m: {'k': 'sel', 'fm': f, 'm': m}, fm, sub),
        st.builds(lambda f, m: {'k': 'sel', 'fm': f, 'm': m}, fm, sub),
        st.builds(lambda f, m: {'k': 'prune', 'fm': f, 'm': m},
                  st.deferred(lambda: prune_matchers(depth, force_max)), sub),
        st.builds(lambda f, m: {'k': 'prune', 'fm': f, 'm': m},
                  st.deferred(lambda: prune_matchers(depth, force_max)), sub),
        st.builds(lambda f, m: {'k': 'prune', 'fm': f, 'm': m},
                  st.deferred(lambda: prune_matchers(depth, force_max)), sub),
        st.builds(lambda x: {'k': 'not', 'x': x}, sub),
        st.builds(lambda xs: {'k': 'and', 'xs': xs}, st.lists(sub, min_size=2, max_size=3)),
        st.builds(lambda xs: {'k': 'or', 'xs': xs}, st.lists(sub, min_size=2, max_size=3)),
        st.builds(lambda x: {'k': 'par', 'x': x}, sub),
        _consts,
    )


def _bind_names(m, names):
    """replace the integer names of files-conditions by names of the tree"""
    if isinstance(m, dict):
        if m.get('k') == 'matches':
            for cond in m['fc']:
                if isinstance(cond[0], int):
                    cond[0] = names[cond[0] % len(names)] if names else NAMES[cond[0] % len(NAMES)]
        for v in m.values():
            _bind_names(v, names)
    elif isinstance(m, list):
        for v in m:
            _bind_names(v, names)
    return m


def _dir_access_paths(nodes, limit=40):
    """access paths (strings) of everything that is a directory when links are followed, plus other kinds"""
    tree = ref.LinkTree(nodes)
    dirs, others = [''], []
    queue = [()]
    seen = 0
    while queue and seen < limit:
        acc = queue.pop(0)
        r = tree.resolve(acc)
        for name in tree.children(r[1]):
            seen += 1
            a = acc + (name,)
            if tree.kind_followed(a) == 'd':
                dirs.append('/'.join(a))
                if len(a) < 4:
                    queue.append(a)
            else:
                others.append('/'.join(a))
    return dirs, others


def _exact_condition(draw, nodes, root, rec, sel_type):
    """A `matches` condition listing exactly the files of the model (optionally one entry changed)."""
    tree = ref.LinkTree(nodes)
    ev = ref.Evaluator(tree, '/x/tree')
    sels = ({'k': 'type', 'v': sel_type},) if sel_type else ()
    try:
        files = ev.files(ref.Model(tuple(root.split('/')) if root else (), rec, (), sels))
    except (ref.TooBig, ref.Ambiguous):
        files = []
    fc = []
    for f in sorted(files):
        access = (tuple(root.split('/')) if root else ()) + f
        kind = tree.kind_followed(access)
        with_m = draw(st.integers(0, 3))
        if with_m == 0:
            fm = {'k': 'type', 'v': {'f': 'file', 'd': 'dir', None: 'symlink'}[kind]}
        elif with_m == 1 and kind == 'f':
            fm = _guard('file', {'k': 'contents', 'tm': {'k': 'numlines', 'op': '==',
                                                         'n': ref.num_lines(tree.resolve(access)[0][1])}})
        elif with_m == 1 and kind == 'd':
            fm = {'k': 'dircontents', 'rec': None,
                  'm': {'k': 'numfiles', 'op': '==', 'n': len(tree.children(tree.resolve(access)[1]))}}
        else:
            fm = None
        fc.append(['/'.join(f), fm])
    change = draw(st.sampled_from(['none', 'none', 'none', 'drop', 'add', 'rename', 'wrongtype', 'dup']))
    if change == 'drop' and fc:
        fc.pop(draw(st.integers(0, len(fc) - 1)))
    elif change == 'add':
        fc.insert(draw(st.integers(0, len(fc))), [draw(st.sampled_from(['zz', 'a/zz', 'a/b/zz', 'e.not'])), None])
    elif change == 'rename' and fc:
        i = draw(st.integers(0, len(fc) - 1))
        fc[i] = [fc[i][0] + 'z', fc[i][1]]
    elif change == 'wrongtype' and fc:
        i = draw(st.integers(0, len(fc) - 1))
        access = (tuple(root.split('/')) if root else ()) + tuple(fc[i][0].split('/'))
        kind = tree.kind_followed(access)
        fc[i] = [fc[i][0], {'k': 'type', 'v': 'dir' if kind != 'd' else 'file'}]
    elif change == 'dup' and fc:
        i = draw(st.integers(0, len(fc) - 1))
        fc.append([fc[i][0], {'k': 'const', 'v': draw(st.booleans())}])
    order = draw(st.permutations(list(range(len(fc))))) if len(fc) > 1 and draw(st.booleans()) else range(len(fc))
    return [fc[i] for i in order]


@st.composite
def repeated_application_cases(draw):
    """One matcher value applied to several directories within one evaluation: sibling directories with overlapping
    sets of child names, and `every/any file` / `-selection` over them with a nested `dir-contents M` where M is a
    `matches` condition (full or not) or a quantifier over the children: the verdict for a later directory must not
    depend on what the earlier ones contained."""
    pool = draw(st.permutations(['a', 'b', 'ab', 'a.txt', 'e']))[:draw(st.integers(2, 4))]
    sibs = draw(st.permutations(['A', 'b.d', 'x.y', 'e', 'f.']))[:draw(st.integers(2, 4))]
    nodes = []
    for d in sorted(sibs):
        nodes.append({'p': d, 't': 'd'})
        for name in draw(st.lists(st.sampled_from(pool), unique=True, max_size=len(pool))):
            t = draw(st.sampled_from(['f', 'f', 'd']))
            nodes.append({'p': d + '/' + name, 't': t, 'text': draw(st.sampled_from(TEXTS))} if t == 'f'
                         else {'p': d + '/' + name, 't': 'd'})
    if draw(st.booleans()):
        nodes.append({'p': 'top.txt', 't': 'f', 'text': 'x'})
    fc = [[n, draw(st.sampled_from([None, None, {'k': 'type', 'v': 'file'}, {'k': 'const', 'v': True}]))]
          for n in draw(st.lists(st.sampled_from(pool), unique=True, min_size=1, max_size=len(pool)))]
    inner = draw(st.sampled_from([
        {'k': 'matches', 'full': False, 'fc': fc, 'inline': draw(st.booleans())},
        {'k': 'matches', 'full': False, 'fc': fc, 'inline': draw(st.booleans())},
        {'k': 'matches', 'full': True, 'fc': fc, 'inline': draw(st.booleans())},
        {'k': 'not', 'x': {'k': 'matches', 'full': False, 'fc': fc, 'inline': False}},
    ]))
    per_dir = {'k': 'dircontents', 'rec': None, 'm': inner}
    shape = draw(st.sampled_from(['every', 'any', 'sel-num', 'sel-empty', 'not-every']))
    guarded = _guard('dir', per_dir)
    if shape == 'every':
        expr = {'k': 'sel', 'fm': {'k': 'type', 'v': 'dir'}, 'm': {'k': 'every', 'fm': per_dir}}
    elif shape == 'any':
        expr = {'k': 'any', 'fm': guarded}
    elif shape == 'sel-num':
        expr = {'k': 'sel', 'fm': guarded, 'm': {'k': 'numfiles', 'op': draw(st.sampled_from(['==', '>=', '<'])),
                                                  'n': draw(st.integers(0, len(sibs)))}}
    elif shape == 'sel-empty':
        expr = {'k': 'sel', 'fm': guarded, 'm': {'k': 'empty'}}
    else:
        expr = {'k': 'not', 'x': {'k': 'sel', 'fm': {'k': 'type', 'v': 'dir'}, 'm': {'k': 'every', 'fm': per_dir}}}
    return {'tree': nodes, 'via': 'dc', 'path': '', 'rec': None, 'expr': expr, 'repeated': True}


@st.composite
def match_cases(draw, tier='quick'):
    if draw(st.integers(0, 11)) == 0:
        return draw(repeated_application_cases())
    nodes = draw(link_trees(max_nodes=10 if tier == 'quick' else 14))
    cyclic = is_cyclic(nodes)
    dirs, others = _dir_access_paths(nodes)
    tree = ref.LinkTree(nodes)
    all_names = sorted(set(['/'.join(p) for p in tree.nodes if p] + [n['p'].split('/', 1)[1] for n in nodes
                                                                       if '/' in n['p']]))
    depth = draw(st.sampled_from([1, 2, 2, 3, 3]))
    via = draw(st.sampled_from(['dc', 'dc', 'dc', 'dc', 'exact', 'exact', 'ex']))
    case = {'tree': nodes, 'via': via}
    if via in ('dc', 'exact'):
        # the tested directory: the root, a sub directory (maybe through a link), seldom something else
        which = draw(st.integers(0, 9))
        if which <= 5 or (which <= 8 and len(dirs) == 1):
            path = ''
        elif which <= 8:
            path = draw(st.sampled_from(dirs))
        else:
            path = draw(st.sampled_from(others + ['missing', 'a/missing']))
        case['path'] = path
        case['rec'] = draw(rec_opts(cyclic))
        if via == 'exact' and (path == '' or path in dirs):
            sel_type = draw(st.sampled_from([None, None, 'file', 'dir']))
            fc = _exact_condition(draw, nodes, path, case['rec'], sel_type)
            m = {'k': 'matches', 'full': draw(st.sampled_from([True, True, False])), 'fc': fc, 'inline': False}
            if sel_type:
                m = {'k': 'sel', 'fm': {'k': 'type', 'v': sel_type}, 'm': m}
            if draw(st.integers(0, 5)) == 0:
                m = {'k': 'not', 'x': m}
            case['expr'] = m
            case['via'] = 'dc'
            case['exact'] = True
        else:
            case['via'] = 'dc'
            case['expr'] = _bind_names(draw(files_matchers(depth, cyclic)), all_names)
    else:
        cands = dirs[1:] + others + [''] + ['missing', 'a/missing']
        case['path'] = draw(st.sampled_from(cands))
        case['neg'] = draw(st.sampled_from([False, False, True]))
        case['expr'] = _bind_names(draw(st.none() | file_matchers(depth, cyclic) | file_matchers(depth, cyclic)),
                                   all_names)
    return case


# ======================================================================================================
# (a) FILE-LISTs
# ======================================================================================================
SIMPLE = ['a', 'b', 'c', 'a.txt', 'x', 'a b']
NESTED = ['a/b', 'a/b/c', 'n/m', 'x/y/z', 'b/a', 'c/c']
ODD = ['./o', 'o/./p', 'o//q', 'r/', '.', './', 'a/.']  # Posix spellings of plain relative names
FORBIDDEN = ['../esc', 'a/../b', '..', 'a/..', '../sib/keep', '{HOME}/abs-esc', '{ROOT}/abs-esc2',
             'a/../../esc', '{TMPROOT}/esc', 'x/y/../z', 'b/../../x', 'n/..']
DOTDOT_SUBSTRING = ['a..b', '...', '..a', 'a../b']
PATHSEP = ['a:b', 'x;y', 's:t/u']  # plain Posix names; see KF-C15-1
FTEXTS = ['', 'x', 'hello world', 'l1\n', 'l1\nl2\n', 'y', ' \n']
SOURCES = {
    's1': {'f1': 'one\n', 'sd': None, 'sd/f2': 'two', 'sd/e': None},
    's2': {'a': 'from-s2'},
    's3': {},
    's4': {'b': None, 'b/a': None, 'b/a/deep': 'd\n', 'c': ''},
}


def _existing(dir_node, prefix='', depth=0):
    files, dirs = [], []
    for n in sorted(dir_node['c']):
        c = dir_node['c'][n]
        p = prefix + n
        if c['t'] == 'f':
            files.append(p)
        else:
            dirs.append(p)
            if depth < 3:
                f2, d2 = _existing(c, p + '/', depth + 1)
                files += f2
                dirs += d2
    return files, dirs


def _free_names(dir_node):
    out = []
    for n in SIMPLE + NESTED:
        try:
            ref._creatable(dir_node, n.split('/'))
            out.append(n)
        except ref.PopulateFailure:
            pass
    return out


def _apply(state, entry):
    """apply one entry to the generator's model of the directory; -> new state (None = failed / unknown)"""
    if state is None:
        return None
    try:
        ref.populate(state, {'k': 'list', 'entries': [entry]}, {k: ref.tree_of_files(v) for k, v in SOURCES.items()})
        return state
    except (ref.PopulateFailure, ref.Rejected):
        return None


def _draw_files_source(draw, depth, state, p_valid):
    """state: dict tree of the directory being populated (mutated in place) or None (= unknown / failed).
    -> (AST, state after)"""
    kind = draw(st.integers(0, 9))
    if kind == 0:
        fs = {'k': 'copy', 'src': draw(st.sampled_from(sorted(SOURCES) * 4 + ['nosuch', 'src-is-a-file']))}
        state = _apply(state, {'t': 'dir', 'name': '.', 'op': '+=', 'src': fs})
    else:
        n = draw(st.integers(0, 5 if depth > 0 else 7))
        entries = []
        for _ in range(n):
            e, state = _draw_entry(draw, depth, state, p_valid)
            entries.append(e)
        fs = {'k': 'list', 'entries': entries, 'inline': draw(st.integers(0, 4)) == 0}
    if draw(st.integers(0, 9)) == 0:
        fs = {'k': 'par', 'x': fs}
    return fs, state


def _draw_entry(draw, depth, state, p_valid):
    """-> (entry, state after)"""
    valid = state is not None and draw(st.integers(0, 99)) < p_valid
    shapes = []
    if valid:
        files, dirs = _existing(state)
        free = _free_names(state)
        if free:
            shapes += ['file', 'file=', 'file=', 'dir', 'dir=', 'dir=']
        if files:
            shapes += ['file+=', 'file+=']
        if dirs:
            shapes += ['dir+=', 'dir+=']
        if not shapes:
            valid = False
    if valid:
        shape = draw(st.sampled_from(shapes))
        if shape.endswith('+='):
            name = draw(st.sampled_from(files if shape.startswith('file') else dirs))
        else:
            name = draw(st.sampled_from(free))
    else:
        shape = draw(st.sampled_from(['file', 'file=', 'file+=', 'dir', 'dir=', 'dir+=']))
        pool = draw(st.sampled_from(['simple'] * 6 + ['nested'] * 3 + ['odd'] * 3 + ['forbidden'] * 3 +
                                    ['dotdot'] * 2 + ['pathsep'] * draw(st.sampled_from([0, 0, 1]))))
        name = draw(st.sampled_from({'simple': SIMPLE, 'nested': NESTED, 'odd': ODD, 'forbidden': FORBIDDEN,
                                     'dotdot': DOTDOT_SUBSTRING, 'pathsep': PATHSEP}[pool]))
    t = 'file' if shape.startswith('file') else 'dir'
    op = '+=' if shape.endswith('+=') else ('=' if shape.endswith('=') else None)
    e = {'t': t, 'name': name, 'op': op}
    if t == 'file':
        if op is not None:
            e['text'] = draw(st.sampled_from(FTEXTS))
        return e, _apply(state, e)
    if op is None:
        return e, _apply(state, e)
    if depth <= 0:
        e['src'] = {'k': 'list', 'entries': [], 'inline': draw(st.booleans())}
        return e, _apply(state, e)
    # nested files-source: generated against the generator's model of the nested directory
    sub_state = None
    if state is not None:
        try:
            parts = ref.name_parts(name)
            if op == '+=':
                node = ref._lookup(state, parts) if parts else state
                sub_state = node if isinstance(node, dict) and node['t'] == 'd' else None
            elif parts:
                ref._creatable(state, parts)
                parent = ref._mk_parents(state, parts[:-1])
                sub_state = ref.new_dir()
                parent['c'][parts[-1]] = sub_state
        except (ref.PopulateFailure, ref.Rejected):
            sub_state = None
    e['src'], after = _draw_files_source(draw, depth - 1, sub_state, p_valid)
    return e, (state if after is not None else None)


@st.composite
def populate_cases(draw, tier='quick', p_valid=88):
    top = draw(st.sampled_from(['create'] * 6 + ['append'] * 3 + ['plain', 'append-missing', 'create-existing']))
    case = {'top': top,
            'phase': draw(st.sampled_from(['setup'] * 5 + ['before-assert', 'assert', 'cleanup'])),
            'path': draw(st.sampled_from(['d', 'd', 'd', 'p/q/d', 'sib/d']))}
    state = ref.new_dir()
    if top == 'append':
        case['fs0'], state = _draw_files_source(draw, 1, state, 100)
    elif top in ('append-missing', 'create-existing'):
        state = None
    if top != 'plain':
        case['fs'], state = _draw_files_source(draw, draw(st.sampled_from([1, 2, 2, 3])), state, p_valid)
    return case


@st.composite
def roundtrip_cases(draw, tier='quick'):
    state = ref.new_dir()
    fs, state = _draw_files_source(draw, draw(st.sampled_from([1, 2, 3])), state, 100)
    return {'fs': fs,
            'variant': draw(st.sampled_from(['exact', 'exact', 'exact', 'drop', 'add', 'retype', 'retext',
                                             'nonrec', 'nonrec-drop', 'nonfull-drop'])),
            'pick': draw(st.integers(0, 30)),
            'with_matchers': draw(st.sampled_from([True, True, False]))}
