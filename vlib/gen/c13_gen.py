"""C13 generators: line-matcher / integer-matcher trees, line-number ranges, texts; their concrete syntax.

Tree and range shapes are documented in vlib/ref/c13_ref.py.  Everything is built by construction
(no assume/filter).  Independent of the code under test.
"""
import itertools

from hypothesis import strategies as st

OPS = ('==', '!=', '<', '<=', '>', '>=')

# contents matchers: (regex, -full?)  - line texts are MARKER + line index (see `lines_strategy`)
REGEXES = [('x', False), ('y', False), ('^x', False), ('^y', False), ('xy', False), ('^[0-9]', False),
           ('[13579]$', False), ('[02468]$', False), ('x[0-9]+', True), ('[0-9]+', True), ('1', False),
           (' $', False), ('[0-9]$', False)]
MARKERS = ['x', 'y', 'xy', '']


# ---------------------------------------------------------------------------------------------
# concrete syntax
def render_int(text: str) -> str:
    """an INTEGER is a STRING: quote it if it contains a space"""
    return "'%s'" % text if ' ' in text else text


def render_im(t, simple: bool, mp: bool) -> str:
    """simple: the position does not admit infix operators (after `line-num`, after `!`);
    mp: minimal parentheses (rely on && binding tighter than ||)"""
    k = t[0]
    if k == 'cmp':
        return '%s %s' % (t[1], render_int(t[2]))
    if k == 'const':
        return 'constant ' + ('true' if t[1] else 'false')
    if k == 'sym':
        return t[1]
    if k == 'not':
        return '! ' + render_im(t[1], True, mp)
    s = (' && ' if k == 'and' else ' || ').join(_operand(render_im, c, k, mp) for c in t[1])
    return '( %s )' % s if simple else s


def _operand(render, c, parent: str, mp: bool) -> str:
    if c[0] in ('and', 'or'):
        if mp and parent == 'or' and c[0] == 'and':
            return render(c, False, mp)
        return render(c, True, mp)
    return render(c, False, mp)


def render_lm(t, simple: bool, mp: bool) -> str:
    k = t[0]
    if k == 'ln':
        return 'line-num ' + render_im(t[1], True, mp)
    if k == 'cm':
        return "contents matches %s'%s'" % ('-full ' if t[2] else '', t[1])
    if k == 'ce':
        return 'contents is-empty'
    if k == 'const':
        return 'constant ' + ('true' if t[1] else 'false')
    if k == 'sym':
        return t[1]
    if k == 'not':
        return '! ' + render_lm(t[1], True, mp)
    s = (' && ' if k == 'and' else ' || ').join(_operand(render_lm, c, k, mp) for c in t[1])
    return '( %s )' % s if simple else s


def render_range(r) -> str:
    a, b = r.get('a', ''), r.get('b', '')
    s = {'s': a, 'u': ':' + a, 'l': a + ':', 'b': a + ':' + b}[r['f']]
    return "'%s'" % s if ' ' in s else s


def extract_symbols(lm, prefix: str):
    """-> (definition lines, tree with ['sym', reference]): every && / || node below the root becomes a symbol
    (integer-matcher or line-matcher), referenced by plain name or @[NAME]@ alternately"""
    defs = []
    counter = [0]

    def ref(type_name, text):
        counter[0] += 1
        name = '%s%d' % (prefix, counter[0])
        defs.append('def %s %s = %s' % (type_name, name, text))
        return ['sym', name if counter[0] % 2 else '@[%s]@' % name]

    def walk(t, level, is_root):
        k = t[0]
        if k == 'ln':
            return ['ln', walk(t[1], 'im', False)]
        if k == 'not':
            return ['not', walk(t[1], level, False)]
        if k in ('and', 'or'):
            new = [k, [walk(c, level, False) for c in t[1]]]
            if is_root:
                return new
            if level == 'im':
                return ref('integer-matcher', render_im(new, True, False))
            return ref('line-matcher', render_lm(new, True, False))
        return t

    return defs, walk(lm, 'lm', True)


def render_stage(stage, mp: bool = False) -> str:
    if 'm' in stage:
        return 'filter ' + render_lm(stage['m'], True, mp)
    return 'filter -line-nums ' + ' '.join(render_range(r) for r in stage['r'])


def render_transformer(stages, mp: bool = False, sym: bool = False):
    """-> (symbol definition lines, TEXT-TRANSFORMER text; a -line-nums list runs to end of line, so what
    follows it starts a new line)"""
    defs = []
    parts = []
    for i, s in enumerate(stages):
        if sym and 'm' in s:
            d, t = extract_symbols(s['m'], 'S%d_' % i)
            defs.extend(d)
            s = {'m': t}
        parts.append(render_stage(s, mp))
    if len(parts) == 1:
        return defs, parts[0]
    text = '( ' + parts[0]
    for prev, p in zip(stages, parts[1:]):
        text += ('\n  | ' if 'r' in prev else ' | ') + p
    text += ('\n  )' if 'r' in stages[-1] else ' )')
    return defs, text


def text_of(lines, nl: bool) -> str:
    if not lines:
        return ''
    return '\n'.join(lines) + ('\n' if nl else '')


# ---------------------------------------------------------------------------------------------
# strategies
def _int_text(v: int, form: str, a: int) -> str:
    if form == 'sum':
        return '%d+%d' % (v - a, a)
    if form == 'sub':
        return '%d-%d' % (v + a, a)
    if form == 'mul':
        return '%d*1' % v if a % 2 else '1*%d' % v
    if form == 'q':
        return '%d + %d' % (v - a, a)
    if form == 'par':
        return '(%d+%d)' % (v - a, a)
    if form == 'plus' and v >= 0:
        return '+%d' % v
    return str(v)


# Every draw below maps distinct choices to distinct values (no "weighted lists"): Hypothesis' mutator copies
# choices around, and choices that differ without changing the value only produce duplicate cases.
_INTS = {}


def _ints(lo: int, hi: int):
    k = (lo, hi)
    if k not in _INTS:
        _INTS[k] = st.integers(lo, hi)
    return _INTS[k]


_EXPR_FORMS = ['sum', 'sub', 'mul', 'q', 'par', 'plus']


def _d_int_text(draw, lo: int, hi: int) -> str:
    v = draw(_ints(lo, hi))
    if draw(_ints(0, 1)) == 0:
        return str(v)
    form = _EXPR_FORMS[draw(_ints(0, len(_EXPR_FORMS) - 1))]
    if form == 'plus':
        return '+%d' % v if v >= 0 else '-%d' % -v
    if form == 'mul':
        return _int_text(v, form, draw(_ints(0, 1)))
    return _int_text(v, form, draw(_ints(0, 4)))


@st.composite
def int_texts(draw, lo: int, hi: int):
    return _d_int_text(draw, lo, hi)


_NODE = ['leaf', 'not', 'and', 'or']


def _d_im(draw, levels: int, lo: int, hi: int):
    k = 'leaf' if levels == 0 else _NODE[draw(_ints(0, 3))]
    if k == 'leaf':
        # alternatives: 6 operators x (operand from the lower | upper half of [lo, hi]) | a constant
        i = draw(_ints(0, 2 * len(OPS)))
        if i < 2 * len(OPS):
            mid = (lo + hi) // 2
            rng = (lo, mid) if i < len(OPS) else (mid + 1, hi)
            return ['cmp', OPS[i % len(OPS)], _d_int_text(draw, rng[0], rng[1])]
        return ['const', draw(_ints(0, 1)) == 1]
    if k == 'not':
        return ['not', _d_im(draw, levels - 1, lo, hi)]
    return [k, [_d_im(draw, levels - 1, lo, hi) for _ in range(draw(_ints(2, 3)))]]


def _d_lm(draw, levels: int, im_levels: int, lo: int, hi: int):
    k = 'leaf' if levels == 0 else _NODE[draw(_ints(0, 3))]
    if k == 'leaf':
        # alternatives: line-num with an IM tree of 0..im_levels levels, operands from all of [lo, hi] | the same
        # with operands that are line numbers of a longest text | contents matcher or constant
        i = draw(_ints(0, 2 * im_levels + 2))
        if i <= im_levels:
            return ['ln', _d_im(draw, i, lo, hi)]
        if i <= 2 * im_levels + 1:
            return ['ln', _d_im(draw, i - im_levels - 1, 1, max(1, hi - 3))]
        j = draw(_ints(0, len(REGEXES) + 2))
        if j < len(REGEXES):
            return ['cm', REGEXES[j][0], REGEXES[j][1]]
        if j == len(REGEXES):
            return ['ce']
        return ['const', j == len(REGEXES) + 1]
    if k == 'not':
        return ['not', _d_lm(draw, levels - 1, im_levels, lo, hi)]
    return [k, [_d_lm(draw, levels - 1, im_levels, lo, hi) for _ in range(draw(_ints(2, 3)))]]


@st.composite
def im_trees(draw, levels: int, lo: int, hi: int):
    return _d_im(draw, levels, lo, hi)


@st.composite
def any_depth_lm(draw, max_lm_levels: int, im_levels: int, lo: int, hi: int):
    """line-matcher trees with 0..max_lm_levels levels of ! && || (every level may stop at a leaf)"""
    return _d_lm(draw, max_lm_levels, im_levels, lo, hi)


def ranges(n_max: int):
    lo, hi = -n_max - 2, n_max + 2
    it = int_texts(lo, hi)
    one = st.one_of(
        st.builds(lambda a: {'f': 's', 'a': a}, it),
        st.builds(lambda a: {'f': 'u', 'a': a}, it),
        st.builds(lambda a: {'f': 'l', 'a': a}, it),
        st.builds(lambda a, b: {'f': 'b', 'a': a, 'b': b}, it, it),
        st.builds(lambda a, b: {'f': 'b', 'a': a, 'b': b}, it, it),
    )
    return st.lists(one, min_size=1, max_size=4)


@st.composite
def lines_strategy(draw, n_max: int):
    """lines are MARKER + 1-based index (so every line of the input is distinguishable); one time in four one of
    them is replaced by an entirely empty line"""
    sizes = [2, 1, 0] + list(range(3, n_max + 1))  # (Hypothesis favours the first entry)
    n = sizes[draw(_ints(0, n_max))]
    lines = ['%s%d' % (MARKERS[draw(_ints(0, len(MARKERS) - 1))], i + 1) for i in range(n)]
    if n > 0 and draw(_ints(0, 1)) == 1 and draw(_ints(0, 1)) == 1:
        lines[draw(_ints(0, n - 1))] = ''
    # trailing blanks / tabs belong to the contents of a line (only the new-line does not); a line of blanks is not
    # empty
    if n > 0 and draw(_ints(0, 2)) == 0:
        for _ in range(draw(_ints(1, 3))):
            i = draw(_ints(0, n - 1))
            lines[i] = lines[i] + [' ', '\t', '  '][draw(_ints(0, 2))]
    return lines


def stages(n_max: int, lm_levels: int, im_levels: int):
    m = st.builds(lambda t: {'m': t}, any_depth_lm(lm_levels, im_levels, -2, n_max + 3))
    r = st.builds(lambda rs: {'r': rs}, ranges(n_max))
    return m, r


def cli_cases(tier: str, what: str):
    n_max = 8 if tier == 'quick' else 12
    lm_levels, im_levels = (2, 2) if tier == 'quick' else (3, 3)
    m, r = stages(n_max, lm_levels, im_levels)
    first = m if what == 'matcher' else r
    other = st.one_of(m, r)
    stage_lists = st.one_of(first.map(lambda s: [s]), first.map(lambda s: [s]), first.map(lambda s: [s]),
                            st.tuples(first, other).map(list), st.tuples(other, first).map(list))
    return st.fixed_dictionaries({
        'stages': stage_lists,
        'lines': lines_strategy(n_max),
        'nl': st.booleans(),
        'buf': st.sampled_from([None, None, None, None, 1, 16]),
        'sym': st.sampled_from([False, False, False, True]),
        'mp': st.booleans(),
    })


def api_matcher_cases(tier: str):
    n_max = 8 if tier == 'quick' else 12
    lm_levels, im_levels = (2, 2) if tier == 'quick' else (3, 3)
    return st.fixed_dictionaries({
        'lm': any_depth_lm(lm_levels, im_levels, -2, n_max + 3),
        'lines': lines_strategy(n_max),
        'nl': st.booleans(),
        'mp': st.booleans(),
    })


def api_range_cases(tier: str):
    n_max = 8 if tier == 'quick' else 12
    return st.fixed_dictionaries({
        'r': ranges(n_max),
        'lines': lines_strategy(n_max),
        'nl': st.booleans(),
    })


# ---------------------------------------------------------------------------------------------
# exhaustive sub-spaces (API level)
EXH_CONSTANTS = (0, 1, 2, 3, 5, 9)


def _wrap(t, k: int):
    for _ in range(k):
        t = ['not', t]
    return t


def enum_interval_trees(tier: str):
    """all IM trees of depth <= 2 over {6 operators x EXH_CONSTANTS} + {constants}, under 0..2 IM-level and 0..2
    LM-level negations; plus all LM-level && / || of two `line-num LEAF` under 0..2 negations.
    Each is checked against all texts of 0..6 lines inside the check."""
    leaves = [['cmp', op, str(n)] for op in OPS for n in EXH_CONSTANTS] + [['const', True], ['const', False]]
    ims = list(leaves)
    for conn in ('and', 'or'):
        for a, b in itertools.product(leaves, leaves):
            ims.append([conn, [a, b]])
    for im in ims:
        for k_im in range(3):
            for k_lm in range(3):
                yield {'lm': _wrap(['ln', _wrap(im, k_im)], k_lm), 'maxn': 6}
    for conn in ('and', 'or'):
        for a, b in itertools.product(leaves, leaves):
            for k_lm in range(3):
                yield {'lm': _wrap([conn, [['ln', a], ['ln', b]]], k_lm), 'maxn': 6}


def enum_range_lists(tier: str):
    """all lists of one or two ranges of the four forms with bounds in [-B, B]; each checked against all texts
    of 0..B+1 lines (with and without final newline) inside the check"""
    b = 3 if tier == 'quick' else 4
    vals = [str(v) for v in range(-b, b + 1)]
    singles = ([{'f': 's', 'a': a} for a in vals] + [{'f': 'u', 'a': a} for a in vals]
               + [{'f': 'l', 'a': a} for a in vals] + [{'f': 'b', 'a': a, 'b': c} for a in vals for c in vals])
    for r in singles:
        yield {'r': [r], 'maxn': b + 1}
    for r1, r2 in itertools.product(singles, singles):
        yield {'r': [r1, r2], 'maxn': b + 1}
