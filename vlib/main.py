import argparse
import importlib
import os
import sys
import traceback

MODULES = {
    'C01': 'props.c01_protocol', 'C02': 'props.c02_outcome', 'C03': 'props.c03_validation',
    'C04': 'props.c04_sandbox', 'C05': 'props.c05_text', 'C06': 'props.c06_grammar',
    'C07': 'props.c07_document', 'C08': 'props.c08_symbols', 'C09': 'props.c09_strings',
    'C10': 'props.c10_programs', 'C11': 'props.c11_settings', 'C12': 'props.c12_paths',
    'C13': 'props.c13_filter', 'C14': 'props.c14_onevalue', 'C15': 'props.c15_trees',
    'C16': 'props.c16_suite', 'C17': 'props.c17_independence', 'C18': 'props.c18_mistakes',
    'C19': 'props.c19_timeouts', 'C20': 'props.c20_help',
}


def _scrub_environment():
    """A run is a function of the code under test and VERIF_SEED: variables that look like credentials are removed
    from the environment of the check (observers print the environment; violation details are written to replay
    files)"""
    import re
    for name in list(os.environ):
        if re.search(r'KEY|TOKEN|SECRET|PASSWORD|CREDENTIAL', name, re.I) and not name.startswith('VERIF_'):
            del os.environ[name]


def main() -> int:
    _scrub_environment()
    ap = argparse.ArgumentParser()
    ap.add_argument('property')
    ap.add_argument('--tier', default=os.environ.get('VERIF_TIER', 'quick'), choices=['quick', 'thorough'])
    ap.add_argument('--replay')
    ap.add_argument('--sub', action='append')
    args = ap.parse_args()
    try:
        seed = int(os.environ.get('VERIF_SEED', '1') or '1')
    except ValueError:
        seed = 1
    pid = args.property.upper()
    if pid not in MODULES:
        print('unknown property ' + pid, file=sys.stderr)
        return 2
    try:
        mod = importlib.import_module(MODULES[pid])
        from vlib import runner
        if args.replay:
            return runner.replay(mod, args.replay)
        return runner.run_property(mod, args.tier, seed, args.sub)
    except SystemExit:
        raise
    except BaseException:
        traceback.print_exc()
        print('HARNESS-ERROR: check crashed', file=sys.stderr)
        return 2


if __name__ == '__main__':
    sys.exit(main())
