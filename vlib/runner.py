"""Sharded execution of property sub-checks, failure collection, replay and evidence.

A *case* is a JSON-serialisable value.  A sub-check's ``check(case)`` is a pure
function of the case and of the code under /repo and returns a ``Verdict``.
Cases come from a Hypothesis strategy (random search, shrinking) or from an
enumerator (exhaustive sub-spaces).  Replay bypasses Hypothesis entirely.
"""
import hashlib
import json
import multiprocessing
import os
import shutil
import sys
import time
import traceback
from collections import Counter
from typing import Any, Callable, Dict, Iterable, List, Optional, Sequence

VERIF_DIR = os.path.dirname(os.path.dirname(os.path.abspath(__file__)))

N_WORKERS = int(os.environ.get('VERIF_WORKERS', str(min(16, os.cpu_count() or 1))))


class Verdict:
    __slots__ = ('ok', 'nontrivial', 'key', 'labels', 'bucket', 'detail', 'known', 'inconclusive', 'sample',
                 'extra')

    def __init__(self, ok: bool = True, nontrivial: bool = False, key: Optional[str] = None,
                 labels: Sequence[str] = (), bucket: str = '', detail: Any = None,
                 known: Optional[str] = None, inconclusive: bool = False, sample: Any = None):
        self.ok = ok
        self.nontrivial = nontrivial
        self.key = key
        self.labels = labels
        self.bucket = bucket
        self.detail = detail
        self.known = known
        self.inconclusive = inconclusive
        self.sample = sample
        # a verdict that stands for a whole campaign of evaluations (vlib/fuzz.py): dict with 'evaluations',
        # 'labels' {label: count}, 'nontrivial_keys', 'samples', 'inconclusive', 'failures' [{bucket, case, detail,
        # known, sub}]
        self.extra = None


def fail(bucket: str, detail: Any = None, **kw) -> Verdict:
    return Verdict(ok=False, bucket=bucket, detail=detail, **kw)


class Sub:
    """One sub-check of a property."""

    def __init__(self, name: str, check: Callable[[Any], Verdict],
                 strategy: Optional[Callable[[str], Any]] = None,
                 enumerate: Optional[Callable[[str], Iterable[Any]]] = None,
                 budget: Optional[Dict[str, int]] = None,
                 exhaustive: bool = False,
                 shards: Optional[Dict[str, int]] = None,
                 setup: Optional[Callable[[], None]] = None,
                 shrink_s: Optional[Dict[str, float]] = None,
                 render: Optional[Callable[[Any], Any]] = None):
        self.name = name
        self.check = check
        self.strategy = strategy
        self.enumerate = enumerate
        self.budget = budget or {'quick': 1000, 'thorough': 20000}
        self.exhaustive = exhaustive
        self.shards = shards
        self.setup = setup
        self.shrink_s = shrink_s or {'quick': 25.0, 'thorough': 120.0}
        self.render = render


def case_hash(case: Any) -> str:
    return hashlib.sha1(json.dumps(case, sort_keys=True, default=str).encode('utf-8')).hexdigest()[:16]


class _Failure(Exception):
    pass


class _ShardState:
    def __init__(self, sub: Sub):
        self.sub = sub
        self.evaluations = 0
        self.labels = Counter()
        self.nontrivial_keys = set()
        self.samples = []
        self.known = Counter()
        self.known_examples = {}
        self.inconclusive = 0
        self.failures = {}  # bucket -> dict(case, detail, size)
        self.errors = []
        self.muted = set()
        self.first_failure_at = None
        self.shrink_deadline = None

    def record(self, case, v: Verdict):
        self.evaluations += 1
        for l in v.labels:
            self.labels[l] += 1
        if v.inconclusive:
            self.inconclusive += 1
        if v.nontrivial:
            self.nontrivial_keys.add(v.key if v.key is not None else case_hash(case))
            if len(self.samples) < 3 or (self.evaluations % 97 == 0 and len(self.samples) < 6):
                self.samples.append(v.sample if v.sample is not None
                                    else (self.sub.render(case) if self.sub.render else case))
        if v.known:
            self.known[v.known] += 1
            if v.known not in self.known_examples:
                self.known_examples[v.known] = {'case': case, 'detail': v.detail}
        x = v.extra
        if x:
            self.evaluations += int(x.get('evaluations', 0))
            for l, n in (x.get('labels') or {}).items():
                self.labels[l] += n
            self.nontrivial_keys.update(x.get('nontrivial_keys') or [])
            self.inconclusive += int(x.get('inconclusive', 0))
            for smp in (x.get('samples') or []):
                if len(self.samples) < 6:
                    self.samples.append(smp)
            for f in (x.get('failures') or []):
                if f.get('known'):
                    self.known[f['known']] += 1
                    self.known_examples.setdefault(f['known'], {'case': f['case'], 'detail': f.get('detail'),
                                                                'sub': f.get('sub')})
                else:
                    size = len(json.dumps(f['case'], default=str))
                    cur = self.failures.get(f['bucket'])
                    if cur is None or size < cur['size']:
                        self.failures[f['bucket']] = {'case': f['case'], 'detail': f.get('detail'), 'size': size,
                                                      'sub': f.get('sub')}

    def result(self) -> dict:
        return {
            'sub': self.sub.name,
            'evaluations': self.evaluations,
            'labels': dict(self.labels),
            'nontrivial_keys': list(self.nontrivial_keys),
            'samples': self.samples,
            'known': dict(self.known),
            'known_examples': self.known_examples,
            'inconclusive': self.inconclusive,
            'failures': self.failures,
            'errors': self.errors,
        }


def _note_failure(st: _ShardState, case, v: Verdict):
    size = len(json.dumps(case, default=str))
    cur = st.failures.get(v.bucket)
    if cur is None or size < cur['size']:
        st.failures[v.bucket] = {'case': case, 'detail': v.detail, 'size': size}


def _run_enum_shard(sub: Sub, tier: str, k: int, n: int) -> dict:
    st = _ShardState(sub)
    if sub.setup:
        sub.setup()
    for i, case in enumerate(sub.enumerate(tier)):
        if i % n != k:
            continue
        v = _safe_check(sub, case)
        st.record(case, v)
        if not v.ok and not v.known and not v.inconclusive:
            _note_failure(st, case, v)
    return st.result()


def _safe_check(sub: Sub, case) -> Verdict:
    return sub.check(case)


def _run_hyp_shard(sub: Sub, tier: str, k: int, n_examples: int, seed: int) -> dict:
    import hypothesis
    from hypothesis import given, settings, HealthCheck, Phase

    st = _ShardState(sub)
    if sub.setup:
        sub.setup()
    strategy = sub.strategy(tier)
    shrink_budget = sub.shrink_s.get(tier, 30.0)

    remaining = n_examples
    rounds = 0
    while remaining > 0 and rounds < 4:
        rounds += 1
        st.first_failure_at = None
        start_evals = st.evaluations

        def body(case):
            if st.first_failure_at is not None and time.time() - st.first_failure_at > shrink_budget:
                return  # shrink budget used up: let the shrinker finish quickly
            v = _safe_check(sub, case)
            st.record(case, v)
            if not v.ok and not v.known and not v.inconclusive and v.bucket not in st.muted:
                _note_failure(st, case, v)
                if st.first_failure_at is None:
                    st.first_failure_at = time.time()
                    st.current_bucket = v.bucket
                raise _Failure(v.bucket)

        test = given(strategy)(body)
        test = hypothesis.seed(seed * 7919 + rounds)(test)
        test = settings(max_examples=remaining, database=None, deadline=None, derandomize=False,
                        report_multiple_bugs=False,
                        suppress_health_check=[HealthCheck.too_slow, HealthCheck.data_too_large,
                                               HealthCheck.large_base_example],
                        phases=[Phase.generate, Phase.shrink])(test)
        try:
            test()
            break
        except _Failure:
            pass
        except BaseException as ex:
            if st.first_failure_at is not None:
                # Flaky / shrink-budget artefacts after a recorded failure
                pass
            else:
                name = type(ex).__name__
                st.errors.append('%s: %s\n%s' % (name, ex, traceback.format_exc(limit=8)))
                break
        if st.first_failure_at is None:
            break
        st.muted.update(st.failures.keys())
        remaining -= (st.evaluations - start_evals)
    return st.result()


def _worker_task(args):
    mod_name, sub_name, tier, kind, k, n, seed = args
    import importlib
    try:  # a runaway case (e.g. an infinite walk under a mutant) must not take the machine down
        import resource
        lim = int(os.environ.get('VERIF_WORKER_MEM_GB', '6')) << 30
        resource.setrlimit(resource.RLIMIT_AS, (lim, lim))
    except Exception:
        pass
    mod = importlib.import_module(mod_name)
    sub = [s for s in mod.SUBS if s.name == sub_name][0]
    try:
        if kind == 'enum':
            return _run_enum_shard(sub, tier, k, n)
        else:
            return _run_hyp_shard(sub, tier, k, n, seed)
    except BaseException as ex:
        return {'sub': sub_name, 'evaluations': 0, 'labels': {}, 'nontrivial_keys': [], 'samples': [],
                'known': {}, 'known_examples': {}, 'inconclusive': 0, 'failures': {},
                'errors': ['worker crashed: %s: %s\n%s' % (type(ex).__name__, ex, traceback.format_exc(limit=12))]}


def load_known_findings(prop_id: str) -> List[dict]:
    path = os.path.join(VERIF_DIR, 'known_findings.json')
    if not os.path.exists(path):
        return []
    with open(path) as f:
        data = json.load(f)
    return [e for e in data.get('findings', []) if e.get('property') == prop_id]


def _write_replay(prop_id: str, sub: str, bucket: str, rec: dict, tier: str, seed: int) -> str:
    d = os.path.join(os.environ.get('VERIF_REPLAY_DIR') or os.path.join(VERIF_DIR, 'replays'), prop_id)
    os.makedirs(d, exist_ok=True)
    h = case_hash([sub, bucket, rec['case']])[:10]
    path = os.path.join(d, 'fail-%s-%s.json' % (sub, h))
    with open(path, 'w') as f:
        json.dump({'property': prop_id, 'sub': sub, 'bucket': bucket, 'case': rec['case'],
                   'detail': rec.get('detail'), 'tier': tier, 'seed': seed}, f, indent=1, default=str)
    return path


def replay(mod, path: str) -> int:
    with open(path) as f:
        data = json.load(f)
    sub = [s for s in mod.SUBS if s.name == data['sub']][0]
    if sub.setup:
        sub.setup()
    v = sub.check(data['case'])
    if v.ok or v.inconclusive:
        print('replay: property %s held on %s' % (mod.PROPERTY_ID, path))
        return 0
    if v.known:
        print('KNOWN-FINDING: property=%s %s' % (mod.PROPERTY_ID, v.known))
        return 0
    print('replay detail: %s' % json.dumps(v.detail, default=str)[:4000])
    print('VIOLATION property=%s replay=%s' % (mod.PROPERTY_ID, path))
    return 1


def _work_parent() -> str:
    """Scratch location: tmpfs when available (per-case file operations are ~40x cheaper there)."""
    p = os.environ.get('VERIF_WORK_PARENT')
    if p:
        return p
    if os.path.isdir('/dev/shm') and os.access('/dev/shm', os.W_OK | os.X_OK):
        return '/dev/shm'
    return '/tmp'


def run_property(mod, tier: str, seed: int, only_subs: Optional[List[str]] = None) -> int:
    """Run all sub-checks of a property module; write evidence; return exit code."""
    prop_id = mod.PROPERTY_ID
    t0 = time.time()
    work_root = os.path.join(_work_parent(), 'vx-%s-%d' % (prop_id, os.getpid()))
    os.makedirs(work_root, exist_ok=True)
    os.environ['VERIF_WORK'] = work_root

    subs = [s for s in mod.SUBS if not only_subs or s.name in only_subs]
    scale = float(os.environ.get('VERIF_SCALE', '1'))
    tasks = []
    for sub in subs:
        if sub.enumerate is not None:
            n = (sub.shards or {}).get(tier, N_WORKERS)
            for k in range(n):
                tasks.append((mod.__name__, sub.name, tier, 'enum', k, n, seed))
        else:
            total = max(1, int(sub.budget.get(tier, 1000) * scale))
            n = (sub.shards or {}).get(tier, N_WORKERS)
            n = max(1, min(n, total))
            per = (total + n - 1) // n
            for k in range(n):
                tasks.append((mod.__name__, sub.name, tier, 'hyp', k, per, seed * 1000 + k))

    agg = {s.name: {'evaluations': 0, 'labels': Counter(), 'keys': set(), 'samples': [], 'known': Counter(),
                    'known_examples': {}, 'inconclusive': 0, 'failures': {}, 'errors': []} for s in subs}

    # regression replays first (plain code path, no Hypothesis)
    violations = []
    reg_dir = os.path.join(VERIF_DIR, 'replays', prop_id)
    n_regress = 0
    if os.path.isdir(reg_dir):
        for fn in sorted(os.listdir(reg_dir)):
            if fn.startswith('regress-') and fn.endswith('.json'):
                with open(os.path.join(reg_dir, fn)) as f:
                    data = json.load(f)
                cands = [s for s in subs if s.name == data['sub']]
                if not cands:
                    continue
                sub = cands[0]
                if sub.setup:
                    sub.setup()
                n_regress += 1
                try:
                    v = sub.check(data['case'])
                except BaseException as ex:
                    agg[sub.name]['errors'].append('regression %s crashed: %r\n%s'
                                                   % (fn, ex, traceback.format_exc(limit=8)))
                    continue
                a = agg[sub.name]
                a['evaluations'] += 1
                if v.known:
                    a['known'][v.known] += 1
                    a['known_examples'].setdefault(v.known, {'case': data['case'], 'detail': v.detail,
                                                             'replay': os.path.join(reg_dir, fn)})
                elif not v.ok and not v.inconclusive:
                    violations.append((os.path.join(reg_dir, fn), sub.name, 'regression:' + v.bucket, v.detail))

    ctx = multiprocessing.get_context('fork')
    if tasks:
        with ctx.Pool(min(N_WORKERS, len(tasks)), maxtasksperchild=None) as pool:
            for r in pool.imap_unordered(_worker_task, tasks, chunksize=1):
                a = agg[r['sub']]
                a['evaluations'] += r['evaluations']
                a['labels'].update(r['labels'])
                a['keys'].update(r['nontrivial_keys'])
                if len(a['samples']) < 8:
                    a['samples'].extend(r['samples'][:2])
                a['known'].update(r['known'])
                for kf, ex in r['known_examples'].items():
                    a['known_examples'].setdefault(kf, ex)
                a['inconclusive'] += r['inconclusive']
                for b, rec in r['failures'].items():
                    cur = a['failures'].get(b)
                    if cur is None or rec['size'] < cur['size']:
                        a['failures'][b] = rec
                a['errors'].extend(r['errors'])

    shutil.rmtree(work_root, ignore_errors=True)
    if os.path.exists(work_root):
        from vlib.driver import _force_rmtree
        _force_rmtree(work_root)

    # ---- report --------------------------------------------------------
    errors = []
    total_eval = 0
    total_keys = 0
    known_total = Counter()
    sub_cov = {}
    samples = []
    for s in subs:
        a = agg[s.name]
        total_eval += a['evaluations']
        total_keys += len(a['keys'])
        known_total.update(a['known'])
        errors.extend('[%s] %s' % (s.name, e) for e in a['errors'])
        for b, rec in sorted(a['failures'].items()):
            path = _write_replay(prop_id, rec.get('sub') or s.name, b, rec, tier, seed)
            violations.append((path, s.name, b, rec.get('detail')))
        sub_cov[s.name] = {
            'evaluations': a['evaluations'],
            'distinct_nontrivial': len(a['keys']),
            'exhaustive': bool(s.exhaustive),
            'kind': 'enumerated' if s.enumerate is not None else 'hypothesis',
            'inconclusive': a['inconclusive'],
            'classes': dict(sorted(a['labels'].items(), key=lambda kv: (-kv[1], kv[0]))[:150]),
            'known_findings_observed': dict(a['known']),
        }
        for smp in a['samples'][:3]:
            samples.append({'sub': s.name, 'case': smp})

    listed = load_known_findings(prop_id)
    listed_known_ids = {e['id'] for e in listed if e.get('status') == 'known'}
    # a defect-model match for a finding that is not listed as "known" is a violation
    for s in subs:
        a = agg[s.name]
        for kf, cnt in a['known'].items():
            if kf not in listed_known_ids:
                ex = a['known_examples'].get(kf, {'case': None, 'detail': None})
                ex = dict(ex)
                ex.setdefault('size', 0)
                path = _write_replay(prop_id, ex.get('sub') or s.name, 'unlisted-finding:' + kf, ex, tier, seed)
                violations.append((path, s.name, 'unlisted-finding:' + kf, ex.get('detail')))

    wall = time.time() - t0
    evidence = {
        'property_id': prop_id,
        'tier': tier,
        'seed': seed,
        'level': getattr(mod, 'LEVEL', 'exploration'),
        'coverage': {
            'evaluations': total_eval,
            'distinct_nontrivial': total_keys,
            'rule': mod.RULE,
            'samples': samples[:12] if samples else [],
            'exhaustive': all(s.exhaustive for s in subs) if subs else False,
            'sub_checks': sub_cov,
            'regression_replays_run': n_regress,
            'known_findings_observed': dict(known_total),
            'workers': N_WORKERS,
        },
        'assumptions': list(getattr(mod, 'ASSUMPTIONS', [])),
        'wall_s': round(wall, 2),
        'violations': len(violations),
    }
    ev_dir = os.environ.get('VERIF_EVIDENCE_DIR') or os.path.join(VERIF_DIR, 'evidence')
    os.makedirs(ev_dir, exist_ok=True)
    ev_path = os.path.join(ev_dir, '%s.json' % prop_id)
    with open(ev_path, 'w') as f:
        json.dump(evidence, f, indent=1, default=str, sort_keys=False)
        f.write('\n')

    for e in listed:
        if e.get('status') == 'known':
            print('KNOWN-FINDING: property=%s %s [%s; matched %d generated cases in this run]'
                  % (prop_id, e['what'], e['id'], known_total.get(e['id'], 0)))
    print('%s tier=%s seed=%d evaluations=%d distinct_nontrivial=%d wall=%.1fs'
          % (prop_id, tier, seed, total_eval, total_keys, wall))
    for s in subs:
        c = sub_cov[s.name]
        print('  sub %-28s eval=%-8d nontrivial=%-8d inconclusive=%d' % (s.name, c['evaluations'],
                                                                     c['distinct_nontrivial'],
                                                                     c['inconclusive']))
    if errors:
        for e in errors[:10]:
            print('HARNESS-ERROR: ' + e, file=sys.stderr)
        if not violations:
            return 2
    if violations:
        for path, subn, b, detail in violations:
            print('  violation sub=%s bucket=%s detail=%s' % (subn, b, json.dumps(detail, default=str)[:1500]))
            print('VIOLATION property=%s replay=%s' % (prop_id, path))
        return 1
    if total_eval == 0:
        print('HARNESS-ERROR: nothing was evaluated', file=sys.stderr)
        return 2
    return 0
