"""Fault-plan harness for the executor protocol (C01 layer A, C04 fault part).

A *plan* (JSON) says how many stub instructions each phase has, the test-case status, act-only mode,
keep-sandbox, and a list of faults (phase, step, index, kind).  The plan is turned into a hand-built
``test_case_doc.TestCase`` of stub instructions (subclasses of the public instruction base classes) and a stub
``Actor``/``ActionToCheck``; it is executed by ``full_execution.execution.execute`` (the function the production
``_Executor`` calls).  Every stub method appends a record to a trace and then succeeds or fails as planned.

This module imports exactly_lib (it drives the code under test); the invariants that decide are in
``vlib/ref/protocol.py`` and do not.
"""
import os
import pathlib
import tempfile

PHASES_I = ['setup', 'before-assert', 'assert', 'cleanup']

# line numbers given to the stub instructions: phase base + index
LINE_BASE = {'conf': 100, 'setup': 200, 'act': 300, 'before-assert': 400, 'assert': 500, 'cleanup': 600}


class _Boom(Exception):
    pass


def _fail_svh(kind, what):
    from exactly_lib.test_case.result import svh
    from exactly_lib.test_case.hard_error import HardErrorException
    from exactly_lib.common.report_rendering import text_docs
    if kind == 'VE':
        return svh.new_svh_validation_error__str('planned validation error in ' + what)
    if kind == 'HE':
        return svh.new_svh_hard_error__str('planned hard error in ' + what)
    if kind == 'HEX':
        raise HardErrorException(text_docs.single_pre_formatted_line_object('planned hard error exception in ' + what))
    if kind == 'EXC':
        raise _Boom('planned exception in ' + what)
    if kind == 'KEYERR':
        raise KeyError('planned KeyError in ' + what)
    raise ValueError('kind %s not applicable to svh step %s' % (kind, what))


def _fail_sh(kind, what):
    from exactly_lib.test_case.result import sh
    from exactly_lib.test_case.hard_error import HardErrorException
    from exactly_lib.common.report_rendering import text_docs
    if kind == 'HE':
        return sh.new_sh_hard_error__str('planned hard error in ' + what)
    if kind == 'HEX':
        raise HardErrorException(text_docs.single_pre_formatted_line_object('planned hard error exception in ' + what))
    if kind == 'EXC':
        raise _Boom('planned exception in ' + what)
    if kind == 'KEYERR':
        raise KeyError('planned KeyError in ' + what)
    raise ValueError('kind %s not applicable to sh step %s' % (kind, what))


def _fail_pfh(kind, what):
    from exactly_lib.test_case.result import pfh
    from exactly_lib.test_case.hard_error import HardErrorException
    from exactly_lib.common.report_rendering import text_docs
    if kind == 'FAIL':
        return pfh.new_pfh_fail__str('planned assertion failure in ' + what)
    if kind == 'HE':
        return pfh.new_pfh_hard_error__str('planned hard error in ' + what)
    if kind == 'HEX':
        raise HardErrorException(text_docs.single_pre_formatted_line_object('planned hard error exception in ' + what))
    if kind == 'EXC':
        raise _Boom('planned exception in ' + what)
    if kind == 'KEYERR':
        raise KeyError('planned KeyError in ' + what)
    raise ValueError('kind %s not applicable to pfh step %s' % (kind, what))


def _symbol_usages(kind, what):
    from exactly_lib.symbol.sdv_structure import SymbolReference
    from exactly_lib.test_case.hard_error import HardErrorException
    from exactly_lib.common.report_rendering import text_docs
    if kind == 'VE':
        return [SymbolReference('UNDEFINED_SYMBOL_OF_PLAN', None)]
    if kind == 'HEX':
        raise HardErrorException(text_docs.single_pre_formatted_line_object('planned hard error exception in ' + what))
    if kind == 'EXC':
        raise _Boom('planned exception in ' + what)
    if kind == 'KEYERR':
        raise KeyError('planned KeyError in ' + what)
    raise ValueError('kind %s not applicable to symbol step %s' % (kind, what))


class Run:
    """Executes one plan; afterwards .trace, .result fields are set."""

    def __init__(self, plan: dict, sandbox_root: str, hds_dir: str):
        self.plan = plan
        self.trace = []
        self.faults = {(f[0], f[1], f[2]): f[3] for f in plan['faults']}
        self.sandbox_root = sandbox_root
        self.hds_dir = hds_dir
        self.cwds = []

    # -- recording -----------------------------------------------------------
    def rec(self, phase, step, idx, extra=None):
        self.trace.append([phase, step, idx, extra])
        return self.faults.get((phase, step, idx))

    # -- test case -------------------------------------------------------------
    def _element(self, phase, idx, instruction):
        from exactly_lib.section_document import model
        from exactly_lib.section_document.source_location import SourceLocationInfo, SourceLocation, \
            source_location_path_without_inclusions
        from exactly_lib.util import line_source
        line = LINE_BASE[phase] + idx
        src = line_source.single_line_sequence(line, '%s-instruction-%d' % (phase, idx))
        sli = SourceLocationInfo(pathlib.Path(self.hds_dir),
                                 source_location_path_without_inclusions(
                                     SourceLocation(src, pathlib.Path('plan.case'))))
        return model.SectionContentElement(model.ElementType.INSTRUCTION,
                                           model.InstructionInfo(instruction, None),
                                           sli)

    def build_test_case(self):
        from exactly_lib.section_document.model import SectionContents
        from exactly_lib.test_case import test_case_doc
        n = self.plan['n']
        stubs = _stub_classes()
        conf = [self._element('conf', 0, stubs['status'](self))]
        conf += [self._element('conf', i + 1, stubs['conf'](self, i)) for i in range(n['conf'])]
        setup = [self._element('setup', i, stubs['setup'](self, i)) for i in range(n['setup'])]
        act = [self._element('act', 0, stubs['act_instruction']())]
        ba = [self._element('before-assert', i, stubs['before-assert'](self, i)) for i in range(n['before-assert'])]
        asrt = [self._element('assert', i, stubs['assert'](self, i)) for i in range(n['assert'])]
        cln = [self._element('cleanup', i, stubs['cleanup'](self, i)) for i in range(n['cleanup'])]
        return test_case_doc.TestCase(SectionContents(conf), SectionContents(setup), SectionContents(act),
                                      SectionContents(ba), SectionContents(asrt), SectionContents(cln))

    def execute(self):
        from exactly_lib.execution.configuration import ExecutionConfiguration
        from exactly_lib.execution.full_execution import execution
        from exactly_lib.execution.predefined_properties import os_environ_getter
        from exactly_lib.impls.os_services import os_services_access
        from exactly_lib.test_case.phases.configuration import ConfigurationBuilder
        from exactly_lib.util.name_and_value import NameAndValue
        from exactly_lib.util.file_utils.std import StdOutputFiles
        from exactly_lib.util.symbol_table import SymbolTable
        import subprocess

        def resolver():
            return tempfile.mkdtemp(prefix='exactly-plan-', dir=self.sandbox_root)

        act_only = None
        if self.plan.get('act_only'):
            act_only = StdOutputFiles(subprocess.DEVNULL, subprocess.DEVNULL)
        exe_conf = ExecutionConfiguration(os_environ_getter, None, None,
                                          os_services_access.new_for_current_os(),
                                          resolver, 1024, SymbolTable(), act_only)
        hds = pathlib.Path(self.hds_dir)
        stubs = _stub_classes()
        builder = ConfigurationBuilder(hds, hds, NameAndValue('stub actor', stubs['actor'](self)))
        test_case = self.build_test_case()
        return execution.execute(exe_conf, builder, bool(self.plan.get('keep')), test_case)


_STUBS = None


def _stub_classes():
    """Stub classes are created lazily so that importing this module does not import exactly_lib."""
    global _STUBS
    if _STUBS is not None:
        return _STUBS
    from exactly_lib.test_case.phases.configuration import ConfigurationPhaseInstruction
    from exactly_lib.test_case.phases.setup.instruction import SetupPhaseInstruction
    from exactly_lib.test_case.phases.before_assert import BeforeAssertPhaseInstruction
    from exactly_lib.test_case.phases.assert_ import AssertPhaseInstruction
    from exactly_lib.test_case.phases.cleanup import CleanupPhaseInstruction
    from exactly_lib.test_case.phases.act.actor import Actor, ActionToCheck, ParseException
    from exactly_lib.test_case.phases.act.instruction import ActPhaseInstruction
    from exactly_lib.test_case.phases.act.adv_w_validation import AdvWValidation
    from exactly_lib.test_case.result import svh, sh, pfh, eh
    from exactly_lib.test_case.result.failure_details import FailureDetails
    from exactly_lib.test_case.test_case_status import TestCaseStatus
    from exactly_lib.test_case.hard_error import HardErrorException
    from exactly_lib.common.report_rendering import text_docs
    from exactly_lib.util import line_source

    class StatusInstr(ConfigurationPhaseInstruction):
        def __init__(self, run):
            self.run = run

        def main(self, configuration_builder):
            configuration_builder.set_test_case_status(TestCaseStatus[self.run.plan['status']])
            return svh.new_svh_success()

    class ConfInstr(ConfigurationPhaseInstruction):
        def __init__(self, run, idx):
            self.run, self.idx = run, idx

        def main(self, configuration_builder):
            k = self.run.rec('conf', 'main', self.idx)
            return _fail_svh(k, 'conf main') if k else svh.new_svh_success()

    class _Common:
        phase = None

        def __init__(self, run, idx):
            self.run, self.idx = run, idx

        def symbol_usages(self):
            k = self.run.rec(self.phase, 'sym', self.idx)
            return _symbol_usages(k, self.phase + ' symbols') if k else []

        def validate_pre_sds(self, environment):
            k = self.run.rec(self.phase, 'pre', self.idx)
            return _fail_svh(k, self.phase + ' pre-sds') if k else svh.new_svh_success()

        def validate_post_setup(self, environment):
            k = self.run.rec(self.phase, 'post', self.idx, {'cwd': os.getcwd()})
            return _fail_svh(k, self.phase + ' post-setup') if k else svh.new_svh_success()

    class SetupInstr(_Common, SetupPhaseInstruction):
        phase = 'setup'

        def main(self, environment, settings, os_services, settings_builder):
            k = self.run.rec('setup', 'main', self.idx, {'cwd': os.getcwd(),
                                                         'sds': str(environment.sds.root_dir)})
            fk = self.run.faults.get(('act', 'exe-input', 0))
            if fk and self.idx == 0:
                settings_builder.stdin = StdinAdv(self.run, fk)
            return _fail_sh(k, 'setup main') if k else sh.new_sh_success()

    class BeforeAssertInstr(_Common, BeforeAssertPhaseInstruction):
        phase = 'before-assert'

        def main(self, environment, settings, os_services):
            k = self.run.rec('before-assert', 'main', self.idx, {'cwd': os.getcwd()})
            return _fail_sh(k, 'before-assert main') if k else sh.new_sh_success()

    class AssertInstr(_Common, AssertPhaseInstruction):
        phase = 'assert'

        def main(self, environment, settings, os_services):
            k = self.run.rec('assert', 'main', self.idx, {'cwd': os.getcwd()})
            return _fail_pfh(k, 'assert main') if k else pfh.new_pfh_pass()

    class CleanupInstr(_Common, CleanupPhaseInstruction):
        phase = 'cleanup'

        def validate_post_setup(self, environment):  # not part of the cleanup protocol
            self.run.rec('cleanup', 'post', self.idx)
            return svh.new_svh_success()

        def main(self, environment, settings, os_services, previous_phase):
            k = self.run.rec('cleanup', 'main', self.idx, {'prev': previous_phase.name, 'cwd': os.getcwd(),
                                                           'sds_exists': environment.sds.root_dir.is_dir()})
            return _fail_sh(k, 'cleanup main') if k else sh.new_sh_success()

    class StdinAdv(AdvWValidation):
        def __init__(self, run, kind):
            self.run, self.kind = run, kind

        def validate(self):
            self.run.rec('act', 'exe-input', 0)
            k = self.kind
            if k == 'HE':
                return text_docs.single_pre_formatted_line_object('planned invalid stdin')
            if k == 'HEX':
                raise HardErrorException(text_docs.single_pre_formatted_line_object('planned hard error exception'))
            if k == 'KEYERR':
                raise KeyError('planned KeyError in exe-input')
            raise _Boom('planned exception in exe-input validation')

        def resolve(self, environment):
            raise _Boom('stdin must not be resolved when its validation failed')

    class ActInstr(ActPhaseInstruction):
        def source_code(self):
            return line_source.LineSequence(LINE_BASE['act'], ('act-source',))

    class TheAtc(ActionToCheck):
        def __init__(self, run):
            self.run = run

        def symbol_usages(self):
            k = self.run.rec('act', 'sym', 0)
            return _symbol_usages(k, 'act symbols') if k else []

        def validate_pre_sds(self, environment):
            k = self.run.rec('act', 'pre', 0)
            return _fail_svh(k, 'act pre-sds') if k else svh.new_svh_success()

        def validate_post_setup(self, environment):
            k = self.run.rec('act', 'post', 0)
            return _fail_svh(k, 'act post-setup') if k else svh.new_svh_success()

        def prepare(self, environment, os_services):
            k = self.run.rec('act', 'prepare', 0)
            return _fail_sh(k, 'act prepare') if k else sh.new_sh_success()

        def execute(self, environment, os_services, atc_input, output_files):
            k = self.run.rec('act', 'execute', 0, {'cwd': os.getcwd()})
            if k == 'HE':
                return eh.new_eh_hard_error(FailureDetails.new_constant_message('planned hard error in act execute'))
            if k == 'HEX':
                raise HardErrorException(text_docs.single_pre_formatted_line_object('planned HEX in act execute'))
            if k == 'EXC':
                raise _Boom('planned exception in act execute')
            if k == 'KEYERR':
                raise KeyError('planned KeyError in act execute')
            return eh.new_eh_exit_code(self.run.plan.get('exit_code', 0))

    class TheActor(Actor):
        def __init__(self, run):
            self.run = run

        def parse(self, instructions):
            k = self.run.rec('act', 'parse', 0)
            if k == 'SYNTAX':
                raise ParseException.of_str('planned act syntax error')
            if k == 'HEX':
                raise HardErrorException(text_docs.single_pre_formatted_line_object('planned HEX in act parse'))
            if k == 'EXC':
                raise _Boom('planned exception in act parse')
            if k == 'KEYERR':
                raise KeyError('planned KeyError in act parse')
            return TheAtc(self.run)

    _STUBS = {'status': StatusInstr, 'conf': ConfInstr, 'setup': SetupInstr, 'before-assert': BeforeAssertInstr,
              'assert': AssertInstr, 'cleanup': CleanupInstr, 'actor': TheActor, 'act_instruction': ActInstr}
    return _STUBS


def run_plan(plan: dict, work_dir: str) -> dict:
    """Execute the plan; returns the observation as plain data."""
    sandbox_root = os.path.join(work_dir, 'tmproot')
    hds = os.path.join(work_dir, 'home')
    os.makedirs(sandbox_root, exist_ok=True)
    os.makedirs(hds, exist_ok=True)
    run = Run(plan, sandbox_root, hds)
    cwd_before = os.getcwd()
    env_before = dict(os.environ)
    exc = None
    result = None
    try:
        result = run.execute()
    except BaseException as ex:  # nothing may escape the executor
        import traceback
        exc = '%s: %s\n%s' % (type(ex).__name__, ex, traceback.format_exc(limit=10))
    try:
        cwd_after = os.getcwd()
    except OSError:
        cwd_after = '<deleted>'
    env_after = dict(os.environ)
    os.chdir(cwd_before)
    os.environ.clear()
    os.environ.update(env_before)
    obs = {'trace': run.trace, 'exception': exc,
           'cwd_restored': cwd_after == cwd_before, 'env_restored': env_after == env_before,
           'sandboxes_after': sorted(os.listdir(sandbox_root))}
    if result is not None:
        obs['status'] = result.status.name
        obs['has_sds'] = result.has_sds
        obs['sds_root'] = str(result.sds.root_dir) if result.has_sds else None
        obs['sds_exists_after'] = result.sds.root_dir.is_dir() if result.has_sds else None
        obs['has_atc_outcome'] = result.has_action_to_check_outcome
        fi = result.failure_info
        if fi is None:
            obs['failure'] = None
        else:
            loc = fi.source_location
            line = None
            if loc is not None and loc.location is not None and loc.location.source is not None:
                line = loc.location.source.first_line.line_number
            obs['failure'] = {'phase': fi.phase_step.phase.identifier, 'step': fi.phase_step.step, 'line': line}
    return obs
