#!/bin/bash
# Offline setup: make sure hypothesis is importable by /venv/bin/python (wheelhouse only), nothing else is needed.
set -e
cd "$(dirname "${BASH_SOURCE[0]}")"
if ! /venv/bin/python -c "import hypothesis" 2>/dev/null; then
  PIP_NO_INDEX=1 /venv/bin/pip install --no-index --find-links /opt/veriftools/wheels hypothesis
fi
mkdir -p .deps
if ! PYTHONPATH=.deps /venv/bin/python -c "import jsonschema" 2>/dev/null; then
  PIP_NO_INDEX=1 /venv/bin/pip install -q --no-index --find-links /opt/veriftools/wheels --target .deps jsonschema >/dev/null 2>&1 || true
fi
if ! PYTHONPATH=.deps /venv/bin/python -c "import atheris" 2>/dev/null; then
  PIP_NO_INDEX=1 /venv/bin/pip install -q --no-index --find-links /opt/veriftools/wheels --target .deps atheris >/dev/null 2>&1 || true
fi
/venv/bin/python -c "import hypothesis; print('hypothesis', hypothesis.__version__)"
