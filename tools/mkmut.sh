#!/bin/bash
# tools/mkmut.sh <ID> <name> <file-rel-to-repo> <old> <new> [<old2> <new2> ...]
# Makes mutants/<ID>/<name>.patch from /repo/<file> by replacing each <old> (must occur exactly once) by <new>.
id=$1; name=$2; file=$3; shift 3
tmp=$(mktemp -d /tmp/vx-mk-XXXXXX)
mkdir -p "$tmp/a/$(dirname $file)" "$tmp/b/$(dirname $file)"
cp "/repo/$file" "$tmp/a/$file"
python3 - "$tmp/a/$file" "$tmp/b/$file" "$@" <<'PY'
import sys
s = open(sys.argv[1]).read()
args = sys.argv[3:]
if len(args) % 2 or not args:
    sys.stderr.write('need old/new pairs\n'); sys.exit(1)
for i in range(0, len(args), 2):
    old, new = args[i], args[i + 1]
    n = s.count(old)
    if n != 1:
        sys.stderr.write('expected exactly one occurrence of %r, found %d\n' % (old[:60], n)); sys.exit(1)
    s = s.replace(old, new)
open(sys.argv[2], 'w').write(s)
PY
[ $? -eq 0 ] || { rm -rf "$tmp"; exit 1; }
mkdir -p "mutants/$id"
(cd "$tmp" && diff -u "a/$file" "b/$file") > "mutants/$id/$name.patch"
rm -rf "$tmp"
echo "mutants/$id/$name.patch: $(grep -c '^[-+][^-+]' mutants/$id/$name.patch) changed lines"
