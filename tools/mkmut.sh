#!/bin/bash
# tools/mkmut.sh <ID> <name> <file-rel-to-repo> <python-expr-old> <new>   : make a one-replacement mutant patch
# usage: tools/mkmut.sh C02 swap_xfail src/exactly_lib/x.py 'old text' 'new text'
id=$1; name=$2; file=$3; old=$4; new=$5
tmp=$(mktemp -d /tmp/vx-mk-XXXXXX)
mkdir -p "$tmp/a/$(dirname $file)" "$tmp/b/$(dirname $file)"
cp "/repo/$file" "$tmp/a/$file"
OLD="$old" NEW="$new" python3 - "$tmp/a/$file" "$tmp/b/$file" <<'PY'
import os, sys
s = open(sys.argv[1]).read()
old, new = os.environ['OLD'], os.environ['NEW']
n = s.count(old)
if n != 1:
    sys.stderr.write('expected exactly one occurrence, found %d\n' % n); sys.exit(1)
open(sys.argv[2], 'w').write(s.replace(old, new))
PY
[ $? -eq 0 ] || { rm -rf "$tmp"; exit 1; }
mkdir -p "mutants/$id"
(cd "$tmp" && diff -u "a/$file" "b/$file") > "mutants/$id/$name.patch"
rm -rf "$tmp"
echo "mutants/$id/$name.patch: $(grep -c '^[-+][^-+]' mutants/$id/$name.patch) changed lines"
