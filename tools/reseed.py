"""tools/reseed.py [NAME-PREFIX ...]  - re-run the quick check of every kept seeded change (seeded/<name>/patch.diff)
against a scratch copy of /repo/src with the patch applied, record the result in meta.json ('quick_check_result',
'caught', 'caught_by') and print a markdown table for DESIGN.md section 9.1.
Extra properties to try for a change that its own property's check misses: meta.json key 'also_try' (list of ids)."""
import glob
import json
import os
import re
import subprocess
import sys

HERE = os.path.dirname(os.path.dirname(os.path.abspath(__file__)))
os.chdir(HERE)
prefixes = sys.argv[1:]
rows = []
for d in sorted(glob.glob('seeded/*')):
    name = os.path.basename(d)
    if prefixes and not any(name.startswith(p) for p in prefixes):
        continue
    meta_path = os.path.join(d, 'meta.json')
    meta = json.load(open(meta_path))
    prop = meta['breaks_property']
    caught_by = []
    results = {}
    for pid in [prop] + list(meta.get('also_try', [])):
        r = subprocess.run(['tools/run_seed.sh', os.path.join(d, 'patch.diff'), pid, 'quick'],
                           capture_output=True, text=True, env=dict(os.environ, SEED_LINES='40', SEED_SHOW='160'))
        out = r.stdout
        results[pid] = out[:1500]
        subs = sorted(set(re.findall(r'violation sub=(\S+) bucket=', out)))
        if r.returncode == 1 and subs:
            caught_by.append('%s `%s`' % (pid, '`, `'.join(subs)))
        if pid == prop and caught_by:
            break
    meta['quick_check_result'] = results[prop].split('\n')[0] if prop in results else ''
    meta['quick_check_detail'] = results
    meta['caught'] = bool(caught_by)
    meta['caught_by'] = caught_by
    json.dump(meta, open(meta_path, 'w'), indent=1)
    rows.append('| %s | %s | %s | %s |' % (name, prop, meta['needs_to_manifest'].replace('|', '\\|'),
                                           '; '.join(caught_by) if caught_by else '**MISSED**'))
    print(rows[-1], flush=True)
