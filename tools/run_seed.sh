#!/bin/bash
# tools/run_seed.sh <patch.diff> <ID> [tier]  - run ./check <ID> against a scratch copy of /repo/src with the patch applied
patch=$(readlink -f "$1"); id=$2; tier=${3:-quick}
here="$(cd "$(dirname "${BASH_SOURCE[0]}")/.." && pwd)"; cd "$here"
scratch=$(mktemp -d /tmp/vx-seed-XXXXXX); mkdir -p "$scratch/src"; cp -r /repo/src/. "$scratch/src/"
if ! (cd "$scratch" && patch -s -p1 < "$patch"); then echo "PATCH-FAILED"; rm -rf "$scratch"; exit 2; fi
VERIF_REPO="$scratch" VERIF_EVIDENCE_DIR="$scratch/evidence" VERIF_REPLAY_DIR="$scratch/replays" ./check "$id" --tier "$tier" > "$scratch/out.txt" 2>&1
code=$?
echo "exit=$code violations=$(grep -c '^VIOLATION' $scratch/out.txt)"
grep -E "^  violation" "$scratch/out.txt" | cut -c1-${SEED_SHOW:-400} | head -${SEED_LINES:-6}
rm -rf "$scratch"
exit $code
