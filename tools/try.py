"""Manual probe: python tools/try.py [exactly args...] < case-text  (case is written to home/t.case; {..} placeholders ok)
Use FILE:name:<<< separators: lines starting with '==> name' start another file."""
import sys, os, json
sys.path.insert(0, os.path.dirname(os.path.dirname(os.path.abspath(__file__))))
from vlib import driver
os.environ.setdefault('VERIF_WORK', '/tmp/vx-try-%d' % os.getppid())
ws = driver.Workspace(keep=True)
cur = 't.case'; files = {cur: ''}
for line in sys.stdin.read().splitlines(True):
    if line.startswith('==> '):
        cur = line[4:].strip(); files[cur] = ''
    else:
        files[cur] += line
ws.write_files(files)
args = sys.argv[1:] or ['t.case']
r = driver.run_inproc(ws, args)
print('exit', r.exit_code, 'exc', r.exception, 'timeout', r.timed_out, 'cwd', r.cwd_changed, 'env', r.env_diff)
print('--- stdout\n' + r.out + '--- stderr\n' + r.err)
print('--- sandboxes', r.sandboxes, 'markers', ws.read_markers(), 'ws', ws.root)
for fn in sorted(os.listdir(ws.obs)):
    if not fn.startswith('_') and fn != 'markers' and not fn.endswith('.cfg'):
        print('--- obs/' + fn)
        for l in open(os.path.join(ws.obs, fn)):
            try:
                d = json.loads(l); d['env'] = '<%d vars>' % len(d.get('env', {})); print(d)
            except ValueError:
                print(l.rstrip())
