"""Regenerates MANIFEST.json from the table below (only properties whose module exists are claimed)."""
import json
import os
import sys

HERE = os.path.dirname(os.path.dirname(os.path.abspath(__file__)))
sys.path.insert(0, HERE)
from vlib.main import MODULES  # noqa

# properties whose check has passed the integration gate (quiet at 3 seeds, mutants caught)
READY = ['C01', 'C02', 'C03', 'C04', 'C05', 'C06', 'C07', 'C08', 'C09', 'C10', 'C11', 'C12', 'C13', 'C14', 'C15', 'C16', 'C17',
         'C18', 'C19', 'C20']

CHECKS = {
    'C01': dict(cat='fault_enumeration', ref='3 C01',
                text='Every single fault (step x position x kind) for all phase shapes up to the bound, every fault '
                     'combined with every failing cleanup instruction, plus random multi-fault plans, are injected '
                     'through stub instructions into the real executor; the recorded step trace and result are '
                     'checked against the protocol invariants. A second layer drives the same invariants through '
                     'the CLI with real instructions and marker files.',
                note='Stub instructions/actor built on the public instruction base classes; bounds: <=3 (quick) / '
                     '<=4 (thorough) instructions per phase.',
                technique='exhaustive fault enumeration + Hypothesis fault plans, trace-invariant oracle'),
    'C02': dict(cat='exploration', ref='3 C02',
                text='Full product status x ending x output mode x exit-code sample (all 256 in thorough) run '
                     'through MainProgram.execute, plus Hypothesis draws with random action output and phase order; '
                     'oracle is the documented outcome table transcribed as data and re-compared with the help text.',
                note='Transcription of the manual tables is trusted (checked against help output of the tree); '
                     'in-process execution (thorough: sub-process differential). In-process runs also record what reaches file descriptors 1/2 of the process (programs run for instructions inherit them): nothing may.',
                technique='enumerated product + Hypothesis, documented-table oracle'),
    'C03': dict(cat='exploration', ref='3 C03',
                text='Valid carrier instructions from a grammar of every instruction of every phase (all 13 def '
                     'types) with typed holes; 26 families of defect operators applied to one hole (undefined / '
                     'later / self / wrongly typed symbol through chains, forbidden relativity by option or symbol '
                     'chain, missing home file, ill-formed integer / regex / replacement, syntax errors), placed '
                     'anywhere incl. the last line of [cleanup], included files and suite-supplied contents; started '
                     'as run / --keep / --act / symbol / suite; oracle: exit 65 with the documented identifier, no '
                     'marker, no probe output, no sandbox ever created, home/cwd/env unchanged; control run shows '
                     'the effects exist without the defect; `symbol` on valid cases lists exactly the definitions.',
                note='Effects are observed through marker files outside the sandbox, every mkdtemp call of the run '
                     'and the sandbox root listing; the older template table (defect_has_no_effect) is kept. Exhaustive grid result_dir_before_act: 14 reading sites x 6 forms x 4 modes x 2 positions of -rel-result in [setup].',
                technique='Hypothesis grammar-based generation + deterministic enumeration of (operator, hole), '
                          'no-effect invariant with control run'),
    'C04': dict(cat='fault_enumeration', ref='3 C04',
                text='CLI cases with polluting instructions x every real ending x --keep, and the enumerated fault '
                     'plans of C01 with is_keep_sandbox in {False, True}: layout, result files, removal/preservation '
                     'of the sandbox, cwd and environ of the calling process.',
                note='Runs as root: the read-only sub-domain is re-run in a forked worker that drops to nobody.',
                technique='Hypothesis + exhaustive fault plans, filesystem/process-state invariants'),
    'C05': dict(cat='exploration', ref='3 C05',
                text='Generated texts x matcher/transformer ASTs x regex family x source kinds, evaluated by the real '
                     'program (CLI verdict / produced file, and the primitives via the public parsers) and by an '
                     'independent reference evaluator written from the manual.',
                note='Python re shared on purpose (REGEX is defined as Python syntax).',
                technique='Hypothesis grammar-based generation, reference-model oracle'),
    'C06': dict(cat='exploration', ref='3 C06',
                text='Typed expression trees rendered with minimal parentheses, redundant parentheses, extra blanks '
                     'and permitted line breaks, for every host type; value and evaluation trace of observable '
                     'leaves compared with short-circuit evaluation of the generating tree; malformed layouts must '
                     'be SYNTAX_ERROR.',
                note='Discriminating fraction (alternative readings give another value) is measured.',
                technique='Hypothesis tree generation, round-trip by construction'),
    'C07': dict(cat='exploration', ref='3 C07',
                text='Documents over the alphabet of line kinds with recursive inclusion graphs; the per-phase '
                     'instruction sequences with line numbers/sources/inclusion chains from the real parser are '
                     'compared with an independent document reader; phase-block permutation leaves outcome and '
                     'marker trace unchanged; cycles/unknown headers are errors.',
                note='API layer through test_case_parser.new_parser with the production setup + CLI layer; exhaustive '
                     'for all documents of <= 3 (quick) / 4 (thorough) lines over the line-kind alphabet; coverage-'
                     'guided campaign over the same decoder. Known finding KF-C07-1 identified by a defect model. Exhaustive sub-check act_blocks_report: the report of a failing act phase quotes all blocks of the act phase (7 layouts x 3 kinds of failure).',
                technique='exhaustive small documents + Hypothesis line-kind grammar + atheris, reference reader, '
                          'model-free source-text invariant, metamorphic phase permutation'),
    'C08': dict(cat='exploration', ref='3 C08',
                text='Exhaustive matrix 138 syntactic contexts x 13 defined types x chains to depth 4, exhaustive '
                     'definition-phase x use-phase x order x file-order table (incl. included files, suite '
                     'sections, self reference, execution that stops), exhaustive value combinations, random '
                     'def/reference programs with at most one fault; reference interpreter of scoping, single '
                     'definition and per-context type demands decides VALIDATION_ERROR (nothing executed) vs the '
                     'values seen by probes / files / env; `exactly symbol` listings agree with the reference.',
                note='Type demands transcribed from the SYMBOL-REFERENCE paragraphs of the help pages; strict '
                     'contexts calibrated on the direct case; known finding KF-C08-2 identified by a defect model; '
                     'coverage-guided campaign over the program builder (symbol_listing_fuzz).',
                technique='exhaustive matrices + Hypothesis program generation + atheris, reference interpreter'),
    'C09': dict(cat='exploration', ref='3 C09',
                text='Target strings rendered as differently quoted adjacent fragments with symbol references and '
                     'every kind of next token, through def/file/probe argv/list/here-doc hosts; denoted value known '
                     'by construction; TokenStream compared with an independent tokenizer.',
                note='Known findings identified by defect models.',
                technique='Hypothesis round-trip by construction + differential tokenizer'),
    'C10': dict(cat='exploration', ref='3 C10',
                text='Generated argument lists, stdin sources, program-symbol chains, actors and phases; the probe '
                     'child records argv/stdin/cwd which must equal the denoted values; exit code/stdout/stderr '
                     'assertions must see the probe output.',
                note='Probe program is /verif/vlib/probe/probe.py.',
                technique='Hypothesis generation, probe-observed round trip'),
    'C11': dict(cat='exploration', ref='3 C11',
                text='Histories of cd/env/timeout/def interleaved with probes over all phases; reference state '
                     'machine predicts the environment and cwd each probe sees.',
                note='Sub-check timeout_persists enumerates places of a later process x other settings made between '
                     'the timeout instruction and the use (cell builder and wall-clock margins shared with C19).',
                technique='Hypothesis history generation, reference state machine'),
    'C12': dict(cat='exploration', ref='3 C12',
                text='Relativity options x suffix shapes x path-symbol chains x use sites x phases; resolved path vs '
                     'documented root; destination arguments reject non-writable relativities; home snapshot '
                     'unchanged.',
                note='Enumerated matrices destination form / reading site x phase x (option | symbol chain to depth '
                     '3 (quick) / 4 (thorough)), cd matrix, random cases; known findings KF-C12-1/2 (doc/BUGS.rst) '
                     'identified by defect models.',
                technique='enumerated matrices + Hypothesis generation, documented-root oracle + home snapshot '
                          'invariant'),
    'C13': dict(cat='exploration', ref='3 C13',
                text='Exhaustive small integer-/line-matcher trees x all short texts at API level (accepted set vs '
                     'interval), plus generated line-matcher trees and range lists through the CLI compared with '
                     'per-line evaluation.',
                note='Exhaustive for the stated sub-space; random beyond.',
                technique='exhaustive enumeration + Hypothesis, per-line reference evaluation'),
    'C14': dict(cat='exploration', ref='3 C14',
                text='Stateful access sequences (as_str/as_lines/as_file/write_to/freeze) over string sources built '
                     'through the public API with every buffer size, and CLI metamorphic pairs (identity wrapping, '
                     'M vs (M && M), source kinds).',
                note='Exhaustive: all 120 access orders on 12 source trees, every text of <= 3 characters over a '
                     '4-letter alphabet x buffer sizes; known finding KF-C14-2 identified by a defect model plus a '
                     'counterfactual re-run without newline translation.',
                technique='Hypothesis access sequences + exhaustive small scope + atheris, reference text model, '
                          'metamorphic relations (identity, M && M, source kinds)'),
    'C15': dict(cat='exploration', ref='3 C15',
                text='Generated FILE-LISTs and directory trees with symlinks; reference list interpreter and matcher '
                     'evaluator over a tree data structure; populate-then-match round trip.',
                note=' Exhaustive sub-check populate_over_links: a name of the list that is taken by a symbolic link made by the case (dangling / to a file / to a directory outside) is a HARD_ERROR and nothing outside changes.',
                technique='Hypothesis generation, reference model + round trip'),
    'C16': dict(cat='exploration', ref='3 C16',
                text='Generated suite hierarchies with outcome assignment; reference model of processing order, '
                     'invalid-suite conditions and both reporters; reporters must agree.',
                note='',
                technique='Hypothesis generation, reference model + reporter differential'),
    'C17': dict(cat='exploration', ref='3 C17',
                text='Lists of mutator/observer cases in every order, suites supplying every subset of phases x cases '
                     'supplying every subset, 154 kinds of suite-level instructions consuming symbols the cases '
                     'define differently; in-suite outcome and observations equal the standalone ones (three ways '
                     'of running); marker order = suite then case (cleanup reversed); not inherited by sub-suites.',
                note='Every differential run happens in a forked child so that the standalone reference starts '
                     'from a process in which no other case has run.',
                technique='Hypothesis histories + enumerated matrices, differential standalone vs suite (fork-'
                          'isolated) + marker-order model'),
    'C18': dict(cat='exploration', ref='3 C18',
                text='Grammar-generated valid cases mutated by token/char operators and ill-formed vocabularies '
                     '(INTEGER per exception class, REGEX, replacement template, GLOB, RANGE, PATH, timeout, names, '
                     'relativity options, here-document markers), truncation at every character, 204 literal '
                     'texts (one per kind of mistake the statement names), deep nesting; oracle: terminates, '
                     'documented exit code consistent with the identifier, no escaped exception, no INTERNAL_ERROR '
                     '/ traceback, exit 65 for targeted mistakes, reported file/line/source exist.',
                note='Known findings KF-C18-4/5/8/11 identified by defect models; in-process runs (driver catches '
                     'BaseException); coverage-guided campaign over the grammar decoder in both tiers.',
                technique='grammar-based mutation fuzzing (Hypothesis + atheris), report-consistency oracle'),
    'C19': dict(cat='exploration', ref='3 C19',
                text='Every place a process can start x child behaviour x timeout history x other settings made in '
                     '[setup] (env with/without -of, cd, stdin), run in-process (thorough: also as sub-processes) '
                     'with wall-clock margins; HARD_ERROR in the right phase, child dead, cleanup ran, sandbox gone.',
                note='Wall clock: wide margins, inconclusive outcome instead of violation in the margin. In the cells where the timeout must fire the child must have been started once (not restarted).',
                technique='enumerated place x schedule matrix with probe children'),
    'C20': dict(cat='exploration', ref='3 C20',
                text='Exhaustive: every listed and every accepted instruction/entity/builtin symbol has a help page '
                     'and is accepted; negative names rejected; every internal href of the HTML manual resolves to '
                     'exactly one id.',
                note='',
                technique='exhaustive enumeration of names and links, listed<=>accepted oracle'),
}


def main():
    checks = []
    na = []
    for pid in sorted(MODULES):
        modfile = os.path.join(HERE, MODULES[pid].replace('.', '/') + '.py')
        c = CHECKS[pid]
        if os.path.exists(modfile) and pid in READY:
            checks.append({
                'property_id': pid,
                'quick_cmd': './check %s --tier quick' % pid,
                'thorough_cmd': './check %s --tier thorough' % pid,
                'evidence_file': 'evidence/%s.json' % pid,
                'replay_cmd_template': './check %s --replay {path}' % pid,
                'engine': 'vlib',
                'level_claimed': {'category': c['cat'], 'text': c['text'], 'design_ref': 'DESIGN.md section ' + c['ref']},
                'level_note': c['note'] or 'in-process execution of the production MainProgram wiring',
                'technique': c['technique'],
            })
        else:
            na.append({'property_id': pid,
                       'reason': 'not claimed yet: the check for this property is not built (see DESIGN.md section 3 for the plan)'})
    manifest = {
        'version': 1,
        'setup_cmd': './setup.sh',
        'hooks': {
            'guard': 'EXACTLY_VERIF',
            'enable': 'no source hooks are needed; checks import /repo/src directly in a fresh process '
                      '(PYTHONPATH=/repo/src), EXACTLY_VERIF=1 is exported but nothing in /repo reads it',
            'baseline_off_cmd': 'cd /repo && /venv/bin/python -m pytest -ra -q -p no:cacheprovider --timeout=900 '
                                '--continue-on-collection-errors',
            'source_commits': [],
            'add_only': True,
        },
        'engines': [{'name': 'vlib', 'path': 'vlib/', 'serves_properties': [c['property_id'] for c in checks],
                     'kind_free_text': 'Hypothesis / exhaustive-enumeration driver running Exactly in-process '
                                       '(vlib/runner.py, vlib/driver.py) with reference models in vlib/ref'}],
        'checks': checks,
        'not_applicable': na,
        'notes': 'Single entry ./check <ID> --tier quick|thorough [--replay FILE]; exit 0/1/2; honours VERIF_SEED.',
    }
    with open(os.path.join(HERE, 'MANIFEST.json'), 'w') as f:
        json.dump(manifest, f, indent=1)
        f.write('\n')
    print('claimed:', [c['property_id'] for c in checks])


if __name__ == '__main__':
    main()
