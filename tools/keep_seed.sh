#!/bin/bash
# tools/keep_seed.sh <worktree> <diff> <demo> <PROP> <name> "<needs>"  - verify a seeded change in the worktree and store it
wt=$1; diff=$(readlink -f $2); demo=$(readlink -f $3); prop=$4; name=$5; needs=$6
here="$(cd "$(dirname "${BASH_SOURCE[0]}")/.." && pwd)"
cd "$wt" || exit 2
git checkout -q -- src 2>/dev/null
PYTHONPATH=$wt/src PYTHONWARNINGS=ignore /venv/bin/python "$demo" > /tmp/ks_clean.out 2>&1; c0=$?
git apply "$diff" || { echo "apply failed"; exit 2; }
PYTHONPATH=$wt/src PYTHONWARNINGS=ignore /venv/bin/python "$demo" > /tmp/ks_mut.out 2>&1; c1=$?
pinned=$(PYTHONPATH=$wt/src /venv/bin/python -m pytest -q -p no:cacheprovider --timeout=900 --continue-on-collection-errors 2>&1 | tail -1)
imp=$(PYTHONPATH=$wt/src /venv/bin/python -c "import exactly_lib.cli_default.default_main_program_setup" 2>&1 | tail -1)
git checkout -q -- src
echo "demo clean exit=$c0, with change exit=$c1; pinned: $pinned; import: ${imp:-ok}"
if [ $c0 -ne 0 ] || [ $c1 -eq 0 ]; then echo "NOT CONFIRMED"; tail -5 /tmp/ks_clean.out /tmp/ks_mut.out; exit 1; fi
d="$here/seeded/$name"; mkdir -p "$d"
cp "$diff" "$d/patch.diff"; cp "$demo" "$d/$(basename $demo)"
cd "$here"
check_out=$(tools/run_seed.sh "$d/patch.diff" "$prop" quick 2>&1 | head -3 | cut -c1-300)
python3 - "$d" "$prop" "$name" "$needs" "$c0" "$c1" "$pinned" "$check_out" "$(basename $demo)" <<'PY'
import json, sys
d, prop, name, needs, c0, c1, pinned, check_out, demo = sys.argv[1:]
json.dump({'breaks_property': prop, 'name': name, 'needs_to_manifest': needs,
           'origin': 'written by a sub-agent that was given only the property text and a scratch worktree',
           'verified': {'demo': demo, 'demo_exit_without_change': int(c0), 'demo_exit_with_change': int(c1),
                        'pinned_suite_with_change': pinned,
                        'pinned_suite_baseline': '182 failed, 171 passed, 23 errors (pre-existing collection failures)'},
           'quick_check_result': check_out,
           'commands': ['git apply patch.diff (scratch worktree); PYTHONPATH=<wt>/src /venv/bin/python ' + demo,
                        'tools/run_seed.sh seeded/%s/patch.diff %s quick' % (name, prop)]},
          open(d + '/meta.json', 'w'), indent=1)
PY
echo "stored in seeded/$name: $check_out" | head -2
