"""Validate MANIFEST.json and evidence/*.json against the schemas."""
import json, os, sys, glob
HERE = os.path.dirname(os.path.dirname(os.path.abspath(__file__)))
sys.path.insert(0, os.path.join(HERE, '.deps'))
import jsonschema
ok = True
def val(path, schema):
    global ok
    try:
        jsonschema.validate(json.load(open(path)), json.load(open(schema)))
        print('valid  ', path)
    except Exception as ex:
        ok = False
        print('INVALID', path, str(ex)[:500])
val(os.path.join(HERE, 'MANIFEST.json'), '/root/.vp/MANIFEST.schema.json')
for p in sorted(glob.glob(os.path.join(HERE, 'evidence', '*.json'))):
    val(p, '/root/.vp/EVIDENCE.schema.json')
sys.exit(0 if ok else 1)
