"""tools/as_built.py > /tmp/as_built.md  - markdown summary "as built" per property from the modules (docstring, RULE,
ASSUMPTIONS, SUBS) and the committed quick evidence (counts); pasted into DESIGN.md section 10."""
import importlib
import json
import os
import sys

HERE = os.path.dirname(os.path.dirname(os.path.abspath(__file__)))
sys.path.insert(0, HERE)
sys.path.insert(0, '/repo/src')
from vlib.main import MODULES  # noqa

for pid in sorted(MODULES):
    try:
        mod = importlib.import_module(MODULES[pid])
    except Exception as ex:  # noqa
        print('### %s\n\n(module not importable: %r)\n' % (pid, ex))
        continue
    ev = {}
    p = os.path.join(HERE, 'evidence', pid + '.json')
    if os.path.exists(p):
        ev = json.load(open(p))
    doc = (mod.__doc__ or '').strip().split('\n\n')[0].replace('\n', ' ')
    print('### %s (as built)\n' % pid)
    print(doc + '\n')
    print('*Generation rule / non-trivial*: ' + mod.RULE + '\n')
    cov = ev.get('coverage', {})
    subs = cov.get('sub_checks', {})
    print('| sub-check | kind | quick cases | distinct non-trivial | thorough budget |')
    print('|---|---|---|---|---|')
    for s in mod.SUBS:
        c = subs.get(s.name, {})
        budget = getattr(s, 'budget', None) or {}
        kind = c.get('kind') or ('enumeration' if getattr(s, 'enumerate', None) else 'hypothesis')
        print('| `%s` | %s%s | %s | %s | %s |' % (s.name, kind, ' (exhaustive)' if getattr(s, 'exhaustive', False) else '',
                                                 c.get('evaluations', '-'), c.get('distinct_nontrivial', '-'),
                                                 budget.get('thorough', 'all cells') if budget else 'all cells'))
    print('\nquick tier, seed %s: %s cases, %s distinct non-trivial, %s s wall; regression replays run: %s\n'
          % (ev.get('seed'), cov.get('evaluations'), cov.get('distinct_nontrivial'), ev.get('wall_s'),
             cov.get('regression_replays_run')))
    ass = getattr(mod, 'ASSUMPTIONS', [])
    if ass:
        print('*Assumptions / accepted readings*:\n')
        for a in ass:
            print('* ' + a)
        print()
