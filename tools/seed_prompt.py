"""print the prompt for a seeding sub-agent: tools/seed_prompt.py CNN /tmp/seed-CNN"""
import json, sys
pid, wt = sys.argv[1], sys.argv[2]
first = int(sys.argv[3]) if len(sys.argv) > 3 else 1   # number of the first change (round 2: 3)
import glob, os, re
taken = []
if first > 1:
    for d in sorted(glob.glob('/verif/seeded/%s-*' % pid)):
        m = json.load(open(d + '/meta.json'))
        files = sorted(set(re.findall(r'^\+\+\+ b/(\S+)', open(d + '/patch.diff').read(), re.M)))
        taken.append(' - %s  [%s]: needs %s' % (os.path.basename(d), ', '.join(files), m['needs_to_manifest']))
for l in open('/verif/properties.jsonl'):
    p = json.loads(l)
    if p['id'] == pid:
        break
text = (f"""You are given a git worktree of the Python project emilkarlen/exactly (a CLI program tester with its own test-case DSL; pure Python) at {wt}. Do all your work inside {wt} (and /tmp/{pid}-scratch if you need scratch space). Do NOT read, list or touch /repo, /verif or any other directory - your work must be independent of anything there. Python is /venv/bin/python; ALWAYS run it with PYTHONPATH={wt}/src so that your worktree's sources are imported (the installed package points elsewhere). The program is run as `PYTHONPATH={wt}/src PYTHONWARNINGS=ignore /venv/bin/python {wt}/src/default-main-program-runner.py [args]` (`... help`, `... help instructions`, `... help case spec`, `... FILE.case`, `... suite FILE.suite`); examples of test cases are under {wt}/examples.

A semantic property users of this program rely on:

TITLE: {p['title']}
STATEMENT: {p['statement']}
QUANTIFIED OVER: {p['quantifier']['text']}

{{AVOID}}TASK: produce TWO independent small source changes (at different mechanisms / code sites) under {wt}/src, each of which BREAKS this property in a realistic way (the kind of regression a maintainer could introduce by a plausible refactoring or "optimisation"), while
 (1) the code still imports and the program still works for ordinary use,
 (2) the pinned test suite gives exactly the same result as without the change: `cd {wt} && PYTHONPATH={wt}/src /venv/bin/python -m pytest -q -p no:cacheprovider --timeout=900 --continue-on-collection-errors 2>&1 | tail -1` (before any change it prints "182 failed, 171 passed, ... 23 errors" - those failures/errors are pre-existing collection problems; the numbers must stay identical),
 (3) preferably the repository's own bigger unittest suite also still passes: `mkdir -p /tmp/{pid}-scratch/tmp && cd {wt}/test && TMPDIR=/tmp/{pid}-scratch/tmp PYTHONPATH={wt}/src PYTHONWARNINGS=ignore /venv/bin/python run-test-suite.py 2>&1 | tail -4` (3-6 minutes, more when the machine is busy; "FAILED (errors=3)" with 4713 tests is the pre-existing result; it litters its TMPDIR: remove /tmp/{pid}-scratch/tmp afterwards; never delete anything directly under /tmp that is not yours - other people run the same suite concurrently). If a change unavoidably makes one or two of those example tests fail, say which; prefer changes that keep them all passing.
Each change must need something SPECIFIC to manifest - a particular multi-step sequence of instructions/phases, an unusual but legal input, a failure at a particular step, a particular combination of options, or two cooperating code sites that each look fine alone - not something that ordinary use (e.g. the files under examples/) would expose at once.

For each change i in ({{I1}}, {{I2}}) deliver in {wt}:
 - seed{pid}_i.diff : `git diff` of the source change only (apply one change at a time: start each from a clean tree with `git diff > saved.diff; git checkout -- src`; NEVER use `git stash`: the stash is shared by all worktrees of the repository and other engineers work in theirs),
 - demo{pid}_i.py : a self-contained demonstration (python script using only the standard library and the program under test, run as `PYTHONPATH={wt}/src /venv/bin/python demo{pid}_i.py`) that creates the test-case files it needs in a temporary directory, runs the real program, checks the property on that input, and exits 1 (printing what is wrong) WITH the change applied and exits 0 WITHOUT it. Verify both directions yourself.
Leave the worktree's src clean (no change applied) when you finish; keep only the .diff and demo files (untracked) in {wt}.

Final report (concise): for each change - which part of the property it breaks, the code site(s), exactly what is needed for it to manifest, results of the pinned suite and of run-test-suite.py with the change, and the commands you ran to verify the demo in both directions.""")
avoid = ''
if taken:
    avoid = ('ALREADY TAKEN by earlier engineers (do NOT repeat these mechanisms or near variants of them; pick other '
             'clauses of the statement, other code sites, other kinds of trigger):\n' + '\n'.join(taken) + '\n\n')
print(text.replace('{AVOID}', avoid).replace('{I1}', str(first)).replace('{I2}', str(first + 1)))
