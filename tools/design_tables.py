"""tools/design_tables.py - rewrite the generated parts of DESIGN.md from committed data:
section 9.1 (table of seeded changes from seeded/*/meta.json) between <!-- SEEDED-TABLE-BEGIN/END -->,
section 10 (as built, tools/as_built.py) between <!-- AS-BUILT-BEGIN/END -->."""
import glob
import json
import os
import re
import subprocess
import sys

HERE = os.path.dirname(os.path.dirname(os.path.abspath(__file__)))
os.chdir(HERE)


def seeded_table():
    rows = ['| seeded change | property | needs, to manifest | caught by (quick tier, seed 1) |', '|---|---|---|---|']
    n = caught = 0
    for d in sorted(glob.glob('seeded/*')):
        m = json.load(open(os.path.join(d, 'meta.json')))
        by = m.get('caught_by')
        if isinstance(by, list):
            by = '; '.join(by)
        if not m.get('caught'):
            by = '**MISSED**' + (' (%s)' % m['note'] if m.get('note') else '')
        n += 1
        caught += bool(m.get('caught'))
        rows.append('| %s | %s | %s | %s |' % (os.path.basename(d), m['breaks_property'],
                                              m['needs_to_manifest'].replace('|', '\\|').replace('\n', ' '), by))
    rows.append('')
    rows.append('%d seeded changes kept, %d caught by the quick tier of the property they break (or of the property named).' % (n, caught))
    return '\n'.join(rows)


def replace_between(text, tag, body):
    b, e = '<!-- %s-BEGIN -->' % tag, '<!-- %s-END -->' % tag
    if b not in text:
        raise SystemExit('marker %s missing in DESIGN.md' % b)
    return re.sub(re.escape(b) + '.*?' + re.escape(e), lambda _: b + '\n' + body + '\n' + e, text, flags=re.S)


text = open('DESIGN.md').read()
text = replace_between(text, 'SEEDED-TABLE', seeded_table())
if '--as-built' in sys.argv:
    out = subprocess.run(['/venv/bin/python', 'tools/as_built.py'], capture_output=True, text=True).stdout
    text = replace_between(text, 'AS-BUILT', out)
open('DESIGN.md', 'w').write(text)
print('DESIGN.md updated')
