"""C04 - Sandbox lifecycle and isolation of the Exactly process.

Sub-checks
  plan_lifecycle   every single fault (and fault x failing cleanup) of the C01 fault plans, with
                   is_keep_sandbox in {False, True}: sandbox created iff validation passed, removed unless keep,
                   kept intact with keep; cwd = act/ at first setup instruction; cwd/environ of the calling
                   process restored.  (covers the endings real instructions cannot produce: internal errors)
  cli_lifecycle    generated CLI cases with polluting instructions (cd, env set/unset, chmod a-w, child cd, files
                   in tmp/) x every real ending x --keep x action output; layout at start, result/ contents,
                   tmp/ untouched, removal/preservation, cwd/environ of the calling process.
  cli_readonly_as_nobody (thorough, only when running as root): the read-only sub-domain re-run in a forked
                   child that drops to uid nobody, where read-only directories really resist removal.
"""
import os

from hypothesis import strategies as st

from vlib import driver
from vlib.runner import Sub, Verdict, fail
from props import c01_protocol

PROPERTY_ID = 'C04'
LEVEL = 'fault_enumeration'
RULE = ('(a) C01 fault plans: every single fault x keep in {no, yes} for the shapes in the bound, every fault x '
        'failing cleanup instruction for three shapes, random multi-fault plans; (b) CLI cases: list of polluting '
        'instructions (cd to tmp/sub dirs, env set/unset, chmod a-w on sandbox files/dirs, child-process cd, files '
        'written to tmp/) distributed over phases x ending (pass, FAIL, hard error in setup/act/before-assert/assert/'
        'cleanup, invalid stdin after setup, timeout) x --keep x action stdout/stderr/exit code. Non-trivial = a '
        'sandbox was created and (the run did not end by PASS, or it polluted cwd/env/permissions, or --keep); '
        'distinct = distinct case')
ASSUMPTIONS = [
    'the check process runs as root in this sandbox: chmod a-w cannot make files unremovable; the thorough tier '
    're-runs the read-only sub-domain in a forked child that has dropped to uid/gid nobody',
    'exit-code file: decimal exit code, an optional trailing newline is accepted',
    'internal/ is reserved for Exactly: its contents are not constrained',
]


# ----------------------------------------------------------------------------------------------------
# (a) fault plans
# ----------------------------------------------------------------------------------------------------
def enum_plans(tier):
    shp = [dict(zip(c01_protocol.PH5, t)) for t in ([(1, 1, 1, 1, 1), (1, 2, 2, 2, 2)] if tier == 'quick'
                                                     else [(1, 1, 1, 1, 1), (1, 2, 2, 2, 2), (2, 3, 3, 3, 3),
                                                           (1, 3, 1, 2, 3), (0, 0, 0, 0, 0), (1, 1, 0, 1, 0)])]
    for n in shp:
        for keep in (False, True):
            for act_only in (False, True):
                yield {'n': n, 'status': 'PASS', 'act_only': act_only, 'keep': keep, 'faults': []}
                for ph, step, i, kinds in c01_protocol.fault_sites(n):
                    for k in kinds:
                        yield {'n': n, 'status': 'PASS', 'act_only': act_only, 'keep': keep,
                               'faults': [[ph, step, i, k]]}
                        if tier != 'quick' or (ph, step) in (('setup', 'main'), ('act', 'execute'),
                                                             ('assert', 'main'), ('act', 'prepare'),
                                                             ('before-assert', 'main'), ('setup', 'post')):
                            for ci in range(n['cleanup']):
                                if not (ph == 'cleanup' and step == 'main'):
                                    yield {'n': n, 'status': 'PASS', 'act_only': act_only, 'keep': keep,
                                           'faults': [[ph, step, i, k], ['cleanup', 'main', ci, 'EXC']]}


def check_plan(plan) -> Verdict:
    from vlib import protocol_harness
    from vlib.ref import protocol
    with driver.Workspace() as ws:
        obs = protocol_harness.run_plan(plan, ws.root)
        tmproot = os.path.join(ws.root, 'tmproot')
        kept_tree = None
        if obs.get('sds_root') and os.path.isdir(obs['sds_root']):
            kept_tree = sorted(os.listdir(obs['sds_root']))
    keys = [(r[0], r[1], r[2]) for r in obs['trace']]
    faults = {(f[0], f[1], f[2]) for f in plan['faults']}
    reached = [k for k in keys if k in faults]
    first_fail = reached[0] if reached else None
    sandbox_expected = plan['status'] != 'SKIP' and not any(k[0] == 'conf' for k in reached) and \
        (first_fail is None or first_fail[1] not in protocol.PRE_SANDBOX_STEPS)
    labels = ['plan', 'keep:%s' % plan['keep'], 'sandbox:%s' % sandbox_expected,
              'ending:%s' % (('%s/%s/%s' % (first_fail[0], first_fail[1],
                                            dict(((f[0], f[1], f[2]), f[3]) for f in plan['faults'])[first_fail]))
                             if first_fail else 'no-failure')]
    nontrivial = sandbox_expected and (bool(reached) or plan['keep'])
    key = 'plan|%s|%s|%s|%s' % (sorted(plan['n'].items()), plan.get('act_only'), plan['keep'],
                                sorted(map(tuple, plan['faults'])))
    detail = {'plan': plan, 'obs': {k: obs.get(k) for k in ('status', 'has_sds', 'sds_exists_after',
                                                            'sandboxes_after', 'cwd_restored', 'env_restored',
                                                            'exception')},
              'trace': obs['trace']}

    def bad(what):
        return fail('plan/' + what, detail, labels=labels, nontrivial=nontrivial, key=key)

    if obs.get('exception'):
        return bad('exception-escaped')
    if not obs['cwd_restored']:
        return bad('cwd-not-restored')
    if not obs['env_restored']:
        return bad('environ-changed')
    if bool(obs.get('has_sds')) != sandbox_expected:
        return bad('sandbox-existence')
    if not sandbox_expected:
        if obs['sandboxes_after']:
            return bad('sandbox-created-before-validation-passed')
    else:
        if plan['keep']:
            if not obs['sds_exists_after'] or len(obs['sandboxes_after']) != 1:
                return bad('kept-sandbox-missing')
            if kept_tree is None or not {'act', 'tmp', 'result', 'internal'} <= set(kept_tree):
                return bad('kept-sandbox-not-intact')
        else:
            if obs['sds_exists_after'] or obs['sandboxes_after']:
                return bad('sandbox-not-removed')
        sm = [r for r in obs['trace'] if r[0] == 'setup' and r[1] == 'main']
        if sm:
            if sm[0][3]['cwd'] != os.path.join(sm[0][3]['sds'], 'act'):
                return bad('initial-cwd-is-not-act')
            if os.path.dirname(sm[0][3]['sds']) != tmproot:
                return bad('sandbox-not-under-root')
    return Verdict(True, nontrivial=nontrivial, key=key, labels=labels,
                   sample={'plan': plan, 'has_sds': obs.get('has_sds'), 'sandboxes_after': obs['sandboxes_after']})


# ----------------------------------------------------------------------------------------------------
# (b) CLI cases
# ----------------------------------------------------------------------------------------------------
ENDINGS = ['pass', 'fail', 'hard_setup', 'hard_act', 'hard_before-assert', 'hard_assert', 'hard_cleanup',
           'stdin_missing', 'timeout_setup', 'timeout_act']
PH = ['setup', 'before-assert', 'assert', 'cleanup']
OPS = ['cd_tmp', 'cd_sub', 'cd_act', 'env_set', 'env_unset', 'env_set_path', 'chmod_file', 'chmod_dir',
       'chmod_noperm', 'child_cd', 'tmp_file', 'act_file', 'root_file', 'root_link', 'root_dir']
ROOT_OPS = ('root_file', 'root_link', 'root_dir')  # the case puts something of its own directly in the sandbox root


# what the chmod ops leave behind: entry -> permission bits that must be off afterwards (`chmod a-w`: the write bits,
# `chmod 000`: all of them; the other bits depend on the umask)
_CHMOD_TARGETS = {'chmod_file': {'ro-%s.txt': 0o222}, 'chmod_dir': {'rodir-%s': 0o222, 'rodir-%s/inner': 0o222},
                  'chmod_noperm': {'nodir-%s': 0o777, 'nodir-%s/inner': 0o777}}


def cli_build(case):
    ph = {p: [] for p in ['setup', 'act', 'before-assert', 'assert', 'cleanup']}
    ph['setup'].append('$ pwd > {OBS}/pwd0; cd @[EXACTLY_ACT]@/.. && find . -mindepth 1 | sort > {OBS}/ls0')
    tmp_files = {}
    act_files = {}
    for j, (p, op) in enumerate(case['ops']):
        tag = 'f%d' % j
        if op == 'cd_tmp':
            ph[p].append('cd -rel-tmp .')
        elif op == 'cd_sub':
            ph[p] += ['dir -rel-act sub%d/deep' % j, 'cd -rel-act sub%d/deep' % j]
        elif op == 'cd_act':
            ph[p].append('cd -rel-act .')
        elif op == 'env_set':
            ph[p].append('env VERIF_C04_%s = value-%d' % (tag, j))
        elif op == 'env_unset':
            ph[p].append('env unset VERIF_C04_PRESET')
        elif op == 'env_set_path':
            ph[p].append('env VERIF_C04_PRESET = "changed by case"')
        elif op == 'chmod_file':
            ph[p] += ['file -rel-act ro-%s.txt = "x"' % tag, '$ chmod a-w @[EXACTLY_ACT]@/ro-%s.txt' % tag]
            act_files['ro-%s.txt' % tag] = 'x'
        elif op == 'chmod_dir':
            ph[p] += ['dir -rel-act rodir-%s/inner' % tag, 'file -rel-act rodir-%s/inner/f.txt = "y"' % tag,
                      '$ chmod a-w @[EXACTLY_ACT]@/rodir-%s/inner @[EXACTLY_ACT]@/rodir-%s' % (tag, tag)]
        elif op == 'chmod_noperm':
            ph[p] += ['dir -rel-act nodir-%s/inner' % tag, 'file -rel-act nodir-%s/inner/f.txt = "z"' % tag,
                      '$ chmod 000 @[EXACTLY_ACT]@/nodir-%s/inner; chmod 000 @[EXACTLY_ACT]@/nodir-%s' % (tag, tag)]
        elif op == 'child_cd':
            ph[p].append('$ cd @[EXACTLY_TMP]@ && cd / && true')
        elif op == 'root_file':
            ph[p].append('$ echo x > @[EXACTLY_ACT]@/../stray-%s.log' % tag)
        elif op == 'root_link':
            ph[p].append('$ ln -s act/no-such-target @[EXACTLY_ACT]@/../stray-%s.lnk' % tag)
        elif op == 'root_dir':
            ph[p].append('$ mkdir @[EXACTLY_ACT]@/../stray-%s.d && echo y > @[EXACTLY_ACT]@/../stray-%s.d/f' % (tag, tag))
        elif op == 'tmp_file':
            ph[p].append('file -rel-tmp mine-%s.txt = "tmp-%d"' % (tag, j))
            tmp_files['mine-%s.txt' % tag] = 'tmp-%d' % j
        elif op == 'act_file':
            ph[p].append('file -rel-act made-%s.txt = "act-%d"' % (tag, j))
            act_files['made-%s.txt' % tag] = 'act-%d' % j
        else:
            raise ValueError(op)
    e = case['ending']
    ph['act'] = ['% {PY} {PROBE} {OBS}/act']
    conf = []
    actor = case.get('actor', 'command')
    if e in ('hard_act', 'timeout_act') or case.get('shell_act'):
        actor = 'command'
    if actor == 'source':
        # the act phase is source code for an interpreter: Exactly has to store it somewhere (not in tmp/)
        conf = ['actor = source /bin/sh']
        ph['act'] = ['# the action to check is the probe', 'exec {PY} {PROBE} {OBS}/act']
    elif actor == 'file':
        conf = ['actor = file /bin/sh']
        ph['act'] = ['act-script.sh']
    if case.get('shell_act'):
        ph['act'] = ['$ exit %d' % case['code']]
    ph['assert'].append('exit-code == %d' % case['code'])
    if e == 'fail':
        ph['assert'].append('exit-code != %d' % case['code'])
    elif e in ('hard_setup', 'hard_before-assert', 'hard_cleanup'):
        ph[e[5:]].append('$ exit 3')
    elif e == 'hard_assert':
        ph['assert'].append('contents -rel-act no-such-file : is-empty')
    elif e == 'hard_act':
        ph['act'] = ['% no-such-program-verif-c04']
    elif e == 'stdin_missing':
        ph['setup'].append('stdin = -contents-of -rel-act no-such-stdin-file')
    elif e == 'timeout_setup':
        ph['setup'] += ['timeout = 1', '$ sleep 5']
    elif e == 'timeout_act':
        ph['setup'] += ['timeout = 1']
        ph['act'] = ['$ sleep 5']
    if case.get('cleanup_fails') and e != 'hard_cleanup':
        ph['cleanup'].append('$ exit 4')
    elif case.get('rm_cwd_at_end') and e != 'hard_cleanup':
        # the very last thing the case does: the directory that is current when execution ends is removed
        ph['cleanup'] += ['dir -rel-act gone/deep', 'cd -rel-act gone/deep', '$ rmdir @[EXACTLY_ACT]@/gone/deep']
    # observation of the final state: first thing cleanup does (cleanup runs whenever a sandbox exists)
    ph['cleanup'].insert(0, '$ cp -r @[EXACTLY_RESULT]@ {OBS}/result-copy; cp -r @[EXACTLY_TMP]@ {OBS}/tmp-copy; '
                            'ls -A @[EXACTLY_ACT]@/.. | sort > {OBS}/ls1')
    if case.get('status'):
        conf = conf + ['status = ' + case['status']]
    lines = (['[conf]'] + conf + ['']) if conf else []
    for p in ['setup', 'act', 'before-assert', 'assert', 'cleanup']:
        lines.append('[%s]' % p)
        lines += ph[p]
        lines.append('')
    return '\n'.join(lines) + '\n', tmp_files, act_files


def _reached(case, phase):
    """Was the given phase's op list executed (completely)?"""
    e = case['ending']
    if case.get('act_mode') and not case['keep']:
        # --act: [before-assert] and [assert] are skipped
        if phase in ('before-assert', 'assert'):
            return False
        if e in ('fail', 'hard_before-assert', 'hard_assert'):
            e = 'pass'
    order = ['setup', 'act', 'before-assert', 'assert', 'cleanup']
    stop_after = {'pass': None, 'fail': None, 'hard_setup': 'setup', 'timeout_setup': 'setup',
                  'stdin_missing': 'setup', 'hard_act': 'setup', 'timeout_act': 'setup',
                  'hard_before-assert': 'before-assert', 'hard_assert': 'assert', 'hard_cleanup': None}[e]
    if phase == 'cleanup':
        return True
    if stop_after is None:
        return True
    return order.index(phase) <= order.index(stop_after)


def check_cli(case) -> Verdict:
    text, tmp_files, act_files = cli_build(case)
    e = case['ending']
    act_mode = bool(case.get('act_mode')) and not case['keep']
    keep = case['keep']
    argv = (['--keep'] if keep else []) + (['--act'] if act_mode else []) + ['t.case']
    exp_ident = {'pass': 'PASS', 'fail': 'FAIL'}.get(e, 'HARD_ERROR')
    if case.get('status') == 'FAIL':
        exp_ident = {'pass': 'XPASS', 'fail': 'XFAIL'}.get(e, 'HARD_ERROR')
    exp_idents = {exp_ident}
    if case.get('cleanup_fails'):
        # a failing cleanup step may be named instead of the earlier failure
        exp_idents = {'HARD_ERROR'} if e == 'pass' else {exp_ident, 'HARD_ERROR'}
    act_ran = e in ('pass', 'fail', 'hard_before-assert', 'hard_assert', 'hard_cleanup')
    with driver.Workspace() as ws:
        ws.write('t.case', text)
        ws.write('act-script.sh', 'exec {PY} {PROBE} {OBS}/act\n')
        ws.probe_cfg('act', exit=case['code'], stdout=case['out'], stderr=case['err'])
        r = driver.run_inproc(ws, argv, extra_env={'VERIF_C04_PRESET': 'preset'}, timeout_s=60)
        obs = {}
        for name in ('ls0', 'pwd0', 'ls1'):
            p = os.path.join(ws.obs, name)
            obs[name] = open(p).read() if os.path.exists(p) else None
        rc = os.path.join(ws.obs, 'result-copy')
        obs['result'] = driver.tree_snapshot(rc) if os.path.isdir(rc) else None
        tc = os.path.join(ws.obs, 'tmp-copy')
        obs['tmp'] = driver.tree_snapshot(tc) if os.path.isdir(tc) else None
        kept = None
        if keep and r.out.endswith('\n') and r.out.count('\n') == 1 and os.path.isdir(r.out[:-1]):
            kept = driver.tree_snapshot(r.out[:-1])
            obs['kept_root_entries'] = sorted(os.listdir(r.out[:-1]))
            obs['kept_modes'] = {}
            for j, (p_, op_) in enumerate(case['ops']):
                for rel in _CHMOD_TARGETS.get(op_, ()):
                    q = os.path.join(r.out[:-1], 'act', rel % ('f%d' % j))
                    try:
                        obs['kept_modes'][rel % ('f%d' % j)] = oct(os.lstat(q).st_mode & 0o777)
                    except OSError as ex:
                        obs['kept_modes'][rel % ('f%d' % j)] = type(ex).__name__
        sandboxes = r.sandboxes
        tmproot = ws.tmproot
    ident = (r.first_err_line if keep else r.first_out_line)
    polluting = [op for _, op in case['ops'] if op not in ('tmp_file', 'act_file')]
    labels = ['cli', 'cli-ending:' + e, 'cli-keep:%s' % keep] + ['cli-op:' + op for _, op in case['ops']]
    labels.append('cli-actor:' + case.get('actor', 'command'))
    if act_mode:
        labels.append('cli-mode:--act')
    rm_cwd = bool(case.get('rm_cwd_at_end')) and e != 'hard_cleanup' and not case.get('cleanup_fails')
    if rm_cwd:
        labels.append('cli-current-directory-removed-at-end')
        polluting.append('rm_cwd')
    suffix = {'root_file': '.log', 'root_link': '.lnk', 'root_dir': '.d'}
    strays_at_cleanup = sorted('stray-f%d%s' % (j, suffix[op]) for j, (p, op) in enumerate(case['ops'])
                               if op in ROOT_OPS and p != 'cleanup' and _reached(case, p))
    strays_at_end = sorted('stray-f%d%s' % (j, suffix[op]) for j, (p, op) in enumerate(case['ops'])
                           if op in ROOT_OPS and _reached(case, p))
    if case.get('cleanup_fails'):
        labels.append('cli-cleanup-also-fails')
    nontrivial = e != 'pass' or bool(polluting) or keep or bool(case.get('cleanup_fails'))
    detail = {'case_text': text, 'argv': argv, 'exit': r.exit_code, 'out': r.out[:300], 'err': r.err[:500],
              'sandboxes': sandboxes, 'cwd_changed': r.cwd_changed, 'env_diff': r.env_diff,
              'observed': {k: v for k, v in obs.items() if k != 'kept'}}

    def bad(what):
        return fail('cli/' + what, detail, labels=labels, nontrivial=nontrivial)

    if r.exception:
        detail['exception'] = r.exception
        return bad('exception-escaped')
    if r.timed_out:
        return Verdict(inconclusive=True, labels=labels)
    if act_mode:
        # --act: the outcome of the action passes through, [before-assert]/[assert] are skipped (what is printed is
        # C02's subject); the life cycle of the sandbox and of the process state is the same
        pass
    elif ident not in exp_idents:
        return bad('unexpected-verdict')
    if r.cwd_changed is not None:
        return bad('cwd-of-process-changed')
    if r.env_diff is not None:
        return bad('environ-of-process-changed')
    # layout when [setup] begins
    if obs['pwd0'] is None or obs['ls0'] is None:
        return bad('first-setup-instruction-did-not-run')
    sds = os.path.dirname(obs['pwd0'].strip())
    if os.path.basename(obs['pwd0'].strip()) != 'act' or os.path.dirname(sds) != tmproot:
        return bad('initial-cwd-is-not-act')
    top = sorted({l[2:].split('/')[0] for l in obs['ls0'].split('\n') if l.startswith('./')})
    if top != ['act', 'internal', 'result', 'tmp']:
        return bad('layout-at-start')
    nonint = [l for l in obs['ls0'].split('\n') if l.startswith('./') and not l.startswith('./internal')
              and l not in ('./act', './result', './tmp')]
    if nonint:
        return bad('act-tmp-result-not-empty-at-start')
    # state when cleanup begins
    if obs['ls1'] is None:
        return bad('cleanup-did-not-run')
    if obs['ls1'].split() != sorted(['act', 'internal', 'result', 'tmp'] + strays_at_cleanup):
        return bad('layout-at-cleanup')
    exp_tmp = {}
    for j, (p, op) in enumerate(case['ops']):
        if op == 'tmp_file' and p != 'cleanup' and _reached(case, p):
            exp_tmp['mine-f%d.txt' % j] = ['f', 'tmp-%d' % j]
    if obs['tmp'] != exp_tmp:
        detail['expected_tmp'] = exp_tmp
        return bad('tmp-dir-touched')
    if act_ran and act_mode:
        # --act: the outcome of the action goes to the std files of Exactly instead (C02); result/ gets nothing else
        if set(obs['result'] or {}) - {'exit-code', 'stderr', 'stdout'}:
            return bad('result-dir-entries')
    elif act_ran:
        res = obs['result'] or {}
        if sorted(res) != ['exit-code', 'stderr', 'stdout']:
            return bad('result-dir-entries')
        if res['stdout'] != ['f', case['out']] or res['stderr'] != ['f', case['err']]:
            return bad('result-output-contents')
        ec = res['exit-code'][1]
        if ec not in (str(case['code']), str(case['code']) + '\n'):
            return bad('result-exit-code-contents')
    # after the run
    if keep:
        if kept is None or [os.path.basename(r.out[:-1])] != sandboxes:
            return bad('kept-sandbox-not-reported-or-missing')
        if obs['kept_root_entries'] != sorted(['act', 'internal', 'result', 'tmp'] + strays_at_end):
            return bad('kept-sandbox-layout')
        for name, content in act_files.items():
            j = int(name.split('-f')[1].split('.')[0])
            p = case['ops'][j][0]
            if _reached(case, p) and kept.get(os.path.join('act', name)) != ['f', content]:
                return bad('kept-sandbox-not-intact')
        for name, content in tmp_files.items():
            j = int(name.split('-f')[1].split('.')[0])
            p = case['ops'][j][0]
            if _reached(case, p) and kept.get(os.path.join('tmp', name)) != ['f', content]:
                return bad('kept-sandbox-not-intact')
        if act_ran and kept.get('result/stdout') != ['f', case['out']]:
            return bad('kept-sandbox-result')
        # "left intact": what the case did to the permissions of its own files and directories is still there
        for j, (p_, op_) in enumerate(case['ops']):
            if op_ in _CHMOD_TARGETS and _reached(case, p_):
                for rel, off in _CHMOD_TARGETS[op_].items():
                    seen = obs['kept_modes'].get(rel % ('f%d' % j))
                    if seen is None or not seen.startswith('0o') or int(seen, 8) & off:
                        detail['bits_that_must_be_off'] = [rel % ('f%d' % j), oct(off)]
                        return bad('kept-sandbox-permissions-changed')
    else:
        if sandboxes:
            return bad('sandbox-not-removed')
    return Verdict(True, nontrivial=nontrivial, labels=labels,
                   sample={'case_text': text, 'argv': argv, 'verdict': ident, 'sandboxes_after': sandboxes})


_text = st.sampled_from(['', 'out\n', 'no newline at end', 'l1\nl2\n', '\n\n', 'é\n']) | \
        st.text(alphabet=st.sampled_from(list('ab \n')), max_size=8)


@st.composite
def cli_cases(draw, allow_timeouts=True):
    ops = draw(st.lists(st.tuples(st.sampled_from(PH), st.sampled_from(OPS)), max_size=5))
    endings = [x for x in ENDINGS if not x.startswith('timeout')]
    if allow_timeouts and draw(st.integers(0, 24)) == 0:
        ending = draw(st.sampled_from(['timeout_setup', 'timeout_act']))
    else:
        ending = draw(st.sampled_from(endings))
    return {'ops': [list(o) for o in ops], 'ending': ending, 'keep': draw(st.booleans()),
            'cleanup_fails': draw(st.integers(0, 3)) == 0,
            'rm_cwd_at_end': draw(st.integers(0, 4)) == 0,
            'actor': draw(st.sampled_from(['command', 'command', 'source', 'file'])),
            'act_mode': draw(st.integers(0, 3)) == 0,
            'code': draw(st.sampled_from([0, 1, 2, 7, 127, 255]) | st.integers(0, 255)),
            'out': draw(_text), 'err': draw(_text),
            'status': draw(st.sampled_from([None, None, None, 'FAIL', 'FAIL', 'PASS']))}


# ----------------------------------------------------------------------------------------------------
# (c) read-only sub-domain as an unprivileged user (root only; forked child drops privileges)
# ----------------------------------------------------------------------------------------------------
def check_readonly_as_nobody(case) -> Verdict:
    import json
    import pwd
    if os.getuid() != 0:
        return Verdict(inconclusive=True, labels=['nobody:not-root'])
    try:
        nobody = pwd.getpwnam('nobody')
    except KeyError:
        return Verdict(inconclusive=True, labels=['nobody:no-such-user'])
    # warm up every lazy import as root (the interpreter's files are not readable by nobody)
    with driver.Workspace() as ws0:
        ws0.write('t.case', '[setup]\nfile f = "x"\n$ true\n[act]\n$ true\n[assert]\nexit-code == 0\n')
        driver.run_inproc(ws0, ['t.case'])
    ws = driver.Workspace()
    try:
        text, tmp_files, act_files = cli_build(case)
        ws.write('t.case', text)
        ws.probe_cfg('act', exit=case['code'], stdout=case['out'], stderr=case['err'])
        for dp, dns, fns in os.walk(ws.root):
            os.chown(dp, nobody.pw_uid, nobody.pw_gid)
            for fn in fns:
                os.chown(os.path.join(dp, fn), nobody.pw_uid, nobody.pw_gid)
        for d in (os.path.dirname(ws.root), os.path.dirname(os.path.dirname(ws.root))):
            os.chmod(d, 0o755)
        rfd, wfd = os.pipe()
        pid = os.fork()
        if pid == 0:
            try:
                os.close(rfd)
                os.setgroups([])
                os.setgid(nobody.pw_gid)
                os.setuid(nobody.pw_uid)
                os.environ['HOME'] = ws.root
                r = driver.run_inproc(ws, (['--keep'] if case['keep'] else []) + ['t.case'])
                os.write(wfd, json.dumps({'exit': r.exit_code, 'out': r.out, 'err': r.err[:800],
                                          'sandboxes': r.sandboxes, 'exception': r.exception,
                                          'cwd_changed': r.cwd_changed}).encode())
            finally:
                os._exit(0)
        os.close(wfd)
        data = b''
        while True:
            chunk = os.read(rfd, 65536)
            if not chunk:
                break
            data += chunk
        os.close(rfd)
        os.waitpid(pid, 0)
        sandboxes_after = sorted(os.listdir(ws.tmproot))
    finally:
        ws.close()
    if not data:
        return Verdict(inconclusive=True, labels=['nobody:child-failed'])
    obs = json.loads(data.decode())
    e = case['ending']
    exp_ident = {'pass': 'PASS', 'fail': 'FAIL'}.get(e, 'HARD_ERROR')
    ident = (obs['err'].split('\n', 1)[0] if case['keep'] else obs['out'].split('\n', 1)[0])
    has_ro = any(op in ('chmod_dir', 'chmod_file', 'chmod_noperm') for _, op in case['ops'])
    labels = ['nobody', 'nobody-ending:' + e, 'nobody-readonly:%s' % has_ro, 'nobody-keep:%s' % case['keep']]
    detail = {'case_text': text, 'obs': obs, 'sandboxes_after': sandboxes_after}
    if obs.get('exception'):
        return fail('nobody/exception-escaped', detail, labels=labels, nontrivial=has_ro)
    if ident not in (exp_ident,):
        # a read-only current directory may legitimately make later instructions fail: not this property's business
        return Verdict(inconclusive=True, labels=labels + ['nobody:other-verdict'])
    if not case['keep'] and sandboxes_after:
        ro_dir = any(op in ('chmod_dir', 'chmod_noperm') and _reached(case, p) for p, op in case['ops'])
        if ro_dir:
            return Verdict(ok=False, known='KF-C04-1', bucket='nobody/sandbox-not-removed', detail=detail,
                           labels=labels, nontrivial=True)
        return fail('nobody/sandbox-not-removed', detail, labels=labels, nontrivial=has_ro)
    if case['keep'] and len(sandboxes_after) != 1:
        return fail('nobody/kept-sandbox-missing', detail, labels=labels, nontrivial=has_ro)
    return Verdict(True, nontrivial=has_ro, labels=labels, sample={'case_text': text, 'verdict': ident})


@st.composite
def readonly_cases(draw):
    c = draw(cli_cases(allow_timeouts=False))
    p = draw(st.sampled_from(PH))
    c['ops'] = c['ops'][:3] + [[p, draw(st.sampled_from(['chmod_dir', 'chmod_file', 'chmod_dir', 'chmod_noperm']))]]
    # a read-only *current* directory is outside this sub-domain: keep cwd in act/
    c['ops'] = [o for o in c['ops'] if not o[1].startswith('cd_')]
    # /venv/bin/python is not executable by nobody: the action is a shell command without output
    c['shell_act'] = True
    c['out'] = ''
    c['err'] = ''
    return c


SUBS = [
    Sub('plan_lifecycle', check_plan, enumerate=enum_plans, exhaustive=True),
    Sub('plan_lifecycle_random', check_plan,
        strategy=lambda tier: c01_protocol.plans(max_n=3), budget={'quick': 2000, 'thorough': 60000}),
    Sub('cli_lifecycle', check_cli, strategy=lambda tier: cli_cases(), budget={'quick': 1500, 'thorough': 40000}),
    Sub('cli_readonly_as_nobody', check_readonly_as_nobody, strategy=lambda tier: readonly_cases(),
        budget={'quick': 160, 'thorough': 2000}),
]
