"""C15 - Directory trees: populating from a FILE-LIST and matching directory contents.

Sub-checks
  populate    `dir PATH [=|+=] FILES-SOURCE` with generated FILE-LIST ASTs (clashes, appends, nesting,
              dir-contents-of, Posix spellings, forbidden names): the kept sandbox must hold exactly the tree a
              reference list interpreter denotes (or its state at the first failing entry + HARD_ERROR), forbidden
              names are rejected, nothing appears outside the populated directory.
  match       trees with files / directories / symbolic links built by the harness under home/tree; generated
              files-matcher and file-matcher ASTs run through `dir-contents -rel-act-home tree : E` and
              `exists [!] -rel-home tree/p : E`; verdict vs the reference evaluator.
  depth_grid  enumerated: fixed trees x every -min-depth/-max-depth pair x pruning/selection x exact counts.
  roundtrip   populate from a valid list, then `matches -full` of the derived condition (PASS) and with one
              entry changed (FAIL).

Oracle: vlib/ref/c15_tree.py, written from `help syntax FILES-SOURCE|FILES-MATCHER|FILE-MATCHER|FILES-CONDITION|
GLOB-PATTERN`, `help setup dir`, `help assert dir-contents`, `help assert exists`.
"""
import os

from vlib import driver
from vlib.gen import c15_gen as gen
from vlib.gen import c15_render as render
from vlib.ref import c15_tree as ref
from vlib.runner import Sub, Verdict, fail, case_hash

PROPERTY_ID = 'C15'
LEVEL = 'exploration'
RULE = ('populate: FILE-LIST ASTs (<= 8 entries per list, nesting <= 3; file/dir with nothing, =, +=, nested '
        'lists, dir-contents-of, parentheses; names plain, nested, Posix spellings, absolute, with `..`; 88 % of the '
        'entries are drawn valid against the generator\'s model of the directory, the rest at random => clashes, '
        'appends to missing files) under `dir d`, `dir d = L`, `dir d = L0` + `dir d += L`, in setup / '
        'before-assert / assert / cleanup; non-trivial = list with >= 2 entries or nesting; '
        'match: trees (<= 10 nodes, 14 in the thorough tier; <= 4 levels) of regular files, directories, symbolic links (to file, to '
        'directory, to an ancestor, dangling, to a link; cyclic trees only with -max-depth) x files-matcher ASTs of '
        'depth <= 3 over is-empty, num-files, matches [-full], every/any file, -selection, -with-pruned, '
        '-recursive with min/max depth 0..4, file matchers type, name/stem/suffix/suffixes/path glob and regex, '
        'contents, dir-contents, ! && || ( ); a third of the cases use a `matches` condition derived from the actual '
        'set of files with at most one entry changed; non-trivial = (tree has >= 2 levels or a symbolic link) and '
        '(the expression uses -recursive, -selection, -with-pruned or matches) and the reference value is a '
        'single outcome; depth_grid: 3 fixed trees (plain 4 levels, links, cyclic) x min in {-,0..4} x max in {-,0..4} x '
        '6 selection/pruning wrappers x (num-files == n, == n+1, matches -full exact, matches -full one missing), '
        'enumerated; roundtrip: valid lists, derived `matches -full` conditions, 10 variants; '
        'distinct = distinct case')
ASSUMPTIONS = [
    'FILE-NAMEs containing ":" or ";" may be refused (VALIDATION_ERROR, explicit message) or created: the manual '
    'only forbids absolute names and `..`, the program deliberately refuses other platforms\' path separators too',
    'the order in which the files of a set are visited is unspecified: when one file gives HARD_ERROR and another '
    'decides a quantifier / `matches`, both HARD_ERROR and the decided verdict are accepted',
    'HARD_ERROR (or a value that depends on an ambiguity below) of a -selection / -with-pruned matcher on some file: '
    'any outcome is accepted (the manual does not say which files such a matcher is applied to lazily)',
    'name/stem/suffix(es)/path ~ REGEX: the manual does not say search or full match - a leaf on which the two '
    'differ has both values; most generated regexes are anchored',
    '`path`: for a file reached through a symbolic link the absolute path with and without the link resolved are '
    'both accepted; path GLOB-PATTERNs are generated only as `*/literal-components` (pathlib-style and '
    'fnmatch-style readings agree there)',
    'FILE-NAME "must not contain `..`": names with `..` as a path component must be rejected; names that merely '
    'contain the two characters (a..b) may be rejected or created',
    'dir-contents-of into a directory that already has an entry of the same name: HARD_ERROR or PASS accepted, '
    'tree not compared (the manual is silent); sources contain no symbolic links',
    'at the first failing entry the directory holds the effect of the entries before it ("Files are '
    'created/modified in the order listed") and of the failing entry\'s own completed steps (a `dir N = {...}` '
    'whose nested list fails has created N and the nested prefix)',
    'rejection of a forbidden name / missing dir-contents-of source = VALIDATION_ERROR, SYNTAX_ERROR or HARD_ERROR',
    'file names are drawn from a fixed safe alphabet (quoting of odd characters is C09\'s subject)',
]

REJECTION = ('VALIDATION_ERROR', 'SYNTAX_ERROR', 'HARD_ERROR')
# a case normally takes ~10 ms; the alarm only protects the harness (e.g. a mutant that walks a cyclic tree for ever)
# and yields `inconclusive`, never a violation
CASE_TIMEOUT_S = float(os.environ.get('VERIF_C15_TIMEOUT', '4'))


# ======================================================================================================
# helpers
# ======================================================================================================
def _write_sources(ws):
    for sname, files in gen.SOURCES.items():
        os.makedirs(os.path.join(ws.home, sname), exist_ok=True)
        for p, text in files.items():
            full = os.path.join(ws.home, sname, p)
            if text is None:
                os.makedirs(full, exist_ok=True)
            else:
                os.makedirs(os.path.dirname(full), exist_ok=True)
                with open(full, 'w', newline='') as f:
                    f.write(text)
    with open(os.path.join(ws.home, 'src-is-a-file'), 'w') as f:
        f.write('x')


def _sources_model():
    return {k: ref.tree_of_files(v) for k, v in gen.SOURCES.items()}


def _bad_sources(fs):
    out = []
    if fs['k'] == 'copy':
        if fs['src'] not in gen.SOURCES:
            out.append(fs['src'])
    elif fs['k'] == 'par':
        out += _bad_sources(fs['x'])
    else:
        for e in fs['entries']:
            if e['t'] == 'dir' and e.get('src') is not None:
                out += _bad_sources(e['src'])
    return out


def _dotdot_substring_names(fs):
    out = []
    if fs['k'] == 'list':
        for e in fs['entries']:
            if '..' in e['name'] and '..' not in e['name'].split('/'):
                out.append(e['name'])
            if e['t'] == 'dir' and e.get('src') is not None:
                out += _dotdot_substring_names(e['src'])
    elif fs['k'] == 'par':
        out += _dotdot_substring_names(fs['x'])
    return out


def _pathsep_names(fs):
    out = []
    if fs['k'] == 'list':
        for e in fs['entries']:
            if ':' in e['name'] or ';' in e['name']:
                out.append(e['name'])
            if e['t'] == 'dir' and e.get('src') is not None:
                out += _pathsep_names(e['src'])
    elif fs['k'] == 'par':
        out += _pathsep_names(fs['x'])
    return out


def _count_entries(fs):
    if fs['k'] == 'par':
        return _count_entries(fs['x'])
    if fs['k'] != 'list':
        return 1, 1
    n, depth = 0, 1
    for e in fs['entries']:
        n += 1
        if e['t'] == 'dir' and e.get('src') is not None:
            n2, d2 = _count_entries(e['src'])
            n += n2
            depth = max(depth, d2 + 1)
    return n, depth


def _entry_labels(fs, out):
    if fs['k'] == 'par':
        out.add('fs:parentheses')
        return _entry_labels(fs['x'], out)
    if fs['k'] == 'copy':
        out.add('fs:dir-contents-of')
        return out
    if not fs['entries']:
        out.add('fs:empty-list')
    for e in fs['entries']:
        out.add('entry:%s%s' % (e['t'], e.get('op') or ''))
        n = e['name']
        if n.startswith('/') or n.startswith('{'):
            out.add('name:absolute')
        elif '..' in n.split('/'):
            out.add('name:dotdot')
        elif '..' in n:
            out.add('name:dotdot-substring')
        elif ':' in n or ';' in n:
            out.add('name:with-colon-or-semicolon')
        elif n in gen.ODD:
            out.add('name:posix-spelling')
        elif '/' in n:
            out.add('name:nested')
        else:
            out.add('name:plain')
        if e['t'] == 'dir' and e.get('src') is not None:
            _entry_labels(e['src'], out)
    return out


def _ident_keep(r):
    return r.first_err_line


# ======================================================================================================
# (a) populate
# ======================================================================================================
def populate_text(case):
    """-> (case text, list of (name, op, fs) top-level instructions as FILE-SPEC like entries)"""
    top, path = case['top'], case['path']
    instrs = []
    if top == 'create':
        instrs.append({'t': 'dir', 'name': path, 'op': '=', 'src': case['fs']})
    elif top == 'plain':
        instrs.append({'t': 'dir', 'name': path, 'op': None})
    elif top == 'append':
        instrs.append({'t': 'dir', 'name': path, 'op': '=', 'src': case['fs0']})
        instrs.append({'t': 'dir', 'name': path, 'op': '+=', 'src': case['fs']})
    elif top == 'append-missing':
        instrs.append({'t': 'dir', 'name': path, 'op': '+=', 'src': case['fs']})
    elif top == 'create-existing':
        instrs.append({'t': 'dir', 'name': path, 'op': None})
        instrs.append({'t': 'dir', 'name': path, 'op': '=', 'src': case['fs']})
    else:
        raise ValueError(top)
    sib = {'t': 'dir', 'name': 'sib', 'op': '=',
           'src': {'k': 'list', 'entries': [{'t': 'file', 'name': 'keep', 'op': '=', 'text': 'k'}]}}
    lines = ['[setup]'] + render.entry_lines(sib, '')
    if case['phase'] != 'setup':
        lines.append('[%s]' % case['phase'])
    for ins in instrs:
        lines.extend(render.entry_lines(ins, ''))
    return '\n'.join(lines) + '\n', [sib] + instrs


def check_populate(case) -> Verdict:
    text, instrs = populate_text(case)
    all_fs = [i['src'] for i in instrs[1:] if i.get('src') is not None]
    forbidden = [n for fs in all_fs for n in ref.rejected_names(fs)]
    bad_src = [n for fs in all_fs for n in _bad_sources(fs)]
    dd_sub = [n for fs in all_fs for n in _dotdot_substring_names(fs)]
    pathsep = [n for fs in all_fs for n in _pathsep_names(fs)]

    labels = set(['top:' + case['top'], 'phase:' + case['phase'], 'path:' + case['path']])
    n_entries, depth = 0, 0
    for fs in all_fs:
        _entry_labels(fs, labels)
        n, d = _count_entries(fs)
        n_entries += n
        depth = max(depth, d)
    labels.add('nesting:%d' % depth)
    nontrivial = n_entries >= 2 or depth >= 2

    # ---- expectation -----------------------------------------------------------------------------
    # sequential reading: entries are applied in order; a forbidden name / missing source fails where it stands
    # (if the program only finds it there, everything before it has been applied and nothing after it)
    act = ref.new_dir()
    failure = None
    try:
        ref.populate(act, {'k': 'list', 'entries': instrs}, _sources_model())
    except ref.PopulateFailure as ex:
        failure = ex
    except ref.Rejected as ex:
        failure = ref.PopulateFailure('forbidden name reached: %s' % ex)
    if forbidden or bad_src:
        exp_idents = set(REJECTION)
        exp_class = 'rejected'
    elif failure is not None:
        exp_idents = {'HARD_ERROR'} | ({'PASS'} if failure.loose else set())
        exp_class = 'hard-error-loose' if failure.loose else 'hard-error'
    else:
        exp_idents = {'PASS'}
        exp_class = 'pass'
    if dd_sub and exp_class in ('pass', 'hard-error'):
        exp_idents |= set(REJECTION)
    labels.add('expect:' + exp_class)

    # ---- run -------------------------------------------------------------------------------------
    with driver.Workspace() as ws:
        _write_sources(ws)
        ws.write('t.case', text)
        home_before = driver.tree_snapshot(ws.home)
        r = driver.run_inproc(ws, ['--keep', 't.case'], timeout_s=CASE_TIMEOUT_S)
        home_after = driver.tree_snapshot(ws.home)
        root_listing = sorted(os.listdir(ws.root))
        ident = _ident_keep(r)
        act_tree = tmp_tree = None
        if len(r.sandboxes) == 1:
            sb = os.path.join(ws.tmproot, r.sandboxes[0])
            act_tree = driver.tree_snapshot(os.path.join(sb, 'act'))
            tmp_tree = driver.tree_snapshot(os.path.join(sb, 'tmp'))
        case_text = ws.subst(text)

    obs = {'ident': ident, 'exit': r.exit_code, 'err': r.err[:700], 'act_tree': act_tree}

    def bad(what, **extra):
        d = {'what': what, 'expected_identifiers': sorted(exp_idents), 'observed': obs, 'case_text': case_text}
        d.update(extra)
        return fail('populate/%s/%s/%s' % (what, exp_class, ident), d, labels=sorted(labels),
                    nontrivial=nontrivial)

    if r.timed_out:
        return Verdict(True, inconclusive=True, labels=sorted(labels | {'timeout'}))
    if r.exception:
        return bad('escaped-exception', exception=r.exception)
    # nothing outside, whatever happened
    if home_after != home_before:
        return bad('home-directory-changed',
                   diff=sorted(set(home_after) ^ set(home_before)) or 'contents differ')
    if root_listing != ['home', 'obs', 'tmproot']:
        return bad('created-outside-the-sandbox', listing=root_listing)
    if tmp_tree:
        return bad('created-in-tmp-dir', tmp=tmp_tree)
    if pathsep and not forbidden and not bad_src:
        # A FILE-NAME with ':' or ';' is refused by the program with an explicit message ("FILE-NAME must not contain
        # path separators (':',';')").  The manual only mentions absolute names and `..`, but the refusal is a
        # deliberate, explained restriction and the property does not promise that such names are accepted:
        # both outcomes are accepted (refused before anything is created, or created as denoted).
        if ident == 'VALIDATION_ERROR' and act_tree is None and not r.created_dirs:
            return Verdict(True, labels=sorted(labels | {'pathsep-name-refused'}), nontrivial=nontrivial)
    if ident not in exp_idents:
        return bad('identifier')
    labels.add('ident:' + ident)
    if exp_class == 'rejected' or ident in ('VALIDATION_ERROR', 'SYNTAX_ERROR'):
        if ident in ('VALIDATION_ERROR', 'SYNTAX_ERROR'):
            if act_tree is not None:
                return bad('sandbox-exists-after-' + ident)
            return Verdict(True, nontrivial=nontrivial, labels=sorted(labels))
        # HARD_ERROR, i.e. rejected (or failed for another reason) while executing: falls through to the
        # comparison with the state at the first failing entry
        if failure is None:
            return bad('hard-error-without-a-failing-entry')
    if act_tree is None:
        return bad('no-kept-sandbox')
    if failure is not None and failure.loose:
        if act_tree.get('sib/keep') != ['f', 'k']:
            return bad('sibling-changed')
        return Verdict(True, nontrivial=False, labels=sorted(labels))
    expected_tree = ref.flatten(act)
    if act_tree != expected_tree:
        diff = {p: [expected_tree.get(p), act_tree.get(p)] for p in sorted(set(expected_tree) | set(act_tree))
                if expected_tree.get(p) != act_tree.get(p)}
        return bad('tree-differs', expected_tree=expected_tree, diff_expected_vs_observed=diff,
                   ref_failure=failure.why if failure else None)
    return Verdict(True, nontrivial=nontrivial, labels=sorted(labels))


# ======================================================================================================
# (b) match
# ======================================================================================================
def build_tree(root, nodes):
    os.makedirs(root)
    for n in nodes:
        p = os.path.join(root, n['p'])
        if n['t'] == 'd':
            os.mkdir(p)
        elif n['t'] == 'f':
            with open(p, 'w', encoding='utf-8', newline='') as f:
                f.write(n['text'])
        else:
            os.symlink(n['target'], p)


class _GuardedResult:
    def __init__(self, d):
        self.out = d.get('out', '')
        self.err = d.get('err', '')
        self.exit_code = d.get('exit')
        self.exception = d.get('exception')
        self.timed_out = d.get('timed_out', False)

    @property
    def first_out_line(self):
        return self.out.split('\n', 1)[0] if self.out else ''


def _run_guarded(ws, argv, deadline_s):
    """Run Exactly in a forked child that is killed at the deadline.  Used for trees with symbolic link cycles:
    a defect in the depth limit makes the walk of such a tree endless and memory hungry, and the in-process alarm
    of the driver can get lost (an exception raised inside a gc callback is ignored)."""
    import json
    import resource
    import select
    import signal
    import time
    rfd, wfd = os.pipe()
    pid = os.fork()
    if pid == 0:
        try:
            os.close(rfd)
            try:
                resource.setrlimit(resource.RLIMIT_AS, (3 << 30, 3 << 30))
            except (ValueError, OSError):
                pass
            r = driver.run_inproc(ws, argv, timeout_s=deadline_s)
            data = json.dumps({'out': r.out[:20000], 'err': r.err[:4000], 'exit': r.exit_code,
                               'exception': r.exception, 'timed_out': r.timed_out}).encode('utf-8')
            while data:
                n = os.write(wfd, data)
                data = data[n:]
        except BaseException:
            pass
        finally:
            os._exit(0)
    os.close(wfd)
    buf = b''
    end = time.time() + deadline_s + 1.5
    finished = False
    while True:
        left = end - time.time()
        if left <= 0:
            break
        ready = select.select([rfd], [], [], left)
        if not ready[0]:
            break
        chunk = os.read(rfd, 65536)
        if not chunk:
            finished = True
            break
        buf += chunk
    os.close(rfd)
    if not finished:
        try:
            os.kill(pid, signal.SIGKILL)
        except OSError:
            pass
    os.waitpid(pid, 0)
    if not finished or not buf:
        return _GuardedResult({'timed_out': True})
    return _GuardedResult(json.loads(buf.decode('utf-8')))


def match_text(case):
    path = 'tree' + ('/' + case['path'] if case['path'] else '')
    if case['via'] == 'dc':
        line = 'dir-contents -rel-act-home %s : %s%s' % (path, render.rec_opts(case.get('rec')),
                                                        render.files_matcher(case['expr'], 'full'))
    else:
        line = 'exists %s-rel-home %s' % ('! ' if case.get('neg') else '', path)
        if case.get('expr') is not None:
            line += ' : ' + render.file_matcher(case['expr'], 'full')
    return '[assert]\n' + line + '\n'


def match_expected(case, abs_prefix):
    """-> frozenset of admissible outcomes"""
    tree = ref.LinkTree(case['tree'])
    ev = ref.Evaluator(tree, abs_prefix, max_files=3000)
    access = tuple(case['path'].split('/')) if case['path'] else ()
    if case['via'] == 'dc':
        r = tree.resolve(access)
        if r is None or r[0][0] != 'd':
            return ref.ONLY_H
        return ev.fsm(case['expr'], ref.Model(access, case.get('rec')))
    node, _ = tree.lstat(access)
    neg = bool(case.get('neg'))
    if node is None:
        return ref.of_bool(neg)
    if case.get('expr') is None:
        return ref.of_bool(not neg)
    v = ev.fm(case['expr'], access)
    return ref.o_not(v) if neg else v


_OUTCOME = {'PASS': ref.T, 'FAIL': ref.F, 'HARD_ERROR': ref.H}
_MODEL_KINDS = ('sel', 'prune', 'matches')


def _has_rec(case):
    if case.get('rec') is not None:
        return True

    def walk(m):
        if isinstance(m, dict):
            if m.get('k') == 'dircontents' and m.get('rec') is not None:
                return True
            return any(walk(v) for v in m.values())
        if isinstance(m, list):
            return any(walk(v) for v in m)
        return False

    return walk(case.get('expr'))


def _rec_label(rec):
    if rec is None:
        return 'depth-opts:non-recursive'
    return 'depth-opts:recursive%s%s' % ('+min' if rec.get('min') is not None else '',
                                         '+max' if rec.get('max') is not None else '')


def _match_labels(case):
    labels = set(['via:' + ('exists' if case['via'] == 'ex' else 'dir-contents' + ('/exact' if case.get('exact')
                                                                                   else ''))])
    if case.get('repeated'):
        labels.add('family:one-matcher-applied-to-several-directories')
    kinds = ref.collect_kinds(case.get('expr'), set())
    for k in kinds:
        if k not in ('par', 'const', 'numlines', 'equals'):
            labels.add('matcher:' + k)
    if case['via'] == 'dc':
        labels.add(_rec_label(case.get('rec')))

    def walk(m):
        if isinstance(m, dict):
            if m.get('k') == 'dircontents':
                labels.add('nested-' + _rec_label(m.get('rec')))
            if m.get('k') == 'matches':
                labels.add('matches:full' if m.get('full') else 'matches:non-full')
            if m.get('k') in ('name', 'stem', 'suffix', 'suffixes', 'path'):
                labels.add('pattern:' + ('glob' if 'glob' in m else 'regex-ignore-case' if m.get('ic') else 'regex'))
            if m.get('k') == 'type':
                labels.add('type:' + m['v'])
            for v in m.values():
                walk(v)
        elif isinstance(m, list):
            for v in m:
                walk(v)

    walk(case.get('expr'))
    levels = 0
    for n in case['tree']:
        levels = max(levels, n['p'].count('/') + 1)
        if n['t'] == 'l':
            labels.add('link:' + n.get('lk', 'other'))
    labels.add('tree-levels:%d' % levels)
    has_link = any(n['t'] == 'l' for n in case['tree'])
    interesting_tree = levels >= 2 or has_link
    interesting_expr = _has_rec(case) or bool(kinds & set(_MODEL_KINDS))
    return labels, interesting_tree and interesting_expr


def check_match(case) -> Verdict:
    labels, interesting = _match_labels(case)
    text = match_text(case)
    with driver.Workspace() as ws:
        abs_prefix = os.path.join(ws.home, 'tree')
        try:
            exp = match_expected(case, abs_prefix)
        except ref.TooBig:
            return Verdict(True, inconclusive=True, labels=sorted(labels | {'verdict:too-big'}))
        build_tree(abs_prefix, case['tree'])
        ws.write('t.case', text)
        if gen.is_cyclic(case['tree']):
            labels.add('tree:cyclic')
            r = _run_guarded(ws, ['t.case'], CASE_TIMEOUT_S)
        else:
            r = driver.run_inproc(ws, ['t.case'], timeout_s=CASE_TIMEOUT_S)
    if r.timed_out:
        return Verdict(True, inconclusive=True, labels=sorted(labels | {'verdict:timeout'}))
    ident = r.first_out_line
    got = _OUTCOME.get(ident)
    if len(exp) == 1:
        labels.add('verdict:' + {'T': 'PASS', 'F': 'FAIL', 'H': 'HARD_ERROR'}[next(iter(exp))])
    else:
        labels.add('verdict:several-admissible')
    nontrivial = interesting and len(exp) == 1
    if r.exception or got is None or got not in exp or r.out.count('\n') != 1:
        what = 'escaped-exception' if r.exception else 'unexpected-identifier' if got is None else 'verdict'
        kinds = sorted(l[8:] for l in labels if l.startswith('matcher:'))
        detail = {'what': what, 'expected_one_of': sorted(exp), 'observed': ident, 'exit': r.exit_code,
                  'case_text': text, 'tree': case['tree'], 'err': r.err[:1500], 'exception': r.exception}
        return fail('match/%s/exp-%s/got-%s' % (what, ''.join(sorted(exp)), ident), detail, labels=sorted(labels),
                    nontrivial=nontrivial)
    return Verdict(True, nontrivial=nontrivial, labels=sorted(labels))


# ---- enumerated depth grid ------------------------------------------------------------------------
GRID_TREES = {
    'plain4': [
        {'p': 'a', 't': 'd'}, {'p': 'a/b', 't': 'd'}, {'p': 'a/b/ab', 't': 'd'}, {'p': 'a/b/ab/x.y', 't': 'f',
                                                                                   'text': 'x'},
        {'p': 'a/a.txt', 't': 'f', 'text': ''}, {'p': 'e', 't': 'd'}, {'p': 'b.txt', 't': 'f', 'text': 'l1\nl2\n'},
        {'p': 'a/b/b.txt', 't': 'f', 'text': 'x\n'}, {'p': 'e/a', 't': 'd'}, {'p': 'e/a/b', 't': 'f', 'text': ''},
    ],
    'links': [
        {'p': 'a', 't': 'd'}, {'p': 'a/b', 't': 'd'}, {'p': 'a/b/a.txt', 't': 'f', 'text': 'x'},
        {'p': 'a/b/e', 't': 'd'}, {'p': 'a/b/e/f.', 't': 'f', 'text': ''},
        {'p': 'ab', 't': 'l', 'target': 'a/b', 'lk': 'dir'}, {'p': 'b.d', 't': 'l', 'target': 'nowhere',
                                                               'lk': 'dangling'},
        {'p': 'a/A', 't': 'l', 'target': 'b/a.txt', 'lk': 'file'}, {'p': 'e', 't': 'd'},
        {'p': 'e/x.y', 't': 'l', 'target': '../ab', 'lk': 'link'},
    ],
    'cyclic': [
        {'p': 'a', 't': 'd'}, {'p': 'a/b', 't': 'f', 'text': 'abc'}, {'p': 'a/e', 't': 'l', 'target': '..',
                                                                        'lk': 'anc'},
        {'p': 'b', 't': 'd'}, {'p': 'b/a', 't': 'l', 'target': '../a', 'lk': 'dir'},
    ],
}


def enum_grid(tier):
    for tname in sorted(GRID_TREES):
        nodes = GRID_TREES[tname]
        tree = ref.LinkTree(nodes)
        for mn in [None, 0, 1, 2, 3, 4]:
            for mx in [None, 0, 1, 2, 3, 4]:
                if tname == 'cyclic' and mx is None:
                    continue
                rec = {'min': mn, 'max': mx}
                for templ in range(6):
                    wrap = [lambda m: m,
                            lambda m: {'k': 'sel', 'fm': {'k': 'type', 'v': 'file'}, 'm': m},
                            lambda m: {'k': 'prune', 'fm': {'k': 'name', 'glob': 'b'}, 'm': m},
                            lambda m: {'k': 'sel', 'fm': {'k': 'type', 'v': 'dir'},
                                       'm': {'k': 'prune', 'fm': {'k': 'name', 're': '^[be]$', 'ic': False}, 'm': m}},
                            lambda m: {'k': 'prune', 'fm': {'k': 'name', 'glob': 'a'},
                                       'm': {'k': 'prune', 'fm': {'k': 'name', 'glob': 'ab'}, 'm': m}},
                            lambda m: {'k': 'sel', 'fm': {'k': 'not', 'x': {'k': 'type', 'v': 'symlink'}},
                                       'm': {'k': 'sel', 'fm': {'k': 'name', 'glob': '*[.b]*'}, 'm': m}},
                            ][templ]
                    # the exact set under this model, from the reference
                    probe = wrap({'k': 'empty'})
                    sels, prunes = [], []
                    m = probe
                    while m['k'] in ('sel', 'prune'):
                        (sels if m['k'] == 'sel' else prunes).append(m['fm'])
                        m = m['m']
                    ev = ref.Evaluator(tree, '/x/tree', max_files=5000)
                    files = ev.files(ref.Model((), rec, tuple(prunes), tuple(sels)))
                    n = len(files)
                    fc = [['/'.join(f), None] for f in sorted(files)]
                    for off in (0, 1):
                        yield {'tree': nodes, 'via': 'dc', 'path': '', 'rec': rec, 'grid': tname,
                               'expr': wrap({'k': 'numfiles', 'op': '==', 'n': n + off})}
                    yield {'tree': nodes, 'via': 'dc', 'path': '', 'rec': rec, 'grid': tname,
                           'expr': wrap({'k': 'matches', 'full': True, 'fc': fc, 'inline': False})}
                    if prunes:
                        # one model, two operands: the first looks at every file of the unpruned model, the second
                        # derives the pruned model from the same model
                        yield {'tree': nodes, 'via': 'dc', 'path': '', 'rec': rec, 'grid': tname,
                               'expr': {'k': 'and', 'xs': [{'k': 'numfiles', 'op': '>=', 'n': 0},
                                                           wrap({'k': 'numfiles', 'op': '==', 'n': n})]}}
                        yield {'tree': nodes, 'via': 'dc', 'path': '', 'rec': rec, 'grid': tname,
                               'expr': {'k': 'or', 'xs': [{'k': 'every', 'fm': {'k': 'const', 'v': False}},
                                                          {'k': 'not', 'x': wrap({'k': 'numfiles', 'op': '==',
                                                                                  'n': n})}]}}
                    if fc:
                        yield {'tree': nodes, 'via': 'dc', 'path': '', 'rec': rec, 'grid': tname,
                               'expr': wrap({'k': 'matches', 'full': True, 'fc': fc[1:], 'inline': False})}


# ======================================================================================================
# (c) round trip
# ======================================================================================================
def roundtrip_build(case):
    """-> None (list not valid) | (case text, extra home files, expected 'PASS'|'FAIL', variant used)"""
    d = ref.new_dir()
    try:
        if ref.rejected_names(case['fs']):
            return None
        ref.populate(d, case['fs'], _sources_model())
    except (ref.PopulateFailure, ref.Rejected):
        return None
    flat = ref.flatten(d)
    variant = case['variant']
    pick = case['pick']
    extra_files = {}

    def matcher_for(p, node, wrong=None):
        if not case['with_matchers'] and wrong is None:
            return None
        if node[0] == 'd':
            return {'k': 'type', 'v': 'dir' if wrong != 'type' else 'file'}
        if wrong == 'type':
            return {'k': 'type', 'v': 'dir'}
        text = node[1] + ('X' if wrong == 'text' else '')
        if '\n' in text or '"' in text:
            fn = 'exp/e%d' % len(extra_files)
            extra_files[fn] = text
            tm = {'k': 'equals', 's': text, 'file': fn}
        else:
            tm = {'k': 'equals', 's': text}
        return {'k': 'and', 'xs': [{'k': 'type', 'v': 'file'}, {'k': 'contents', 'tm': tm}]}

    paths = sorted(flat)
    rec = {'min': None, 'max': None}
    full = True
    expected = 'PASS'
    if variant.startswith('nonrec'):
        paths = [p for p in paths if '/' not in p]
        rec = None
    if variant in ('drop', 'nonrec-drop', 'nonfull-drop', 'retype', 'retext') and not paths:
        variant = 'exact'
    files = [p for p in paths if flat[p][0] == 'f']
    if variant == 'retext' and not files:
        variant = 'retype'
    fc = []
    if variant in ('exact', 'nonrec'):
        fc = [[p, matcher_for(p, flat[p])] for p in paths]
    elif variant in ('drop', 'nonrec-drop', 'nonfull-drop'):
        victim = paths[pick % len(paths)]
        fc = [[p, matcher_for(p, flat[p])] for p in paths if p != victim]
        if variant == 'nonfull-drop':
            full = False
        else:
            expected = 'FAIL'
    elif variant == 'add':
        extra = ['zz-extra', 'a/zz-extra', 'zz/extra'][pick % 3]
        fc = [[p, matcher_for(p, flat[p])] for p in paths]
        fc.insert(pick % (len(fc) + 1), [extra, None])
        expected = 'FAIL'
    elif variant == 'retype':
        victim = paths[pick % len(paths)]
        fc = [[p, matcher_for(p, flat[p], 'type' if p == victim else None)] for p in paths]
        expected = 'FAIL'
    elif variant == 'retext':
        victim = files[pick % len(files)]
        fc = [[p, matcher_for(p, flat[p], 'text' if p == victim else None)] for p in paths]
        expected = 'FAIL'
    else:
        raise ValueError(variant)
    lines = ['[setup]'] + render.entry_lines({'t': 'dir', 'name': 'd', 'op': '=', 'src': case['fs']}, '')
    lines.append('[assert]')
    lines.append('dir-contents d : ' + render.rec_opts(rec) + render.files_matcher(
        {'k': 'matches', 'full': full, 'fc': fc, 'inline': False}))
    return '\n'.join(lines) + '\n', extra_files, expected, variant, len(flat)


def check_roundtrip(case) -> Verdict:
    built = roundtrip_build(case)
    if built is None:
        return Verdict(True, nontrivial=False, labels=['roundtrip:list-not-valid'])
    text, extra_files, expected, variant, n_nodes = built
    labels = set(['roundtrip:' + variant, 'expect:' + expected,
                  'nodes:%s' % ('0' if n_nodes == 0 else '1-3' if n_nodes <= 3 else '4-8' if n_nodes <= 8 else '9+'),
                  'file-matchers:%s' % ('yes' if case['with_matchers'] else 'no')])
    _entry_labels(case['fs'], labels)
    with driver.Workspace() as ws:
        _write_sources(ws)
        ws.write_files(extra_files)
        ws.write('t.case', text)
        r = driver.run_inproc(ws, ['t.case'], timeout_s=CASE_TIMEOUT_S)
    if r.timed_out:
        return Verdict(True, inconclusive=True, labels=sorted(labels | {'timeout'}))
    ident = r.first_out_line
    nontrivial = n_nodes >= 2
    if r.exception or ident != expected:
        return fail('roundtrip/%s/exp-%s/got-%s' % (variant, expected, ident),
                    {'expected': expected, 'observed': ident, 'exit': r.exit_code, 'case_text': text,
                     'err': r.err[:1500], 'exception': r.exception}, labels=sorted(labels), nontrivial=nontrivial)
    return Verdict(True, nontrivial=nontrivial, labels=sorted(labels))


def _render_populate(case):
    return populate_text(case)[0]


def _render_match(case):
    return {'tree': [' '.join([n['p'], n['t'], repr(n.get('text', n.get('target', '')))]) for n in case['tree']],
            'text': match_text(case)}


def _render_roundtrip(case):
    built = roundtrip_build(case)
    return built[0] if built else case


# ======================================================================================================
# (d) populating a directory that already holds a symbolic link
# ======================================================================================================
# "entries applied in the listed order, or fails with HARD_ERROR ... nothing is created outside the populated
# directory": a name of the list that is already taken in the directory - also by a symbolic link, dangling or not -
# is a clash, and what the link points at (outside the directory) is left alone.
# (Not included: a nested name `LINK/inner` whose first component is a link to a directory outside - the case itself
# made that link, and following it is what the file system does; the unchanged tree creates the file there.)
_LINK_KINDS = {'dangling': 'outside/escaped.txt', 'to-file': 'outside/real.txt', 'to-dir': 'outside/rdir'}
_LINK_OPS = {'file': 'dir d += {\nfile n.txt = "x"\n}', 'dir-contents-of': 'dir d += dir-contents-of -rel-home src',
             'dir': 'dir d += {\ndir n.txt\n}', 'nested-file': 'dir d += {\nfile n.txt/inner.txt = "y"\n}',
             'create-over': 'dir d/n.txt = {\nfile z\n}'}


def enum_links(tier):
    for lk in sorted(_LINK_KINDS):
        for op in sorted(_LINK_OPS):
            if (lk, op) == ('to-dir', 'nested-file'):
                continue
            for phase in ('setup', 'cleanup'):
                yield {'link': lk, 'op': op, 'phase': phase}


def check_links(case) -> Verdict:
    labels = ['link:' + case['link'], 'link-op:' + case['op'], 'phase:' + case['phase']]
    key = 'links|%s|%s|%s' % (case['link'], case['op'], case['phase'])
    with driver.Workspace() as ws:
        out_dir = os.path.join(ws.root, 'outside')
        os.makedirs(os.path.join(out_dir, 'rdir'))
        with open(os.path.join(out_dir, 'real.txt'), 'w') as f:
            f.write('real')
        ws.write('src/n.txt', 'from-src')
        text = '\n'.join(['[%s]' % case['phase'], 'dir -rel-act d = {', 'file keep.txt = "k"', '}',
                          '$ ln -s {ROOT}/%s @[EXACTLY_ACT]@/d/n.txt' % _LINK_KINDS[case['link']],
                          'cd -rel-act .', _LINK_OPS[case['op']], '[act]', '$ true']) + '\n'
        ws.write('t.case', text)
        before = driver.tree_snapshot(out_dir)
        r = driver.run_inproc(ws, ['--keep', 't.case'])
        after = driver.tree_snapshot(out_dir)
        kept = None
        if r.out.endswith('\n') and os.path.isdir(r.out[:-1]):
            d = os.path.join(r.out[:-1], 'act', 'd')
            kept = {'entries': sorted(os.listdir(d)) if os.path.isdir(d) else None,
                    'n.txt-is-link': os.path.islink(os.path.join(d, 'n.txt'))}
    detail = {'case_text': text, 'exit': r.exit_code, 'stderr': r.err[:600], 'outside_before': before,
              'outside_after': after, 'populated_directory': kept}
    if r.exception or r.timed_out:
        return fail('links/exception-or-timeout', dict(detail, exception=r.exception), labels=labels, nontrivial=True,
                    key=key)
    if before != after:
        return fail('links/created-or-changed-outside-the-populated-directory', detail, labels=labels, nontrivial=True,
                    key=key)
    if r.first_err_line != 'HARD_ERROR' or r.exit_code != 128:
        return fail('links/name-clash-with-a-link-not-a-hard-error/%s' % r.first_err_line, detail, labels=labels,
                    nontrivial=True, key=key)
    if kept is None or kept['entries'] != ['keep.txt', 'n.txt'] or not kept['n.txt-is-link']:
        return fail('links/populated-directory-changed-by-the-failing-entry', detail, labels=labels, nontrivial=True,
                    key=key)
    return Verdict(True, nontrivial=True, labels=labels, key=key)


_SHRINK = {'quick': 10.0, 'thorough': 60.0}

SUBS = [
    Sub('populate', check_populate, strategy=lambda tier: gen.populate_cases(tier),
        budget={'quick': 3500, 'thorough': 60000}, shrink_s=_SHRINK, render=_render_populate),
    Sub('match', check_match, strategy=lambda tier: gen.match_cases(tier),
        budget={'quick': 8000, 'thorough': 150000}, shrink_s=_SHRINK, render=_render_match),
    Sub('depth_grid', check_match, enumerate=enum_grid, exhaustive=True, render=_render_match),
    Sub('roundtrip', check_roundtrip, strategy=lambda tier: gen.roundtrip_cases(tier),
        budget={'quick': 2000, 'thorough': 30000}, shrink_s=_SHRINK, render=_render_roundtrip),
    Sub('populate_over_links', check_links, enumerate=enum_links, exhaustive=True, shards={'quick': 2, 'thorough': 2}),
]
