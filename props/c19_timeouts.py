"""C19 - Timeouts are enforced on every OS process; Exactly never waits indefinitely.

Enumerated matrix: place (phase x kind of program use, incl. every actor) x child behaviour x timeout history.
The child is the probe program (records its pid before sleeping).  Observed: identifier, failing phase, elapsed wall
time, liveness of the child afterwards, cleanup marker, sandbox removal.  Margins are wide (timeout 1 s vs a child
sleeping 40 s; children that must complete sleep 2-2.5 s under a 30 s / lifted timeout); a run whose timing lands
in the margin is *inconclusive*, never a violation; "short child reported as timed out" must reproduce on two
immediate retries before it is a violation.
"""
import os
import re
import signal
import stat
import time

from hypothesis import strategies as st

from vlib import driver
from vlib.runner import Sub, Verdict, fail

PROPERTY_ID = 'C19'
LEVEL = 'exploration'
RULE = ('cells = place (run/$/% instruction in each phase; -stdout-from in file/env/stdin/equals; -transformed-by '
        'run; text-matcher run; file-matcher run; exit-code/stdout/stderr -from; act with % / $ / executable file / '
        '-python / @SYM / file interpreter / source interpreter) x child (sleeps 40 s; sleeps 40 s ignoring SIGTERM; '
        '2 s; 2.5 s; 0.2 s) x timeout history (=1 earlier in phase; =1 in earlier phase; =1 then changed after the '
        'use; =30 before and =1 after the use; =1 then none before the use; default; =0; for the stdin program, '
        'which is started with the action: =1 / =none given after the stdin instruction) x context (other settings '
        'made in [setup] that travel in the same process-execution settings as the timeout: env without / with '
        '-of act / -of !act, before or after the timeout instruction, env unset, cd, stdin - combined with the '
        'must-fire schedules and the lifted one). quick: a seeded sample of the cells (every act place x every '
        'context always), thorough: all cells + a sub-process sample + one run against the 60 s default. Every '
        'cell is non-trivial; distinct = distinct cell')
ASSUMPTIONS = [
    'wall-clock check: the harness does not own the schedule; a timed-out child must be reported within '
    'timeout + 11 s (12..30 s = inconclusive, >= 30 s = violation since the child itself sleeps 40 s)',
    '`stdin = -stdout-from P` in [setup]: the program may be run when stdin is set or when the action starts; '
    'a failure in [setup] or [act] is accepted',
    'for `$` places the shell line is `exec python probe ...` so that the probe is the direct child',
]

IPHASES = ['setup', 'before-assert', 'assert', 'cleanup']
PGM = '% {PY} {PROBE} {OBS}/child'
PGM_SHELL = '$ exec {PY} {PROBE} {OBS}/child'

# place -> (phases, [lines] with {P} = program, is_act)
PLACES = {
    'instr-run': (IPHASES, ['run ' + PGM]),
    'instr-sys': (IPHASES, [PGM]),
    'instr-shell': (IPHASES, [PGM_SHELL]),
    'instr-run-sym': (IPHASES, ['run @ CHILD_PGM']),
    'file-stdout-from': (IPHASES, ['file out-c19.txt = -stdout-from ' + PGM]),
    'file-stdout-from-shell': (IPHASES, ['file out-c19.txt = -stdout-from ' + PGM_SHELL]),
    'env-stdout-from': (IPHASES, ['env V_C19 = -stdout-from ' + PGM]),
    # the variants of a program as text source: other channel, exit code ignored (the program's other std file is
    # then something else than a named file)
    'file-stderr-from': (IPHASES, ['file out-c19.txt = -stderr-from ' + PGM]),
    'file-stdout-from-ignore-exit-code': (IPHASES, ['file out-c19.txt = -stdout-from -ignore-exit-code ' + PGM]),
    'file-stderr-from-ignore-exit-code': (IPHASES, ['file out-c19.txt = -stderr-from -ignore-exit-code ' + PGM_SHELL]),
    'equals-stderr-from-ignore-exit-code': (['assert'], ['stdout equals -stderr-from -ignore-exit-code ' + PGM]),
    'run-ignore-exit-code': (IPHASES, ['run -ignore-exit-code ' + PGM]),
    'transformer-run-ignore-exit-code': (IPHASES, ['file out-c19.txt = "x" -transformed-by run -ignore-exit-code '
                                                   + PGM]),
    'transformer-run': (IPHASES, ['file out-c19.txt = "x" -transformed-by run ' + PGM]),
    'stdin-stdout-from': (['setup'], ['stdin = -stdout-from ' + PGM]),
    'equals-stdout-from': (['assert'], ['stdout equals -stdout-from ' + PGM]),
    'text-matcher-run': (['assert'], ['stdout run ' + PGM]),
    'text-matcher-transformed-run': (['assert'], ['stdout -transformed-by run ' + PGM, '  is-empty']),
    'file-matcher-run': (['assert'], ['exists -rel-act target-c19.txt : run ' + PGM]),
    'exit-code-from': (['assert'], ['exit-code -from ' + PGM, '  == 0']),
    'stdout-from': (['assert'], ['stdout -from ' + PGM, '  is-empty']),
    'stderr-from': (['assert'], ['stderr -from ' + PGM_SHELL, '  is-empty']),
    'act-sys': (['act'], [PGM]),
    'act-shell': (['act'], [PGM_SHELL]),
    'act-python': (['act'], ['-python {PROBE} {OBS}/child']),
    'act-exe-file': (['act'], ['child-c19.sh']),
    'act-sym': (['act'], ['@ CHILD_PGM']),
    'act-file-interpreter': (['act'], ['probe_copy.py {OBS}/child']),
    'act-source-interpreter': (['act'], ['import os, sys',
                                         "os.execv(sys.executable, [sys.executable, '{PROBE}', '{OBS}/child'])"]),
}
# (child kind, history)
SCHEDULES = [
    ('long', 'h1_same_phase'), ('long', 'h2_earlier_phase'), ('long', 'h3_changed_after'),
    ('long_ignore_term', 'h1_same_phase'), ('2s', 'h4_30_before_1_after'), ('2.5s', 'h5_none'),
    ('0.2s', 'h6_default'), ('long', 'h7_zero'),
]
# the program behind `stdin = -stdout-from P` is started when the action starts: the timeout in force then is
# the value [setup] ends with
STDIN_SCHEDULES = [('long', 'hs1_timeout_after_stdin'), ('2.5s', 'hs2_none_after_stdin')]
# other settings made in [setup]: (lines at the start of [setup], lines at the end of [setup])
CONTEXTS = {
    'env': (['env C19_A = 1'], []),
    'env-act': (['env -of act C19_A = 1'], []),
    'env-nonact': (['env -of !act C19_A = 1'], []),
    'env-late': ([], ['env C19_A = "${C19_A}2"']),
    'env-act-late': ([], ['env -of act C19_A = 1']),
    'env-unset': (['env unset C19_NOT_SET'], []),
    'cd': (['dir -rel-act c19-dir', 'cd -rel-act c19-dir'], []),
    'stdin': (['stdin = "c19 stdin"'], []),
}
CONTEXT_SCHEDULES = [('long', 'h1_same_phase'), ('long', 'h2_earlier_phase'), ('2.5s', 'h5_none')]
CHILD_SLEEP = {'long': 40, 'long_ignore_term': 40, '2s': 2, '2.5s': 2.5, '0.2s': 0.2, '61s-default': 75}


def all_cells():
    for place in sorted(PLACES):
        phases, _ = PLACES[place]
        for ph in phases:
            for child, hist in SCHEDULES:
                if hist == 'h2_earlier_phase' and ph == 'setup':
                    continue
                if place == 'stdin-stdout-from' and hist in ('h3_changed_after', 'h4_30_before_1_after'):
                    # the program behind `stdin = -stdout-from P` is started when the action starts: "the timeout
                    # in force at that point" is then the value at the end of [setup]; a change *after* the stdin
                    # instruction is therefore ambiguous and not part of the domain
                    continue
                yield {'place': place, 'phase': ph, 'child': child, 'history': hist}
    for child, hist in STDIN_SCHEDULES:
        yield {'place': 'stdin-stdout-from', 'phase': 'setup', 'child': child, 'history': hist}
    # a step fails by timeout and [cleanup] then starts a process of its own that is too slow as well: the timeout
    # last set is still in force there
    for ph in ('setup', 'act', 'before-assert'):
        for place in (('act-sys',) if ph == 'act' else ('instr-sys', 'instr-run-sym')):
            yield {'place': place, 'phase': ph, 'child': 'long', 'history': 'h8_slow_cleanup_after_failure'}
    for place in sorted(PLACES):
        phases, _ = PLACES[place]
        for ph in phases:
            for ctx in sorted(CONTEXTS):
                if ctx == 'stdin' and place == 'stdin-stdout-from':
                    continue
                if ctx.endswith('-late') and ph == 'setup':
                    continue  # would come after the use
                for child, hist in CONTEXT_SCHEDULES:
                    if hist == 'h2_earlier_phase' and ph == 'setup':
                        continue
                    yield {'place': place, 'phase': ph, 'child': child, 'history': hist, 'ctx': ctx}


def build(cell):
    place, ph, hist = cell['place'], cell['phase'], cell['history']
    lines_of_place = PLACES[place][1]
    p = {x: [] for x in ['conf', 'setup', 'act', 'before-assert', 'assert', 'cleanup']}
    p['setup'].append('def program CHILD_PGM = ' + PGM)
    p['setup'].append('file -rel-act target-c19.txt = "x"')
    p['act'] = ['$ true']
    if place == 'act-file-interpreter':
        p['conf'].append('actor = file % {PY}')
    elif place == 'act-source-interpreter':
        p['conf'].append('actor = source % {PY}')
    p['cleanup'].append('$ echo cleanup-ran >> {MARKERS}')
    order = ['setup', 'act', 'before-assert', 'assert', 'cleanup']
    before_phase = 'setup' if ph in ('act', 'setup') else order[order.index(ph) - 1]
    if before_phase == 'act':
        before_phase = 'setup'
    after_phase = None if ph != 'act' else 'before-assert'

    def use(pre, post):
        if ph == 'act':
            p['setup'] += pre
            p['act'] = list(lines_of_place)
            p['before-assert'] += post
        else:
            p[ph] += pre + list(lines_of_place) + post

    if hist == 'h1_same_phase':
        use(['timeout = 1'], [])
    elif hist == 'h2_earlier_phase':
        p[before_phase].append('timeout = 1')
        use([], [])
    elif hist == 'h3_changed_after':
        use(['timeout = 1'], ['timeout = 30'])
    elif hist == 'h4_30_before_1_after':
        use(['timeout = 30'], ['timeout = 1'])
    elif hist == 'h5_none':
        p['setup'].insert(0, 'timeout = 1')
        use(['timeout = none'], [])
    elif hist == 'h6_default':
        use([], [])
    elif hist == 'h8_slow_cleanup_after_failure':
        use(['timeout = 1'], [])
        p['cleanup'].append('% {PY} {PROBE} {OBS}/child2')
    elif hist == 'h7_zero':
        use(['timeout = 0'], [])
        p['cleanup'].insert(0, 'timeout = 30')  # the marker of [cleanup] is written by a process, too
    elif hist == 'hs1_timeout_after_stdin':
        use([], ['timeout = 1'])
    elif hist == 'hs2_none_after_stdin':
        use(['timeout = 1'], ['timeout = none'])
    if cell.get('ctx'):
        first, last = CONTEXTS[cell['ctx']]
        p['setup'] = list(first) + p['setup'] + list(last)
    out = []
    for x in ['conf', 'setup', 'act', 'before-assert', 'assert', 'cleanup']:
        if x == 'conf' and not p['conf']:
            continue
        out.append('[%s]' % x)
        out += p[x]
        out.append('')
    return '\n'.join(out) + '\n'


def _alive(pid):
    try:
        os.kill(pid, 0)
    except ProcessLookupError:
        return False
    except PermissionError:
        return True
    # a zombie of ours counts as dead once reaped; try to reap
    try:
        r, _ = os.waitpid(pid, os.WNOHANG)
        if r == pid:
            return False
    except ChildProcessError:
        pass
    try:
        with open('/proc/%d/stat' % pid) as f:
            if f.read().split(')')[-1].split()[0] == 'Z':
                return False
    except OSError:
        return False
    return True


def run_cell(cell, subproc=False):
    text = build(cell)
    with driver.Workspace() as ws:
        ws.write('t.case', text)
        ws.write('child-c19.sh', '#!/bin/sh\nexec {PY} {PROBE} {OBS}/child\n')
        os.chmod(os.path.join(ws.home, 'child-c19.sh'), 0o755)
        with open(driver.PROBE) as f:
            ws.write('probe_copy.py', f.read(), subst=False)
        ws.probe_cfg('child', sleep=CHILD_SLEEP[cell['child']], early=True, no_stdin=True,
                     ignore_sigterm=(cell['child'] == 'long_ignore_term'))
        ws.probe_cfg('child2', sleep=40, early=True, no_stdin=True)
        t0 = time.time()
        if subproc:
            r = driver.run_subproc(ws, ['t.case'], timeout_s=100)
        else:
            r = driver.run_inproc(ws, ['t.case'], timeout_s=100)
        elapsed = time.time() - t0
        recs = ws.probe_records('child')
        recs2 = ws.probe_records('child2')
        pids = [x['pid'] for x in recs + recs2]
        alive = [pid for pid in pids if _alive(pid)]
        time.sleep(0.05) if alive else None
        alive = [pid for pid in alive if _alive(pid)]
        for pid in alive:
            try:
                os.kill(pid, signal.SIGKILL)
            except OSError:
                pass
        markers = ws.read_markers()
        sandboxes = ws.sandboxes()
    ident = r.first_out_line
    m = re.search(r'^In \[([a-z-]+)\]', r.err, re.M)
    return {'text': text, 'ident': ident, 'exit': r.exit_code, 'phase': m.group(1) if m else None,
            'elapsed': round(elapsed, 2), 'child_started': len(recs), 'cleanup_child_started': len(recs2),
            'alive': alive, 'markers': markers,
            'sandboxes': sandboxes, 'err': r.err[:500], 'exception': r.exception, 'timed_out': r.timed_out}


def check(cell) -> Verdict:
    subproc = bool(cell.get('subproc'))
    o = run_cell(cell, subproc)
    labels = ['place:' + cell['place'], 'phase:' + cell['phase'], 'child:' + cell['child'],
              'history:' + cell['history'], 'ident:%s' % o['ident'], 'ctx:' + cell.get('ctx', 'plain')] \
        + (['subproc'] if subproc else [])
    key = '%s|%s|%s|%s|%s|%s' % (cell['place'], cell['phase'], cell['child'], cell['history'], subproc,
                                 cell.get('ctx', 'plain'))
    detail = {'cell': cell, 'case_text': o['text'], 'observed': {k: v for k, v in o.items() if k != 'text'}}

    def bad(what):
        return fail('%s/%s/%s%s' % (what, cell['place'], cell['history'],
                                    '/ctx-' + cell['ctx'] if cell.get('ctx') else ''),
                    detail, labels=labels, nontrivial=True, key=key)

    if o['exception']:
        return bad('exception-escaped')
    must_fire = cell['child'] in ('long', 'long_ignore_term', '61s-default')
    limit = 60 if cell['child'] == '61s-default' else (0 if cell['history'] == 'h7_zero' else 1)
    if must_fire:
        if o['timed_out'] or o['elapsed'] >= (limit + 29 if limit <= 2 else 74):
            return bad('waited-for-the-child')
        if o['ident'] != 'HARD_ERROR':
            if o['child_started'] == 0:
                return bad('generated-place-did-not-start-the-child')
            return bad('timeout-not-reported-as-hard-error')
        # the process that exceeded the timeout is terminated - not started again
        # (with `timeout = 0` it may be ended before it has recorded its start)
        if o['child_started'] not in ((0, 1, 2) if (cell['place'] == 'env-stdout-from' and cell['phase'] == 'setup')
                                      else (0, 1) if cell['history'] == 'h7_zero' else (1,)):
            return bad('timed-out-child-started-%d-times' % o['child_started'])
        exp_phases = {cell['phase']}
        if cell['place'] == 'stdin-stdout-from':
            exp_phases = {'setup', 'act'}
        if cell['history'] == 'h8_slow_cleanup_after_failure':
            exp_phases.add('cleanup')  # a failing cleanup step may be named instead
            limit = 2  # two processes in a row, each stopped after 1 s
            if o['cleanup_child_started'] != 1:
                return bad('cleanup-did-not-start-its-process')
        if o['phase'] not in exp_phases:
            return bad('reported-in-wrong-phase')
        if o['alive']:
            return bad('child-still-alive')
        if o['markers'] != ['cleanup-ran']:
            return bad('cleanup-did-not-run-once')
        if o['sandboxes']:
            return bad('sandbox-not-removed')
        if o['elapsed'] > limit + 11:
            return Verdict(inconclusive=True, labels=labels + ['slow-return'], nontrivial=True, key=key)
        return Verdict(True, nontrivial=True, key=key, labels=labels,
                       sample={'cell': cell, 'case_text': o['text'], 'elapsed': o['elapsed'], 'ident': o['ident'],
                               'phase': o['phase']})
    # child must complete normally
    if o['ident'] != 'PASS':
        if 'timed out' in o['err'] and o['ident'] == 'HARD_ERROR':
            # possibly scheduling noise: must reproduce twice to count
            again = [run_cell(cell, subproc) for _ in range(2)]
            if all(a['ident'] == 'HARD_ERROR' and 'timed out' in a['err'] for a in again):
                if cell['history'] in ('h6_default', 'h4_30_before_1_after', 'h5_none', 'hs2_none_after_stdin'):
                    return bad('timeout-fired-although-not-in-force')
            return Verdict(inconclusive=True, labels=labels + ['noise'], nontrivial=True, key=key)
        return bad('short-child-not-pass')
    if o['markers'] != ['cleanup-ran'] or o['sandboxes']:
        return bad('cleanup-or-sandbox')
    allowed_starts = (1, 2) if (cell['place'] == 'env-stdout-from' and cell['phase'] == 'setup') else (1,)
    if o['child_started'] not in allowed_starts:  # env without PHASE-SPEC in [setup] changes both sets
        return bad('child-started-%d-times' % o['child_started'])
    return Verdict(True, nontrivial=True, key=key, labels=labels,
                   sample={'cell': cell, 'elapsed': o['elapsed'], 'ident': o['ident']})


def enum_cells(tier):
    cells = list(all_cells())
    if tier == 'quick':
        seed = int(os.environ.get('VERIF_SEED', '1') or '1')
        # deterministic seeded sample: every place at least once with an over-long child, plus every 3rd cell
        picked = []
        for i, c in enumerate(cells):
            h = (i * 2654435761 + seed * 40503) % 7
            if c.get('ctx'):
                # every act place x every context with the must-fire schedule, and a seeded 1/7 of the rest
                if (c['phase'] == 'act' and c['history'] == 'h1_same_phase') or h == 0:
                    picked.append(c)
            elif c['history'].startswith('hs') or c['history'].startswith('h8') or (c['history'] == 'h7_zero' and (c['phase'] == 'act' or h < 2)):
                picked.append(c)
            elif h < 3 or (c['history'] == 'h1_same_phase' and c['child'] == 'long'
                           and (c['phase'] in ('act', 'assert', 'setup') or h < 3)):
                picked.append(c)
        return picked
    extra = [dict(c, subproc=True) for i, c in enumerate(cells) if i % 9 == 0]
    default = [{'place': 'instr-run', 'phase': 'setup', 'child': '61s-default', 'history': 'h6_default'},
               {'place': 'act-sys', 'phase': 'act', 'child': '61s-default', 'history': 'h6_default'}]
    return default + cells + extra


SUBS = [
    Sub('timeout_matrix', check, enumerate=enum_cells, exhaustive=False,
        shards={'quick': 16, 'thorough': 16}),
]
