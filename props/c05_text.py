"""C05 - Text assertions and text transformers mean what the reference manual says.

Oracle: ``vlib/ref/text.py`` - an independent evaluator written from `help syntax TEXT-MATCHER`,
`TEXT-TRANSFORMER`, `LINE-MATCHER`, `INTEGER-MATCHER`, `REGEX`, `TEXT-SOURCE`.

Layers
* CLI (the observation points named by the property): PASS/FAIL of a one-assertion test case whose model text is
  - a file: `contents -rel-home in.txt : M`, `exists -rel-home in.txt : contents M` (FILE-MATCHER),
  - output of the action to check: `stdout M`, `stderr M`, `contents made.txt : M` (file written by the action),
  - output of a program: `stdout -from $ cat ...` / `stderr -from ...` with M on the next line,
  - a literal: `file lit.txt = '...'` / `file lit.txt = <<EOF ...` + `contents lit.txt : M`;
  M written inline or defined as a symbol (`def text-matcher`).
  For transformers: the bytes of act/out.txt created by `file out.txt = SOURCE -transformed-by T` (SOURCE = file /
  literal string / here-document / stdout or stderr of a program / text-source symbol) or by the action to check from
  `stdin = ... -transformed-by T`, read from the kept sandbox (independent of `equals`); T inline or a symbol
  (`def text-transformer`).  The same case asserts the *line structure* of the output through
  `-transformed-by T ( num-lines == K && ! any line : contents matches '\\n' )`.
* API: the same generated (text, expression) pairs through the public parsers
  (`parse_string_matcher.parsers().full`, `parse_string_transformer.parsers().full` -> resolve -> validate ->
  primitive), applied to a constant-string model and to a file model; ~15x cheaper per pair.  Plus an exhaustive
  small scope: every text over {a A space newline} up to length 4 (thorough: 5, and 6 over {a space newline}) x a
  fixed list of ~60 matchers and ~55 transformers.

History: the colleague's defect model KF-C05-1 (`filter ! line-num ( <= 1 || == 4 )` kept only the lines after the
hull of the operands' intervals) had the same root cause as KF-C13-1; /repo commit cbf30df repaired it, the model was
removed, the generated input is kept as replays/C05/regress-kf1-*.json and the revert of the fix is a mutant.
"""
import hashlib
import json
import os
import shutil

from hypothesis import strategies as st

from vlib import driver
from vlib.gen import c05_expr, c05_text
from vlib.ref import text as ref
from vlib.runner import Sub, Verdict, fail

PROPERTY_ID = 'C05'
LEVEL = 'exploration'
RULE = ('case = (text T, expression E, kind of text source, spelling style, inline / via symbol); T: 0-6 lines '
        '(thorough: 0-10) over {a b A B space tab . * + ? ( ) [ ] \\ ^ $ | e-acute 0 1 2}, last line with/without '
        'newline, empty lines, whitespace-only lines, duplicated lines, extra leading/trailing empty lines, 6 % long '
        'texts (> 110 chars); E: matcher AST (depth <= 4, <= 8 nodes; thorough 12) over is-empty, equals (string / '
        'here-doc / file / program-output operand, optionally transformed), matches [-full], num-lines, every/any '
        'line, -transformed-by, ! && ||, constant, with line-matchers (contents, line-num) and integer-matchers; or '
        'transformer AST over replace [-preserve-new-lines] [-at], strip variants, char-case, filter LM, filter '
        '-line-nums, grep [-full], identity, |; regexes from a grammar that compiles by construction (literals, '
        'escaped metacharacters, classes, shorthands, quantifiers incl. lazy, groups, alternation, anchors, '
        'back-references, inline flags (?m) (?s) (?i), -ignore-case); generation is steered by T (operands near T, '
        'integers near the line count, regexes generalised from lines of T). Text source kinds: file, action output '
        '(stdout, stderr, file written by the action), program output, literal (string, here-document). '
        'A case is non-trivial when E has a non-constant primitive and (T is non-empty or E asks about emptiness / '
        'line count); distinct = distinct (T, E, kind of source). API-layer cases carry 6 matchers + 4 transformers '
        'per text (each (T, E) pair counts separately, label api:nontrivial-pairs); the small-scope sub-check is '
        'exhaustive over its stated domain.')
ASSUMPTIONS = [
    'Python\'s `re` is shared with the implementation on purpose (REGEX is defined as "Python syntax"); the '
    'meaning of -full, the replacement template and the division into lines are not shared',
    'the text alphabet excludes \\r and the characters str.splitlines treats as line breaks besides \\n '
    '(property C14) and the characters \' " # @ { } (property C09)',
    'LINE-NUMBER-RANGE bounds that are 0 or fall outside 1..N after resolving negative numbers are read '
    'arithmetically (a range selects the line numbers n with lo <= n <= hi); the manual is silent on them',
    '`strip` whitespace = space, tab, newline (all that the alphabet contains)',
    'expressions are rendered with the spellings DESIGN.md 2.10 lists as permitted; `:>` strings, here-documents, '
    'range lists and programs are only used where the rest of the expression may continue on the next line '
    '(inside parentheses, or where an argument is still missing)',
    'a matcher / transformer defined with `def` and referenced by name means the same as the expression written '
    'inline (concept "symbol")',
    'the text printed by `cat FILE` (stdout or stderr redirected) is the contents of FILE',
    'the in-process run (fresh MainProgram per case) is representative of the CLI process (32 / 640 cases per run '
    'are repeated through a real OS process)',
]


# ======================================================================================================
# helpers
# ======================================================================================================
_PRIMS_TM = {'is-empty', 'equals', 'matches', 'num-lines', 'every', 'any'}
_PRIMS_TR = {'replace', 'strip', 'char-case', 'filter', 'filter-nums', 'grep'}
_EMPTINESS = {'is-empty', 'num-lines', 'equals', 'every', 'any'}


def _key(text, expr, src=None):
    return hashlib.sha1(json.dumps([text, expr, src], sort_keys=True).encode('utf-8')).hexdigest()[:16]


def _text_labels(text):
    ls = []
    if text == '':
        ls.append('text:empty')
    elif not text.endswith('\n'):
        ls.append('text:no-final-newline')
    else:
        ls.append('text:final-newline')
    lines = ref.line_models(text)
    if any(c == '' for _, c, _ in lines):
        ls.append('text:has-empty-line')
    if any(c != '' and c.strip(' \t') == '' for _, c, _ in lines):
        ls.append('text:has-blank-line')
    if any(c != c.strip(' \t') and c.strip(' \t') != '' for _, c, _ in lines):
        ls.append('text:has-edge-space')
    if len(text) > 110:
        ls.append('text:long')
    return ls


def _rx_labels(expr):
    out = set()

    def visit(node):
        if isinstance(node, dict):
            if 'pat' in node:
                out.add('regex:meta' if any(c in node['pat'] for c in '.*+?()[]\\^$|') else 'regex:plain')
                if node.get('ic'):
                    out.add('regex:ignore-case')
                if node.get('groups'):
                    out.add('regex:groups')
                if node['pat'].startswith(('(?m)', '(?s)', '(?i)', '(?ms)')):
                    out.add('regex:inline-flags')
            for v in node.values():
                visit(v)
        elif isinstance(node, list):
            for v in node:
                visit(v)

    visit(expr)
    return sorted(out)


def _equals_ctx_labels(expr):
    """which of the comparison strategies of `equals` an expression can reach: the model is a whole text (a file
    in the CLI layer) or one line (a string in memory); the operand is a file or a string"""
    out = set()

    def visit(node, in_line):
        if not (isinstance(node, list) and node and isinstance(node[0], str)):
            return
        tag = node[0]
        if tag == 'equals':
            out.add('equals-ctx:%s-model/%s-operand' % ('line' if in_line else 'text',
                                                        {'file': 'file', 'prog': 'program'}.get(node[1]['form'],
                                                                                                'string')))
            if node[1].get('tr') is not None:
                visit(node[1]['tr'], in_line)
        elif tag == 'contents':
            visit(node[1], True)
        elif tag == 'replace':
            if node[1].get('at') is not None:
                visit(node[1]['at'], in_line)
        else:
            for x in node[1:]:
                visit(x, in_line)

    visit(expr, False)
    return sorted(out)


def _expr_labels(expr, prefix):
    tags = ref.tags(expr)
    ls = sorted({'%s:%s' % (prefix, t) for t in tags})
    for node in ref.walk(expr):
        if node[0] == 'replace':
            a = node[1]
            ls.append('replace:' + ('pnl' if a.get('pnl') else 'nl-included') + ('+at' if a.get('at') else ''))
            if '\\n' in a['repl']:
                ls.append('replace:template-newline')
            if any(isinstance(p, int) for p in ref.parse_template(a['repl'])):
                ls.append('replace:group-ref')
        elif node[0] == 'equals':
            s = node[1]
            ls.append('equals:operand-' + s['form'] + ('+tr' if s.get('tr') else ''))
        elif node[0] in ('matches', 'grep') and node[1]:
            ls.append(node[0] + ':-full')
        elif node[0] == 'strip':
            ls.append('strip:%s' % (node[1] or 'both'))
    n = len(tags)
    ls.append('%s-size:%s' % (prefix, '1' if n == 1 else '2-3' if n <= 3 else '4-7' if n <= 7 else '8+'))
    return sorted(set(ls)) + _rx_labels(expr) + _equals_ctx_labels(expr)


def _nontrivial(text, expr, prims):
    tags = set(ref.tags(expr))
    if not (tags & prims):
        return False
    return text != '' or bool(tags & _EMPTINESS) or bool(tags & _PRIMS_TR)


def _clip(s, n=400):
    return s if len(s) <= n else s[:n] + '...<%d chars>' % len(s)


# ======================================================================================================
# CLI layer: matcher verdict
# ======================================================================================================
MATCHER_SOURCES = ['file', 'file', 'file', 'act', 'act', 'act', 'act_err', 'act_file', 'lit_str', 'lit_here', 'prog',
                   'prog_err', 'file_matcher']
SOURCE_KIND = {'file': 'file', 'file_matcher': 'file', 'act': 'action-output', 'act_err': 'action-output',
               'act_file': 'action-output', 'prog': 'program-output', 'prog_err': 'program-output',
               'prog_shell': 'program-output', 'prog_exe': 'program-output', 'stdin': 'file',
               'text_source_symbol': 'file', 'lit_str': 'literal', 'lit_here': 'literal'}
MATCHER_SYMBOL = 'MY_TEXT_MATCHER'
TRANSFORMER_SYMBOL = 'MY_TEXT_TRANSFORMER'


def _effective_source(case):
    src, text = case['src'], case['text']
    if src == 'lit_here' and not (text == '' or text.endswith('\n')):
        return 'lit_str'  # a here-document always ends with a new-line
    return src


def build_matcher_case(case):
    """-> (files: name -> str | bytes, case text)"""
    text, m, style = case['text'], case['m'], case.get('style', 0)
    src = _effective_source(case)
    via_symbol = bool(case.get('sym'))
    # "stdout -from PROGRAM TEXT-MATCHER: TEXT-MATCHER must appear on a separate line".  A matcher that begins
    # with -transformed-by is put inside parentheses there: on the line after a PROGRAM, "-transformed-by T" is
    # the program's own TRANSFORMATION-OF-OUTPUT (help syntax PROGRAM)
    m_src, files = c05_expr.render_tm(m, style,
                                      after_program=(src in ('prog', 'prog_err') and not via_symbol),
                                      simple=(src == 'file_matcher' and not via_symbol))
    files = dict(files)
    setup, act, assert_ = [], [], []
    if via_symbol:
        # def TYPE SYMBOL-NAME = VALUE: "The defined symbol is available in all following instructions and phases"
        setup.append('def text-matcher %s = %s' % (MATCHER_SYMBOL, m_src))
        m_src = MATCHER_SYMBOL
    if src == 'file':
        files['in.txt'] = text.encode('utf-8')
        assert_.append('contents -rel-home in.txt : ' + m_src)
    elif src == 'file_matcher':
        # FILE-MATCHER "contents TEXT-MATCHER: Matches regular files who's contents satisfies TEXT-MATCHER"
        files['in.txt'] = text.encode('utf-8')
        assert_.append('exists -rel-home in.txt : contents ' + m_src)
    elif src == 'act':
        files['in.txt'] = text.encode('utf-8')
        act.append('$ cat {HOME}/in.txt')
        assert_.append('stdout ' + m_src)
    elif src == 'act_err':
        files['in.txt'] = text.encode('utf-8')
        act.append('$ cat {HOME}/in.txt >&2')
        assert_.append('stderr ' + m_src)
    elif src == 'act_file':
        # a file written by the action to check (current directory = act directory)
        files['in.txt'] = text.encode('utf-8')
        act.append('$ cat {HOME}/in.txt > made.txt')
        assert_.append('contents made.txt : ' + m_src)
    elif src == 'prog':
        files['in.txt'] = text.encode('utf-8')
        assert_.append('stdout -from $ cat {HOME}/in.txt\n    ' + m_src)
    elif src == 'prog_err':
        files['in.txt'] = text.encode('utf-8')
        assert_.append('stderr -from $ cat {HOME}/in.txt >&2\n    ' + m_src)
    elif src == 'lit_str':
        setup.append('file lit.txt = ' + c05_expr.hard_quoted(text))
        assert_.append('contents lit.txt : ' + m_src)
    elif src == 'lit_here':
        setup.append('file lit.txt = <<%s\n%s%s' % (c05_expr.HERE_MARKER, text, c05_expr.HERE_MARKER))
        assert_.append('contents lit.txt : ' + m_src)
    else:
        raise ValueError(src)
    lines = []
    if setup:
        lines += ['[setup]'] + setup
    if act:
        lines += ['[act]'] + act
    lines += ['[assert]'] + assert_
    return files, '\n'.join(lines) + '\n'


def _source_labels(case):
    src = _effective_source(case)
    return ['source:' + src, 'source-kind:' + SOURCE_KIND[src], 'layer:cli',
            'expr-via:' + ('symbol' if case.get('sym') else 'inline')]


def check_cli_matcher(case) -> Verdict:
    text, m = case['text'], case['m']
    expected = ref.eval_tm(m, text)
    files, case_text = build_matcher_case(case)
    with driver.Workspace() as ws:
        for name, content in files.items():
            ws.write(name, content)
        ws.write('t.case', case_text)
        if case.get('subproc'):
            r = driver.run_subproc(ws, ['t.case'])
        else:
            r = driver.run_inproc(ws, ['t.case'])
    labels = _source_labels(case) + ['expected:' + ('PASS' if expected else 'FAIL')]
    if case.get('subproc'):
        labels.append('run:sub-process')
    labels += _text_labels(text) + _expr_labels(m, 'tm')
    nontrivial = _nontrivial(text, m, _PRIMS_TM)
    key = _key(text, m, case['src'])
    detail = {'text': text, 'matcher': m, 'case_text': case_text,
              'files': {k: (v.decode('utf-8') if isinstance(v, bytes) else v) for k, v in files.items()},
              'expected': 'PASS' if expected else 'FAIL',
              'observed': {'exit': r.exit_code, 'out': _clip(r.out), 'err': _clip(r.err, 1500)}}
    if r.timed_out:
        return Verdict(inconclusive=True, labels=labels + ['timeout'])
    if r.exception:
        detail['exception'] = r.exception
        return fail('cli-matcher/escaped-exception', detail, labels=labels, nontrivial=nontrivial, key=key)
    if (r.out, r.exit_code) == ('PASS\n', 0):
        actual = True
    elif (r.out, r.exit_code) == ('FAIL\n', 32):
        actual = False
    else:
        ident = r.first_out_line
        return fail('cli-matcher/%s/%s' % ('PASS' if expected else 'FAIL', ident or 'no-identifier'), detail,
                    labels=labels, nontrivial=nontrivial, key=key)
    if actual == expected:
        return Verdict(True, nontrivial=nontrivial, key=key, labels=labels)
    bucket = 'cli-matcher/%s/%s' % ('PASS' if expected else 'FAIL', 'PASS' if actual else 'FAIL')
    return fail(bucket, detail, labels=labels, nontrivial=nontrivial, key=key)


# ======================================================================================================
# CLI layer: transformer output
# ======================================================================================================
TRANSFORMER_SOURCES = ['file', 'file', 'lit_str', 'lit_here', 'prog_shell', 'prog_exe', 'prog_err', 'stdin',
                       'text_source_symbol']


def build_transformer_case(case):
    """-> (files, case text).  The case creates act/out.txt, whose expected contents is the transformed text."""
    text, tr, style = case['text'], case['tr'], case.get('style', 0)
    src = _effective_source(case)
    via_symbol = bool(case.get('sym'))
    tr_src, files = c05_expr.render_tr(tr, style, simple=not via_symbol)
    files = dict(files)
    setup, act = [], []
    if via_symbol:
        setup.append('def text-transformer %s = %s' % (TRANSFORMER_SYMBOL, tr_src))
        tr_src = TRANSFORMER_SYMBOL
    if src == 'file':
        files['in.txt'] = text.encode('utf-8')
        setup.append('file out.txt = -contents-of -rel-home in.txt -transformed-by ' + tr_src)
    elif src == 'lit_str':
        setup.append('file out.txt = %s -transformed-by %s' % (c05_expr.hard_quoted(text), tr_src))
    elif src == 'lit_here':
        setup.append('file out.txt = <<%s\n%s%s\n    -transformed-by %s' % (c05_expr.HERE_MARKER, text,
                                                                          c05_expr.HERE_MARKER, tr_src))
    elif src == 'prog_shell':
        files['in.txt'] = text.encode('utf-8')
        setup.append('file out.txt = -stdout-from $ cat {HOME}/in.txt\n    -transformed-by ' + tr_src)
    elif src == 'prog_exe':
        files['in.txt'] = text.encode('utf-8')
        setup.append('file out.txt = -stdout-from % cat {HOME}/in.txt\n    -transformed-by ' + tr_src)
    elif src == 'prog_err':
        files['in.txt'] = text.encode('utf-8')
        setup.append('file out.txt = -stderr-from $ cat {HOME}/in.txt >&2\n    -transformed-by ' + tr_src)
    elif src == 'stdin':
        # the transformed text is the stdin of the action to check, which copies it to act/out.txt
        files['in.txt'] = text.encode('utf-8')
        setup.append('stdin = -contents-of -rel-home in.txt -transformed-by ' + tr_src)
        act.append('$ cat > out.txt')
    elif src == 'text_source_symbol':
        # TEXT-SOURCE: "SYMBOL-REFERENCE: A reference to a symbol defined as either text-source or string"
        files['in.txt'] = text.encode('utf-8')
        setup.append('def text-source MY_TEXT_SOURCE = -contents-of -rel-home in.txt -transformed-by ' + tr_src)
        setup.append('file out.txt = @[MY_TEXT_SOURCE]@')
    else:
        raise ValueError(src)
    lines = ['[setup]'] + setup
    if act:
        lines += ['[act]'] + act
    # the division into lines of the transformer's output, as seen by what consumes it line by line
    files['in.txt'] = text.encode('utf-8')
    dm_src, dm_files = c05_expr.render_tm(line_structure_matcher(tr, text), style, 'k')
    files.update(dm_files)
    lines += ['[assert]', 'contents -rel-home in.txt : ' + dm_src]
    return files, '\n'.join(lines) + '\n'


def line_structure_matcher(tr, text):
    """-transformed-by TR ( num-lines == K && ! any line : contents matches '\\n' ), K = the number of lines of
    the documented output: true by construction.  It makes the line structure of the output (which `num-lines`,
    `every/any line`, `filter` ... downstream depend on) observable for every generated transformer."""
    k = ref.num_lines(ref.transform(tr, text))
    return ['on', tr, ['and', ['num-lines', ['cmp', '==', {'v': k, 'src': str(k)}]],
                       ['not', ['any', ['contents', ['matches', False, {'pat': '\\n', 'ic': False, 'groups': 0}]]]]]]


def check_cli_transformer(case) -> Verdict:
    text, tr = case['text'], case['tr']
    expected = ref.transform(tr, text)
    files, case_text = build_transformer_case(case)
    produced = None
    with driver.Workspace() as ws:
        for name, content in files.items():
            ws.write(name, content)
        ws.write('t.case', case_text)
        r = driver.run_inproc(ws, ['--keep', 't.case'])
        if len(r.sandboxes) == 1:
            p = os.path.join(ws.tmproot, r.sandboxes[0], 'act', 'out.txt')
            if os.path.isfile(p):
                with open(p, 'rb') as f:
                    produced = f.read()
    labels = _source_labels(case) + ['output:' + ('unchanged' if expected == text else
                                                  'empty' if expected == '' else 'changed')]
    labels += _text_labels(text) + _expr_labels(tr, 'tr')
    nontrivial = _nontrivial(text, tr, _PRIMS_TR)
    key = _key(text, tr, case['src'])
    detail = {'text': text, 'transformer': tr, 'case_text': case_text,
              'files': {k: (v.decode('utf-8') if isinstance(v, bytes) else v) for k, v in files.items()},
              'expected_output': expected,
              'observed': {'exit': r.exit_code, 'out': _clip(r.out), 'err': _clip(r.err, 1500),
                           'output': None if produced is None else produced.decode('utf-8', errors='replace')}}
    if r.timed_out:
        return Verdict(inconclusive=True, labels=labels + ['timeout'])
    if r.exception:
        detail['exception'] = r.exception
        return fail('cli-transformer/escaped-exception', detail, labels=labels, nontrivial=nontrivial, key=key)
    if (r.exit_code, r.first_err_line) not in ((0, 'PASS'), (32, 'FAIL')):
        return fail('cli-transformer/not-PASS/%s' % (r.first_err_line or 'no-identifier'), detail, labels=labels,
                    nontrivial=nontrivial, key=key)
    if produced is None:
        return fail('cli-transformer/no-output-file', detail, labels=labels, nontrivial=nontrivial, key=key)
    if produced == expected.encode('utf-8'):
        if r.exit_code != 0:
            # the output text is as documented, but not its division into lines
            return fail('cli-transformer/line-structure-of-output', detail, labels=labels, nontrivial=nontrivial,
                        key=key)
        return Verdict(True, nontrivial=nontrivial, key=key, labels=labels)
    bucket = 'cli-transformer/output-differs/' + _diff_class(expected, produced.decode('utf-8', errors='replace'))
    return fail(bucket, detail, labels=labels, nontrivial=nontrivial, key=key)


def _diff_class(expected, actual):
    if actual == '':
        return 'empty'
    if expected.startswith(actual):
        return 'truncated'
    if actual.startswith(expected):
        return 'extra-tail'
    if expected.replace('\n', '') == actual.replace('\n', ''):
        return 'newlines'
    if len(actual) < len(expected):
        return 'shorter'
    if len(actual) > len(expected):
        return 'longer'
    return 'other'


# ======================================================================================================
# API layer
# ======================================================================================================
class _Api:
    """Per-process environment for applying primitives obtained from the public parsers."""
    instance = None

    def __init__(self):
        driver._import_exactly()
        import pathlib
        from exactly_lib.common.tmp_dir_file_spaces import std_tmp_dir_file_space
        from exactly_lib.impls.os_services import os_services_access
        from exactly_lib.impls.types.string_matcher import parse_string_matcher
        from exactly_lib.impls.types.string_source.factory import RootStringSourceFactory
        from exactly_lib.impls.types.string_transformer import parse_string_transformer
        from exactly_lib.section_document.parse_source import ParseSource
        from exactly_lib.tcfs import sds as sds_mod
        from exactly_lib.tcfs.hds import HomeDs
        from exactly_lib.tcfs.tcds import TestCaseDs
        from exactly_lib.test_case.app_env import ApplicationEnvironment
        from exactly_lib.util.process_execution.execution_elements import ProcessExecutionSettings
        from exactly_lib.util.symbol_table import empty_symbol_table
        self.pathlib = pathlib
        self.root = pathlib.Path(driver.work_base()) / 'api'
        self.n = 0
        self.pid = os.getpid()
        self.ParseSource = ParseSource
        self.tm_parser = parse_string_matcher.parsers().full
        self.tr_parser = parse_string_transformer.parsers().full
        self.symbols = empty_symbol_table()
        self._mk_space = std_tmp_dir_file_space
        self._Factory = RootStringSourceFactory
        self._AppEnv = ApplicationEnvironment
        self._os_services = os_services_access.new_for_current_os()
        self._pes = ProcessExecutionSettings.with_environ({})
        self._sds_mod = sds_mod
        self._HomeDs = HomeDs
        self._Tcds = TestCaseDs
        self._tcds = None
        self._home = None

    @classmethod
    def get(cls):
        if cls.instance is None or cls.instance.pid != os.getpid():
            cls.instance = _Api()
        return cls.instance

    def new_case(self):
        """-> (tmp dir of the case (created on demand), home, tcds, env, string source factory).  The home and the
        (never written) sandbox are per process: removing a directory tree per case dominated the cost."""
        self.n += 1
        if self._tcds is None:
            home = self.root / 'home'
            home.mkdir(parents=True)
            sb = self.root / 'sb'
            sb.mkdir()
            self._home = home
            self._tcds = self._Tcds(self._HomeDs(home, home), self._sds_mod.construct_at(str(sb)))
        d = self.root / 'tmp' / ('c%d' % self.n)
        if d.exists():
            shutil.rmtree(str(d))
        space = self._mk_space(d)
        env = self._AppEnv(self._os_services, self._pes, space, 8192)
        return d, self._home, self._tcds, env, self._Factory(space)

    def primitive(self, parser, source_text, tcds, env):
        sdv = parser.parse(self.ParseSource(source_text))
        ddv = sdv.resolve(self.symbols)
        v = ddv.validator
        err = v.validate_pre_sds_if_applicable(tcds.hds)
        if err is None:
            err = v.validate_post_sds_if_applicable(tcds)
        if err is not None:
            raise _ApiValidationError()
        return ddv.value_of_any_dependency(tcds).primitive(env)


class _ApiValidationError(Exception):
    pass


def _api_models(fac, home, text):
    p = home / 'model.txt'
    with open(str(p), 'wb') as f:
        f.write(text.encode('utf-8'))
    return [('str', lambda: fac.of_const_str(text)), ('file', lambda: fac.of_file__poorly_described(p))]


def _read_contents(kind, source):
    c = source.contents()
    if kind == 'str':
        return c.as_str
    with c.as_lines as lines:
        return ''.join(lines)


def check_api(case) -> Verdict:
    import traceback
    text = case['text']
    style = case.get('style', 0)
    api = _Api.get()
    d, home, tcds, env, fac = api.new_case()
    labels = ['api:text', 'layer:api', 'api-model:string', 'api-model:file', 'source-kind:literal',
              'source-kind:file'] + _text_labels(text)
    keys = []
    written = ['model.txt']
    try:
        models = _api_models(fac, home, text)
        items = [('matcher', m) for m in case.get('ms', [])] + [('transformer', t) for t in case.get('trs', [])]
        items += [('line-structure', line_structure_matcher(t, text)) for t in case.get('trs', [])]
        for idx, (what, expr) in enumerate(items):
            derived = (what == 'line-structure')
            if derived:
                what = 'matcher'
            if what == 'matcher':
                src, files = c05_expr.render_tm(expr, style + idx, 'e%d_' % idx)
                expected = ref.eval_tm(expr, text)
                if not derived:
                    labels.append('api-expected:' + ('PASS' if expected else 'FAIL'))
                prims = _PRIMS_TM
            else:
                src, files = c05_expr.render_tr(expr, style + idx, 'e%d_' % idx)
                expected = ref.transform(expr, text)
                labels.append('api-output:' + ('unchanged' if expected == text else
                                               'empty' if expected == '' else 'changed'))
                prims = _PRIMS_TR
            if not derived:
                labels.extend(l for l in _expr_labels(expr, 'tm' if what == 'matcher' else 'tr')
                              if not l.startswith(('regex:', 'tm-size', 'tr-size')))
                if _nontrivial(text, expr, prims):
                    keys.append(_key(text, expr))
            for name, content in files.items():
                with open(str(home / name), 'wb') as f:
                    f.write(content.encode('utf-8'))
                written.append(name)
            detail = {'text': text, what: expr, 'source': src, 'files': files,
                      'expected': expected}
            try:
                src = src.replace('{HOME}', str(home))
                prim = api.primitive(api.tm_parser if what == 'matcher' else api.tr_parser, src, tcds, env)
            except _ApiValidationError:
                return _api_fail('api-%s/validation-error' % what, detail, labels, keys)
            except Exception as ex:
                detail['exception'] = '%s: %s\n%s' % (type(ex).__name__, ex, traceback.format_exc(limit=6))
                return _api_fail('api-%s/parse-or-resolve-exception/%s' % (what, type(ex).__name__), detail, labels,
                                 keys)
            for kind, mk in models:
                try:
                    if what == 'matcher':
                        actual = bool(prim.matches_w_trace(mk()).value)
                    else:
                        actual = _read_contents(kind, prim.transform(mk()))
                except Exception as ex:
                    detail['exception'] = '%s: %s\n%s' % (type(ex).__name__, ex, traceback.format_exc(limit=8))
                    detail['model'] = kind
                    return _api_fail('api-%s/application-exception/%s' % (what, type(ex).__name__), detail, labels,
                                     keys)
                if actual != expected:
                    detail['observed'] = actual
                    detail['model'] = kind
                    if derived:
                        bucket = 'api-transformer/line-structure-of-output'
                    elif what == 'matcher':
                        bucket = 'api-matcher/%s/%s' % (expected, actual)
                    else:
                        bucket = 'api-transformer/output-differs/' + _diff_class(expected, actual)
                    return _api_fail(bucket, detail, labels, keys)
    finally:
        if d.exists():
            shutil.rmtree(str(d), ignore_errors=True)
        for name in written:
            try:
                os.unlink(str(home / name))
            except OSError:
                pass
    return _finish(Verdict(True, labels=labels), keys)


def _finish(v: Verdict, keys):
    # one API case evaluates several (text, expression) pairs: the runner counts one key per case, so the key
    # is the combination; the number of distinct pairs is reported through the label 'api:nontrivial-pairs'
    v.nontrivial = bool(keys)
    v.key = '+'.join(keys) if keys else None
    v.labels = list(v.labels) + ['api:nontrivial-pairs'] * len(keys)
    return v


def _api_fail(bucket, detail, labels, keys):
    return _finish(fail(bucket, detail, labels=labels), keys)


# ======================================================================================================
# strategies
# ======================================================================================================
_style = st.integers(0, 10 ** 6)


_via_symbol = st.sampled_from([False, False, False, False, False, True])


def _dims(tier):
    """(max number of lines of the text, node budget of the expression)"""
    return (6, c05_expr.NODE_BUDGET) if tier == 'quick' else (10, 12)


@st.composite
def _matcher_cases(draw, tier='quick'):
    max_lines, nodes = _dims(tier)
    text, m = draw(c05_expr.matcher_on_text(max_lines, nodes))
    return {'text': text, 'm': m, 'src': draw(st.sampled_from(MATCHER_SOURCES)), 'style': draw(_style),
            'sym': draw(_via_symbol)}


@st.composite
def _transformer_cases(draw, tier='quick'):
    max_lines, nodes = _dims(tier)
    text, tr = draw(c05_expr.transformer_on_text(max_lines, nodes))
    return {'text': text, 'tr': tr, 'src': draw(st.sampled_from(TRANSFORMER_SOURCES)), 'style': draw(_style),
            'sym': draw(_via_symbol)}


@st.composite
def _subproc_cases(draw):
    case = draw(_matcher_cases())
    case['subproc'] = True
    return case


N_API_MATCHERS = 6
N_API_TRANSFORMERS = 4


@st.composite
def _api_cases(draw, tier='quick'):
    max_lines, nodes = _dims(tier)
    text = c05_text.draw_text(draw, max_lines)
    ms = [c05_expr.draw_tm(draw, text, 0, [nodes]) for _ in range(N_API_MATCHERS)]
    trs = [c05_expr.draw_tr(draw, text, 0, [nodes]) for _ in range(N_API_TRANSFORMERS)]
    return {'text': text, 'ms': ms, 'trs': trs, 'style': draw(_style)}


def _render_matcher_sample(case):
    return {'text': case['text'], 'source': case['src'], 'case_text': build_matcher_case(case)[1]}


def _render_transformer_sample(case):
    return {'text': case['text'], 'source': case['src'], 'case_text': build_transformer_case(case)[1]}


# ======================================================================================================
# fixed edge cases (enumerated; the places the property text names)
# ======================================================================================================
def _edge_cases(tier):
    texts = ['', '\n', 'a', 'a\n', 'a\nb', 'a\nb\n', '\n\n', ' a \n', 'a\n\n', '\na', ' \n\t\n', 'ab\nab\nAB\n',
             'a.b\n', 'a' * 70, ('a' * 70) + '\n' + ('b' * 70) + '\n', 'ab\n' * 60]
    extra = ['act_err', 'act_file', 'prog', 'prog_err', 'file_matcher', 'lit_here']
    for i, t in enumerate(texts):
        for src in ('file', 'act', 'lit_str', extra[i % len(extra)]):
            n = ref.num_lines(t)
            ms = [['is-empty'], ['equals', {'text': t, 'form': 'str', 'tr': None}],
                  ['equals', {'text': t, 'form': 'file', 'tr': None}],
                  ['equals', {'text': t + 'x', 'form': 'str', 'tr': None}],
                  ['equals', {'text': t[:-1], 'form': 'file', 'tr': None}],
                  ['equals', {'text': t + '\n', 'form': 'str', 'tr': None}],
                  ['num-lines', ['cmp', '==', {'v': n, 'src': str(n)}]],
                  ['every', ['contents', ['equals', {'text': 'a', 'form': 'str', 'tr': None}]]],
                  ['any', ['contents', ['equals', {'text': 'a', 'form': 'file', 'tr': None}]]],
                  ['every', ['const', False]], ['any', ['const', True]],
                  ['matches', True, {'pat': 'a', 'ic': False, 'groups': 0}],
                  ['matches', False, {'pat': 'a$', 'ic': False, 'groups': 0}]]
            for m in ms:
                yield {'text': t, 'm': m, 'src': src, 'style': 0, 'sym': src in extra and i % 2 == 1}


def _edge_cases_tr(tier):
    texts = ['', '\n', 'a', 'a\n', 'a\nb', 'a\nb\n', '\n\n', ' a \n', 'a\n\n', '\na', ' \n\t\n', '  a\n \n', 'a \n \n ',
             'ab\nab\nAB\n', 'a\n\n\n', '\n\n\na\n\n\nb\n\n\n', ' \n\n \n\n', 'a\n\n\n ', '\t\n \n a \n\t\n \n']
    rx_a = {'pat': 'a', 'ic': False, 'groups': 0}
    trs = [['identity'], ['strip', None], ['strip', 'space'], ['strip', 'nl'], ['char-case', 'upper'],
           ['replace', {'pnl': False, 'at': None, 'rx': rx_a, 'repl': 'X'}],
           ['replace', {'pnl': False, 'at': None, 'rx': {'pat': '\\n', 'ic': False, 'groups': 0}, 'repl': ''}],
           ['replace', {'pnl': True, 'at': None, 'rx': {'pat': '\\n', 'ic': False, 'groups': 0}, 'repl': ''}],
           ['replace', {'pnl': True, 'at': None, 'rx': {'pat': '$', 'ic': False, 'groups': 0}, 'repl': '<'}],
           ['replace', {'pnl': False, 'at': None, 'rx': {'pat': '$', 'ic': False, 'groups': 0}, 'repl': '<'}],
           ['replace', {'pnl': False, 'at': None, 'rx': rx_a, 'repl': 'x\\ny'}],
           ['replace', {'pnl': False, 'at': ['line-num', ['cmp', '==', 2]], 'rx': {'pat': '^', 'ic': False,
                                                                                     'groups': 0}, 'repl': '>'}],
           ['filter', ['contents', ['matches', False, rx_a]]], ['filter', ['line-num', ['cmp', '>=', 2]]],
           ['filter-nums', [[-1]]], ['filter-nums', [[1, None]]], ['grep', True, rx_a],
           ['seq', ['strip', 'nl'], ['replace', {'pnl': False, 'at': None, 'rx': rx_a, 'repl': 'X\\n'}]]]
    extra = ['lit_here', 'prog_exe', 'prog_err', 'stdin', 'text_source_symbol']
    for i, t in enumerate(texts):
        for tr in trs:
            for src in ('file', 'lit_str', 'prog_shell', extra[i % len(extra)]):
                yield {'text': t, 'tr': tr, 'src': src, 'style': 0, 'sym': src in extra and i % 2 == 1}


# ======================================================================================================
# small scope, exhaustive (API layer): every text over {a A space newline} up to a length bound x a fixed list of
# primitive matchers / transformers (and a few compositions) that touch the places the property text names
# ======================================================================================================
def _rx(pat, ic=False, groups=0):
    return {'pat': pat, 'ic': ic, 'groups': groups}


def _i(n):
    return {'v': n, 'src': str(n)}


def _s(text, form='str', tr=None):
    return {'text': text, 'form': form, 'tr': tr}


def _repl(pat, repl, pnl=False, at=None, groups=0, ic=False):
    return ['replace', {'pnl': pnl, 'at': at, 'rx': _rx(pat, ic, groups), 'repl': repl}]


_SMALL_TRS = [
    ['identity'], ['strip', None], ['strip', 'space'], ['strip', 'nl'], ['char-case', 'upper'], ['char-case', 'lower'],
    _repl('a', 'X'), _repl('a', ''), _repl('\\n', ''), _repl('\\n', '', pnl=True), _repl(' ', '\\n'),
    _repl('a', '\\n\\n'), _repl('a', 'x\\ny', pnl=True), _repl('^', '>'), _repl('$', '<'), _repl('$', '<', pnl=True),
    _repl('a*', '-'), _repl('\\s', '_'), _repl('\\s', '_', pnl=True), _repl('(a)|( )', '[\\1\\2]', groups=2),
    _repl('(a)(A)?', '\\g<2>\\1', groups=2), _repl('a', 'b', ic=True), _repl('a\\n', 'Z'), _repl('a\\n', 'Z', pnl=True),
    _repl('a', 'X', at=['line-num', ['cmp', '==', _i(2)]]), _repl('^', '>', at=['contents', ['is-empty']]),
    _repl('\\n', '', at=['not', ['line-num', ['cmp', '>=', _i(2)]]]),
    _repl('$', '\\n', pnl=True, at=['contents', ['matches', True, _rx('a+')]]),
    ['filter', ['line-num', ['cmp', '>=', _i(2)]]], ['filter', ['not', ['line-num', ['cmp', '==', _i(1)]]]],
    ['filter', ['line-num', ['or', ['cmp', '<', _i(2)], ['cmp', '>', _i(2)]]]],
    ['filter', ['contents', ['is-empty']]], ['filter', ['contents', ['matches', False, _rx('a')]]],
    ['filter', ['and', ['line-num', ['cmp', '<=', _i(2)]], ['contents', ['not', ['is-empty']]]]],
    ['filter', ['const', False]], ['filter', ['const', True]],
    ['filter-nums', [[-1]]], ['filter-nums', [[2, None]]], ['filter-nums', [[None, -2]]], ['filter-nums', [[1], [3]]],
    ['filter-nums', [[2, 3]]], ['filter-nums', [[-2, -1]]],
    ['grep', False, _rx('a')], ['grep', True, _rx('a')], ['grep', True, _rx('')], ['grep', False, _rx('^$')],
    ['grep', False, _rx('a', ic=True)], ['grep', True, _rx(' *a? *')],
    ['seq', ['strip', 'nl'], _repl('a', 'X\\n')], ['seq', _repl(' ', '\\n'), ['filter-nums', [[2]]]],
    ['seq', ['filter', ['line-num', ['cmp', '<=', _i(2)]]], ['filter', ['line-num', ['cmp', '>=', _i(2)]]]],
    ['seq', _repl('\\n', ''), ['strip', None], ['char-case', 'upper']],
    ['seq', ['identity'], ['strip', 'space'], ['identity']],
    ['seq', ['grep', False, _rx('a')], _repl('\\n', ' '), ['strip', 'space']],
]

_SMALL_MS = [
    ['is-empty'], ['not', ['is-empty']], ['equals', _s('')], ['equals', _s('a\n')], ['equals', _s('a\n', 'file')],
    ['equals', _s('a\n', 'here')], ['equals', _s('a')], ['equals', _s('a', 'file')], ['equals', _s('\n', 'file')],
    ['equals', _s('\n')], ['equals', _s('a\na\n', 'here')], ['equals', _s('a a', 'file')],
    ['equals', _s(' a \n', 'str', ['strip', None])], ['equals', _s('a\n\n', 'file', ['strip', 'nl'])],
    ['matches', False, _rx('a')], ['matches', True, _rx('a')], ['matches', True, _rx('a\\n')], ['matches', False, _rx('^a$')],
    ['matches', False, _rx('(?m)^a$')], ['matches', True, _rx('.*')], ['matches', True, _rx('(?s).*')],
    ['matches', False, _rx('a$')], ['matches', False, _rx('a\\Z')], ['matches', True, _rx('a', ic=True)],
    ['matches', True, _rx('')], ['matches', False, _rx('')], ['matches', True, _rx('a|a\\n')], ['matches', False, _rx('\\n\\n')],
    ['matches', True, _rx('(?:a|A| |\\n)*')], ['matches', False, _rx('^ ')], ['matches', False, _rx(' $')],
    ['num-lines', ['cmp', '==', _i(0)]], ['num-lines', ['cmp', '==', _i(1)]], ['num-lines', ['cmp', '==', _i(2)]],
    ['num-lines', ['cmp', '>', _i(2)]], ['num-lines', ['not', ['cmp', '<=', _i(1)]]],
    ['every', ['contents', ['matches', False, _rx('a')]]], ['any', ['contents', ['is-empty']]],
    ['every', ['contents', ['equals', _s('a')]]], ['any', ['contents', ['equals', _s('a', 'file')]]],
    ['any', ['line-num', ['cmp', '==', _i(2)]]], ['every', ['line-num', ['cmp', '<=', _i(1)]]],
    ['every', ['contents', ['matches', True, _rx('a*')]]], ['any', ['contents', ['matches', True, _rx(' +')]]],
    ['every', ['contents', ['num-lines', ['cmp', '==', _i(1)]]]], ['any', ['contents', ['num-lines', ['cmp', '==', _i(0)]]]],
    ['any', ['and', ['line-num', ['cmp', '>=', _i(2)]], ['contents', ['matches', False, _rx('a', ic=True)]]]],
    ['every', ['const', False]], ['any', ['const', True]],
    ['on', ['strip', None], ['is-empty']], ['on', ['filter', ['contents', ['is-empty']]], ['num-lines', ['cmp', '==', _i(1)]]],
    ['on', ['char-case', 'upper'], ['equals', _s('A\n')]], ['on', _repl('\\n', ''), ['num-lines', ['cmp', '<=', _i(1)]]],
    ['on', _repl('a', '\\n'), ['every', ['contents', ['is-empty']]]],
    ['on', ['strip', 'nl'], ['matches', True, _rx('.*')]], ['on', ['grep', False, _rx('a')], ['equals', _s('a\n', 'file')]],
    ['on', ['filter-nums', [[-1]]], ['equals', _s('a')]],
]


def _small_scope_cases(tier):
    import itertools
    max_len = 4 if tier == 'quick' else 6
    for n in range(max_len + 1):
        for chars in itertools.product('aA \n', repeat=n):
            text = ''.join(chars)
            if tier != 'quick' and n == 6 and 'A' in text:
                continue  # length 6 over the 3-letter alphabet only
            yield {'text': text, 'ms': _SMALL_MS, 'trs': _SMALL_TRS, 'style': 0}


SUBS = [
    Sub('cli_matcher_edge', check_cli_matcher, enumerate=_edge_cases, exhaustive=True, render=_render_matcher_sample),
    Sub('cli_transformer_edge', check_cli_transformer, enumerate=_edge_cases_tr, exhaustive=True,
        render=_render_transformer_sample),
    Sub('cli_matcher', check_cli_matcher, strategy=lambda tier: _matcher_cases(tier),
        budget={'quick': 6000, 'thorough': 120000}, render=_render_matcher_sample),
    Sub('cli_transformer', check_cli_transformer, strategy=lambda tier: _transformer_cases(tier),
        budget={'quick': 4000, 'thorough': 80000}, render=_render_transformer_sample),
    Sub('api_pairs', check_api, strategy=lambda tier: _api_cases(tier),
        budget={'quick': 5000, 'thorough': 100000}),
    Sub('api_small_scope', check_api, enumerate=_small_scope_cases, exhaustive=True),
    # the same check through a real OS process (guards against artefacts of the in-process harness)
    Sub('cli_matcher_subprocess', check_cli_matcher, strategy=lambda tier: _subproc_cases(),
        budget={'quick': 32, 'thorough': 640}, render=_render_matcher_sample),
]
