"""C13 - Line selection by `filter` is exact: the read-ahead optimisation loses no line.

Two layers, one oracle (vlib/ref/c13_ref.py: per-line evaluation of the generating tree with the 1-based line
number; documented set semantics of LINE-NUMBER-RANGE):

 (a) CLI: `file out = -contents-of -rel-home in.txt -transformed-by filter ...` run through the real main
     program with --keep; the bytes of the created file are compared with the reference.
 (b) API: the line matcher built by the public parser is applied line by line (must agree with the tree),
     `line_nums_interval.interval_of_matcher(m)` must contain every accepted line number (soundness of the
     read-ahead optimisation), and the `filter` transformer built by the public parser applied to a text must
     give the reference output.  Includes two exhaustive sub-spaces.

Finding KF-C13-1 (DESIGN section 4, #3) is classified by a defect model (c13_ref.interval_model(defect=True)):
a mismatch is reported as the known finding only if the observation equals, exactly, what that model predicts.
"""
import os
import shutil

from vlib import driver
from vlib.gen import c13_gen as gen
from vlib.ref import c13_ref as ref
from vlib import fuzz
from vlib.runner import Sub, Verdict, fail

PROPERTY_ID = 'C13'
LEVEL = 'exploration'
KF1 = 'KF-C13-1'

RULE = ('line-matcher trees (0..2 levels of ! && || at line-matcher level over `line-num IM` / contents matchers / '
        'constants; IM = 0..2 levels of ! && || over the six comparisons with operands in [-2, N+3] written as '
        'literals or small Python expressions, and constants; one level more of each in the thorough tier) and lists '
        'of 1-4 line-number ranges of the four forms with bounds in [-N-2, N+2], applied as one filter or a '
        'composition of two to texts of 0..N lines (N = 8 quick / 12 thorough; distinguishable lines, last line with '
        'and without newline); drawn by Hypothesis.  Exhaustive at API level: every IM tree of depth <= 2 over '
        '{6 operators x {0,1,2,3,5,9}} + {constants} under 0..2 IM-level and 0..2 line-matcher-level negations, and '
        'every &&/|| of two `line-num LEAF` under 0..2 negations, each on all texts of 0..6 lines; every list of one '
        'or two ranges with bounds in [-3,3] (thorough [-4,4]) on all texts of 0..4 (0..5) lines, final newline '
        'present and absent.  Non-trivial: the expression contains a line-num and a connective (! && ||), or is a '
        'range list; distinct = distinct (expression text, number of lines, final newline)')
ASSUMPTIONS = [
    'a LINE-NUMBER-RANGE is read as a set of integers: bounds that do not denote an existing line (0, beyond either '
    'end) are still bounds - `0:` and `-99:` select every line, `:0`, `0`, `3:2`, `:-99` none (the manual only says '
    '"negative numbers denote line numbers relative to the end"; this is the only reading under which it does not '
    'matter whether a bound exists)',
    'a kept line keeps its own line separator; a last line without newline stays without',
    'the manual does not say that the LINE-MATCHER of `filter` must be free of unparenthesised infix operators '
    '(it is a syntax error); the generators always parenthesise there, as for `line-num` and `!` operands',
    'interval_of_matcher is only required to be sound (contain every accepted line number), not tight',
    'exhaustive sub-spaces: each evaluation covers all texts of 0..maxn lines inside one check call',
]


# ------------------------------------------------------------------------------------------------
# shared classification
def _lm_labels(lm):
    labels = set()
    kinds = list(ref.nodes(lm))
    labels.add('top:' + lm[0])
    if any(l == 'im' and n[0] in ('and', 'or') for l, n in kinds):
        labels.add('has:im-connective')
    if any(l == 'im' and n[0] == 'not' for l, n in kinds):
        labels.add('has:im-negation')
    if any(l == 'lm' and n[0] in ('and', 'or') for l, n in kinds):
        labels.add('has:lm-connective')
    if any(l == 'lm' and n[0] == 'not' for l, n in kinds):
        labels.add('has:lm-negation')
    if any(n[0] in ('cm', 'ce') for l, n in kinds):
        labels.add('has:contents')
    if any(n[0] == 'const' for l, n in kinds):
        labels.add('has:constant')
    if any(n[0] == 'cmp' and not n[2].lstrip('-').isdigit() for l, n in kinds):
        labels.add('has:python-expression')
    if ref.has_negated_ln_connective(lm):
        labels.add('has:negated-line-num-connective')
    labels.add('depth:%d' % ref.depth(lm))
    return sorted(labels)


def _lm_nontrivial(lm) -> bool:
    kinds = [n[0] for _, n in ref.nodes(lm)]
    return 'ln' in kinds and any(k in ('and', 'or', 'not') for k in kinds)


def _n_label(n):
    return 'N:0' if n == 0 else 'N:1' if n == 1 else 'N:2-4' if n <= 4 else 'N:5-8' if n <= 8 else 'N:9+'


def _kept_label(text, out):
    if text == '':
        return 'kept:empty-input'
    if out == '':
        return 'kept:none'
    if out == text:
        return 'kept:all'
    return 'kept:some'


def _readahead_labels(lm, n_lines):
    """does the (sound) interval actually let the reader skip or stop early on this text?"""
    h = ref.interval_model(lm, defect=False)
    if h == ref.EMPTY:
        return ['interval:empty']
    lo, hi = h
    out = ['interval:' + ('unlimited' if lo is None and hi is None else
                          'upper' if lo is None else 'lower' if hi is None else 'finite')]
    if lo is not None and 1 < lo <= n_lines:
        out.append('readahead:skips-head')
    if hi is not None and hi < n_lines:
        out.append('readahead:stops-early')
    return out


def _range_labels(rs):
    labels = {'ranges:%d' % len(rs)}
    for r in rs:
        labels.add('rform:' + r['f'])
        vals = [ref.int_value(r[k]) for k in ('a', 'b') if k in r]
        for v in vals:
            labels.add('rbound:' + ('neg' if v < 0 else 'zero' if v == 0 else 'pos'))
        if r['f'] == 'b' and (vals[0] < 0) != (vals[1] < 0):
            labels.add('rform:b-mixed-sign')
    return sorted(labels)


# ------------------------------------------------------------------------------------------------
# (a) CLI layer
def build_cli(case):
    defs, tr = gen.render_transformer(case['stages'], case.get('mp', False), case.get('sym', False))
    lines = ['[setup]'] + defs + ['file out = -contents-of -rel-home in.txt -transformed-by ' + tr]
    return '\n'.join(lines) + '\n'


def check_cli(case) -> Verdict:
    text = gen.text_of(case['lines'], case['nl'])
    stages = case['stages']
    expected = ref.apply_stages(text, stages)
    case_text = build_cli(case)
    with driver.Workspace() as ws:
        ws.write('in.txt', text, subst=False)
        ws.write('t.case', case_text, subst=False)
        r = driver.run_inproc(ws, ['--keep', 't.case'], mem_buff_size=case.get('buf'))
        actual = None
        if len(r.sandboxes) == 1:
            p = os.path.join(ws.tmproot, r.sandboxes[0], 'act', 'out')
            if os.path.isfile(p):
                with open(p, 'rb') as f:
                    actual = f.read().decode('utf-8', errors='replace')

    labels = ['layer:cli', 'stages:%d' % len(stages), 'buf:%s' % case.get('buf'), 'sym:%s' % bool(case.get('sym')),
              _n_label(len(case['lines'])), 'final-newline:%s' % (bool(case['nl']) or not case['lines']),
              _kept_label(text, expected)]
    nontrivial = False
    for s in stages:
        if 'm' in s:
            labels.extend(_lm_labels(s['m']))
            labels.append('stage:matcher')
            nontrivial = nontrivial or _lm_nontrivial(s['m'])
        else:
            labels.extend(_range_labels(s['r']))
            labels.append('stage:ranges')
            nontrivial = True
    if 'm' in stages[0]:
        labels.extend(_readahead_labels(stages[0]['m'], len(case['lines'])))
    labels = sorted(set(labels))
    key = '%s|%d|%s' % (gen.render_transformer(stages)[1], len(case['lines']), case['nl'])
    detail = {'case_text': case_text, 'in.txt': text, 'expected_out': expected, 'observed_out': actual,
              'exit': r.exit_code, 'stderr': r.err[:800], 'mem_buff_size': case.get('buf')}

    if r.exception or r.timed_out:
        detail['exception'] = r.exception
        return fail('cli/escaped-exception-or-timeout', detail, labels=labels, nontrivial=nontrivial, key=key)
    if r.exit_code != 0 or r.first_err_line != 'PASS' or actual is None:
        return fail('cli/valid-case-did-not-pass/%s' % r.first_err_line, detail, labels=labels,
                    nontrivial=nontrivial, key=key)
    if actual == expected:
        return Verdict(True, nontrivial=nontrivial, key=key, labels=labels, sample=case_text)
    return _classify_output_mismatch('cli', text, stages, expected, actual, detail, labels, nontrivial, key)


def _classify_output_mismatch(layer, text, stages, expected, actual, detail, labels, nontrivial, key) -> Verdict:
    # what defect model KF-C13-1 predicts for this very case, and what the same model without the defect gives
    predicted = _apply_stages_with_model(text, stages, defect=True)
    sound = _apply_stages_with_model(text, stages, defect=False)
    detail['kf1_model_prediction'] = predicted
    if sound == expected and predicted == actual and predicted != expected:
        return Verdict(ok=False, known=KF1, bucket=layer + '/known-KF-C13-1', detail=detail, labels=labels + ['known:KF-C13-1'],
                       nontrivial=nontrivial, key=key)
    what = 'lines-lost' if len(actual) < len(expected) else 'lines-added-or-changed'
    kind = '+'.join('matcher' if 'm' in s else 'ranges' for s in stages)
    return fail('%s/output/%s/%s' % (layer, kind, what), detail, labels=labels, nontrivial=nontrivial, key=key)


def _apply_stages_with_model(text, stages, defect: bool) -> str:
    for s in stages:
        if 'm' in s:
            text = ref.filter_by_matcher_within(text, s['m'], ref.interval_model(s['m'], defect))
        else:
            text = ref.filter_by_ranges(text, s['r'])
    return text


# ------------------------------------------------------------------------------------------------
# (b) API layer
class _Api:
    def __init__(self):
        import pathlib
        driver._import_exactly()
        from exactly_lib.common import tmp_dir_file_spaces
        from exactly_lib.impls.os_services import os_services_access
        from exactly_lib.impls.types.line_matcher import parse_line_matcher, line_nums_interval
        from exactly_lib.impls.types.string_source.constant_str import string_source
        from exactly_lib.impls.types.string_transformer import parse_string_transformer
        from exactly_lib.section_document.parse_source import ParseSource
        from exactly_lib.tcfs.hds import HomeDs
        from exactly_lib.tcfs.sds import SandboxDs
        from exactly_lib.tcfs.tcds import TestCaseDs
        from exactly_lib.test_case.app_env import ApplicationEnvironment
        from exactly_lib.util.process_execution.execution_elements import ProcessExecutionSettings
        from exactly_lib.util.symbol_table import SymbolTable
        self.pathlib = pathlib
        self.ParseSource = ParseSource
        self.SymbolTable = SymbolTable
        self.lm_parser = parse_line_matcher.parsers().full
        self.tr_parser = parse_string_transformer.parsers().full
        self.interval_of_matcher = line_nums_interval.interval_of_matcher
        self.string_source = string_source
        self.std_space = tmp_dir_file_spaces.std_tmp_dir_file_space
        self.ApplicationEnvironment = ApplicationEnvironment
        self.os_services = os_services_access.new_for_current_os()
        self.proc = ProcessExecutionSettings.null()
        self.tcds = TestCaseDs(HomeDs(pathlib.Path('/nonexistent-verif/hds-case'),
                                      pathlib.Path('/nonexistent-verif/hds-act')),
                               SandboxDs('/nonexistent-verif/sds'))
        self.counter = 0

    def env(self, mem_buff_size=8192):
        self.counter += 1
        self.tmp_dir = os.path.join(driver.work_base(), 'c13-api-%d' % self.counter)
        self.space = self.std_space(self.pathlib.Path(self.tmp_dir))
        return self.ApplicationEnvironment(self.os_services, self.proc, self.space, mem_buff_size)

    def cleanup(self):
        if os.path.isdir(self.tmp_dir):
            shutil.rmtree(self.tmp_dir, ignore_errors=True)

    def _primitive(self, parser, text, env):
        src = self.ParseSource(text)
        sdv = parser.parse(src)
        if not src.is_at_eof and src.remaining_source.strip() != '':
            raise _NotConsumed(src.remaining_source)
        ddv = sdv.resolve(self.SymbolTable())
        err = ddv.validator.validate_pre_sds_if_applicable(self.tcds.hds)
        if err is None:
            err = ddv.validator.validate_post_sds_if_applicable(self.tcds)
        if err is not None:
            raise _NotValid(text)
        return ddv.value_of_any_dependency(self.tcds).primitive(env)

    def line_matcher(self, text, env):
        return self._primitive(self.lm_parser, text, env)

    def transformer(self, text, env):
        return self._primitive(self.tr_parser, text, env)

    def transform(self, transformer, text, env) -> str:
        return transformer.transform(self.string_source(text, env.tmp_files_space)).contents().as_str


class _NotConsumed(Exception):
    pass


class _NotValid(Exception):
    pass


_API = None


def _api() -> _Api:
    global _API
    if _API is None:
        _API = _Api()
    return _API


def _hull_of(iv):
    if iv.is_empty:
        return ref.EMPTY
    return (iv.lower, iv.upper)


def _hull_str(h):
    return 'empty' if h == ref.EMPTY else '%s:%s' % ('' if h[0] is None else h[0], '' if h[1] is None else h[1])


def _texts_of_case(case):
    """-> list of (lines, nl)"""
    if 'maxn' in case:
        out = [(['x%d' % i for i in range(1, n + 1)], True) for n in range(case['maxn'] + 1)]
        out.append((['x%d' % i for i in range(1, case['maxn'] + 1)], False))
        out.append((['x1'], False))
        return out
    return [(case['lines'], case['nl'])]


def check_api_matcher(case) -> Verdict:
    lm = case['lm']
    mp = case.get('mp', False)
    lm_text = gen.render_lm(lm, False, mp)
    tr_text = 'filter ' + gen.render_lm(lm, True, mp)
    texts = _texts_of_case(case)
    labels = ['layer:api'] + _lm_labels(lm)
    if 'lines' in case:
        labels.append(_n_label(len(case['lines'])))
    nontrivial = _lm_nontrivial(lm)
    n_key = case.get('maxn', len(case.get('lines', ())))
    key = '%s|%s|%s' % (lm_text, n_key, case.get('nl'))
    detail = {'line_matcher': lm_text, 'transformer': tr_text}

    def bad(bucket, **kw):
        detail.update(kw)
        return fail(bucket, detail, labels=sorted(set(labels)), nontrivial=nontrivial, key=key)

    api = _api()
    env = api.env()
    try:
        try:
            m = api.line_matcher(lm_text, env)
            t = api.transformer(tr_text, env)
        except (_NotConsumed, _NotValid) as ex:
            return bad('api/valid-expression-rejected/%s' % type(ex).__name__, error=str(ex))
        except Exception as ex:  # a parse error of a valid expression
            return bad('api/valid-expression-rejected/%s' % type(ex).__name__, error=str(ex)[:500])

        # 1. the primitive, line by line, against the tree
        consts = ref.constants_of(lm)
        longest = max(len(ls) for ls, _ in texts)
        upto = max([longest] + [c + 2 for c in consts]) + 1
        first_lines = max(texts, key=lambda x: len(x[0]))[0]
        accepted = []
        for n in range(1, upto + 1):
            line = first_lines[n - 1] if n <= len(first_lines) else 'x%d' % n
            want = ref.lm_eval(lm, n, line)
            got = bool(m.matches_w_trace((n, line)).value)
            if want != got:
                return bad('api/matcher-semantics/%s' % ('accepts' if got else 'rejects'),
                           line_number=n, line=line, expected=want, observed=got)
            if got:
                accepted.append(n)

        # 2. soundness of the interval that limits reading
        h = _hull_of(api.interval_of_matcher(m))
        labels.append('actual-interval:' + ('empty' if h == ref.EMPTY else
                                            'unlimited' if h == ref.ALL else
                                            'upper' if h[0] is None else 'lower' if h[1] is None else 'finite'))
        detail['interval_of_matcher'] = _hull_str(h)
        outside = [n for n in accepted if not ref.in_hull(n, h)]
        h_defect = ref.interval_model(lm, defect=True)
        h_sound = ref.interval_model(lm, defect=False)
        model_outside = [n for n in accepted if not ref.in_hull(n, h_sound)]
        if model_outside:
            raise AssertionError('defect model without the defect is unsound on %s: %s' % (lm_text, model_outside))
        known = None
        if outside:
            detail.update(accepted_line_numbers=accepted, accepted_outside_interval=outside,
                          kf1_model_interval=_hull_str(h_defect), sound_model_interval=_hull_str(h_sound))
            if h == h_defect and h_defect != h_sound:
                known = 'interval'
            else:
                return bad('api/interval-unsound/%s' % ('empty' if h == ref.EMPTY else 'bounds'))
        if h != ref.EMPTY:
            lo, hi = h
            if (lo is not None and lo < 1) or (hi is not None and hi < 1) or \
                    (lo is not None and hi is not None and lo > hi):
                # model_construction...__interval documents "must be adapted to line number ranges"
                return bad('api/interval-not-a-line-number-range')

        # 3. the transformer on whole texts
        out_labels = set()
        for lines, nl in texts:
            text = gen.text_of(lines, nl)
            expected = ref.filter_by_matcher(text, lm)
            actual = api.transform(t, text, env)
            out_labels.add(_kept_label(text, expected))
            out_labels.update(l for l in _readahead_labels(lm, len(lines)) if l.startswith('readahead'))
            if actual != expected:
                d = dict(detail)
                d.update(text=text, expected_out=expected, observed_out=actual)
                v = _classify_output_mismatch('api', text, [{'m': lm}], expected, actual, d, sorted(set(labels)),
                                              nontrivial, key)
                if not v.known:
                    return v
                known = 'output'
                detail.setdefault('example', {'text': text, 'expected_out': expected, 'observed_out': actual})
        labels.extend(out_labels)
        if known:
            return Verdict(ok=False, known=KF1, bucket='api/known-KF-C13-1', detail=detail,
                           labels=sorted(set(labels + ['known:KF-C13-1'])), nontrivial=nontrivial, key=key)
        return Verdict(True, nontrivial=nontrivial, key=key, labels=sorted(set(labels)), sample=tr_text)
    finally:
        api.cleanup()


def check_api_ranges(case) -> Verdict:
    rs = case['r']
    tr_text = 'filter -line-nums ' + ' '.join(gen.render_range(r) for r in rs)
    texts = _texts_of_case(case)
    labels = ['layer:api'] + _range_labels(rs)
    if 'lines' in case:
        labels.append(_n_label(len(case['lines'])))
    n_key = case.get('maxn', len(case.get('lines', ())))
    key = '%s|%s|%s' % (tr_text, n_key, case.get('nl'))
    detail = {'transformer': tr_text}
    api = _api()
    env = api.env()
    try:
        try:
            t = api.transformer(tr_text, env)
        except Exception as ex:
            detail['error'] = str(ex)[:500]
            return fail('api/valid-ranges-rejected/%s' % type(ex).__name__, detail, labels=labels, nontrivial=True,
                        key=key)
        out_labels = set()
        for lines, nl in texts:
            text = gen.text_of(lines, nl)
            expected = ref.filter_by_ranges(text, rs)
            actual = api.transform(t, text, env)
            out_labels.add(_kept_label(text, expected))
            if actual != expected:
                detail.update(text=text, expected_out=expected, observed_out=actual)
                what = 'lines-lost' if len(actual) < len(expected) else 'lines-added-or-changed'
                return fail('api/output/ranges/%s' % what, detail, labels=labels, nontrivial=True, key=key)
        return Verdict(True, nontrivial=True, key=key, labels=sorted(set(labels) | out_labels), sample=tr_text)
    finally:
        api.cleanup()


# ------------------------------------------------------------------------------------------------
def decode_lm(data: bytes):
    """bytes -> {'lm': line-matcher tree (<= 3 levels of ! && || above line-num leaves with integer-matcher trees of
    <= 3 levels), 'maxn': 7}: a byte-driven recursive builder (for the coverage-guided campaign)"""
    it = iter(data)

    def nxt():
        return next(it, 0)

    def im(depth):
        k = nxt() % 8
        if depth == 0 or k < 3:
            c = nxt()
            if c % 13 == 12:
                return ['const', bool(c & 16)]
            return ['cmp', gen.OPS[c % 6], str((nxt() % 14) - 2)]
        if k < 5:
            return ['not', im(depth - 1)]
        return ['and' if k < 7 else 'or', [im(depth - 1) for _ in range(2 + nxt() % 2)]]

    def lm(depth):
        k = nxt() % 8
        if depth == 0 or k < 3:
            c = nxt() % 10
            if c < 7:
                return ['ln', im(3)]
            if c == 7:
                return ['const', bool(nxt() & 1)]
            if c == 8:
                return ['ce']
            r = gen.REGEXES[nxt() % len(gen.REGEXES)]
            return ['cm', r[0], r[1]]
        if k < 5:
            return ['not', lm(depth - 1)]
        return ['and' if k < 7 else 'or', [lm(depth - 1) for _ in range(2 + nxt() % 2)]]

    return {'lm': lm(3), 'maxn': 7}


SUBS = [
    Sub('api_interval_exhaustive', check_api_matcher, enumerate=gen.enum_interval_trees, exhaustive=True),
    Sub('api_ranges_exhaustive', check_api_ranges, enumerate=gen.enum_range_lists, exhaustive=True),
    Sub('api_matcher_random', check_api_matcher, strategy=gen.api_matcher_cases,
        budget={'quick': 16000, 'thorough': 1000000}),
    Sub('api_ranges_random', check_api_ranges, strategy=gen.api_range_cases,
        budget={'quick': 8000, 'thorough': 400000}),
    Sub('cli_matcher', check_cli, strategy=lambda tier: gen.cli_cases(tier, 'matcher'),
        budget={'quick': 2400, 'thorough': 100000}, render=build_cli),
    Sub('cli_ranges', check_cli, strategy=lambda tier: gen.cli_cases(tier, 'ranges'),
        budget={'quick': 1200, 'thorough': 50000}, render=build_cli),
    fuzz.fuzz_sub('api_matcher_fuzz', 'props.c13_filter', 'check_api_matcher', 'decode_lm', 'api_matcher_random',
                  runs={'quick': 8000, 'thorough': 600000}, shards={'quick': 8, 'thorough': 16}, max_len=48,
                  instrument=('exactly_lib.impls.types.interval', 'exactly_lib.util.interval',
                              'exactly_lib.impls.types.line_matcher', 'exactly_lib.impls.types.integer_matcher',
                              'exactly_lib.impls.types.string_transformer.impl.filter'),
                  seeds=[bytes([0, 0, 5, 5, 0, 3, 4, 0, 9, 12]), bytes([3, 6, 0, 0, 7, 0, 1, 3, 0, 0, 6, 2, 11])]),
]
