"""C14 - a text has one value however it is consumed.

Layer A (API): a source tree (literal / file / program output, transformed, concatenated) is built through the public
factories and parsers with a chosen memory-buffer size; a generated sequence of accesses (as_str, as_lines, partial
as_lines, as_file, write_to, freeze, ...) is applied to its nodes; every access must give the characters and the
division into lines of the reference value (vlib/ref/c14_model.py).
Layer B (CLI): the same texts through the real program with MainProgram(mem_buff_size=B): files written from
TEXT-SOURCEs are compared byte by byte, and families of assertions that must agree (M, `-transformed-by identity M`,
`( M && M )`, `( M || M )`, different kinds of source for expected/actual) are compared with the reference verdict.

Deviations that are exactly what one of the three modelled defects predicts are reported as KF-C14-1..3 (see
c14_model: D1 str.splitlines on texts held in memory, D2 universal newlines on texts held in files, D3 the spooled
file's rollover position); every other deviation is a violation.
"""

import os
import shutil
import traceback

from hypothesis import strategies as st

from vlib import driver
from vlib.gen import c14_gen as gen
from vlib.ref import c14_model as model
from vlib.runner import Sub, Verdict, fail

PROPERTY_ID = 'C14'
LEVEL = 'exploration'
RULE = ('layer A: case = (buffer size B in {1,2,3,5,8,16,64,8192}, source tree of <= 3 transformers over literal / file / '
        'program-output leaves and concatenations, 2-8 accesses as_str/as_lines/partial as_lines/as_file/write_to/'
        'freeze/... addressed to any node); non-trivial = some leaf text has a character str.splitlines treats as a '
        'line break, a CR, or at least B characters, and the sequence has two different access methods with a freeze '
        'between them; distinct = distinct case.  Layer B: case = (B, text, source kinds, transformer chain, matcher '
        'family); non-trivial = same text rule; distinct = distinct case')
ASSUMPTIONS = [
    'the division into lines is "split after every \\n" (manual of replace/strip: "Lines are separated by "\\n", '
    'regardless of the current OS"; filter: "the line separator depends on the current OS" = "\\n" here)',
    'CR is an ordinary character of a text on this OS; a test-case FILE is itself read with universal newlines, so '
    'literals written in a case file never contain CR (they do in layer A when built by the factory)',
    'the transformer set is small and unambiguous on purpose (C05 owns transformer semantics); run-programs are '
    '`cat` and `tr a X`',
    'defect-model classification is by exact equality with a value in the closure of the reference value under '
    'D1/D2/D3 applied wherever a text may be held in memory / in a file / spooled; it is not a simulation of which '
    'representation the implementation picks',
]

KF_NAMES = {'KF-C14-1': 'splitlines', 'KF-C14-2': 'universal-newlines', 'KF-C14-3': 'rollover-seek'}


# ======================================================================================================
# Layer A: API
# ======================================================================================================
class _Api:
    instance = None

    def __init__(self):
        driver._import_exactly()
        import pathlib
        from exactly_lib.common.tmp_dir_file_spaces import std_tmp_dir_file_space
        from exactly_lib.impls.os_services import os_services_access
        from exactly_lib.impls.types.string_source import parse as ss_parse
        from exactly_lib.impls.types.string_source.factory import RootStringSourceFactory
        from exactly_lib.impls.types.string_transformer import parse_string_transformer
        from exactly_lib.section_document.parse_source import ParseSource
        from exactly_lib.tcfs import sds as sds_mod
        from exactly_lib.tcfs.hds import HomeDs
        from exactly_lib.tcfs.tcds import TestCaseDs
        from exactly_lib.test_case.app_env import ApplicationEnvironment
        from exactly_lib.type_val_prims.string_source.impls import concat
        from exactly_lib.type_val_prims.string_source import string_source as ss_mod
        from exactly_lib.util.process_execution.execution_elements import ProcessExecutionSettings
        from exactly_lib.util.symbol_table import empty_symbol_table
        self.root = pathlib.Path(driver.work_base()) / 'c14api'
        self.pid = os.getpid()
        self.n = 0
        self.ParseSource = ParseSource
        self.tr_parser = parse_string_transformer.parsers().full
        self.ss_parser = ss_parse.default_parser_for(phase_is_after_act=False)
        self.symbols = empty_symbol_table()
        self.concat = concat
        self.ss_mod = ss_mod
        self._mk_space = std_tmp_dir_file_space
        self._Factory = RootStringSourceFactory
        self._AppEnv = ApplicationEnvironment
        self._os_services = os_services_access.new_for_current_os()
        self._pes = ProcessExecutionSettings.with_environ({'PATH': '/usr/bin:/bin'})
        home = self.root / 'home'
        home.mkdir(parents=True)
        sb = self.root / 'sb'
        sb.mkdir()
        self.home = home
        self.tcds = TestCaseDs(HomeDs(home, home), sds_mod.construct_at(str(sb)))

    @classmethod
    def get(cls):
        if cls.instance is None or cls.instance.pid != os.getpid():
            cls.instance = _Api()
        return cls.instance

    def new_case(self, buff):
        self.n += 1
        d = self.root / 'tmp' / ('c%d' % self.n)
        if d.exists():
            shutil.rmtree(str(d))
        space = self._mk_space(d)
        env = self._AppEnv(self._os_services, self._pes, space, buff)
        return d, env, self._Factory(space)

    def primitive(self, parser, source_text, env):
        sdv = parser.parse(self.ParseSource(source_text))
        ddv = sdv.resolve(self.symbols)
        v = ddv.validator
        err = v.validate_pre_sds_if_applicable(self.tcds.hds)
        if err is None:
            err = v.validate_post_sds_if_applicable(self.tcds)
        if err is not None:
            raise _ApiValidationError()
        return ddv.value_of_any_dependency(self.tcds).primitive(env)


class _ApiValidationError(Exception):
    pass


class _Built:
    """The StringSource objects of a source tree, in pre-order (root first), with the syntax they were made from."""

    def __init__(self):
        self.objects = []
        self.nodes = []
        self.syntax = []
        self.files = {}


def _build(api, env, fac, buff, node, built, prefix):
    idx = len(built.objects)
    built.objects.append(None)
    built.nodes.append(node)
    built.syntax.append(None)
    kind = node[0]
    if kind == 'str':
        obj = fac.of_const_str(node[1])
        syntax = 'factory.of_const_str(%r)' % node[1]
    elif kind in ('lit', 'file', 'prog'):
        files = {}
        syntax = gen.render_source(node, files, cat_dir=str(api.home))
        for name, text in files.items():
            unique = '%s%d_%s' % (prefix, idx, name)
            syntax = syntax.replace(name, unique)
            with open(str(api.home / unique), 'wb') as f:
                f.write(text.encode('utf-8'))
            built.files[unique] = text
        obj = api.primitive(api.ss_parser, syntax, env)
    elif kind == 'tr':
        inner = _build(api, env, fac, buff, node[2], built, prefix)
        syntax = gen.render_tr(node[1])
        obj = api.primitive(api.tr_parser, syntax, env).transform(inner)
    elif kind == 'concat':
        parts = [_build(api, env, fac, buff, p, built, prefix) for p in node[1]]
        obj = api.concat.string_source(parts, buff)
        syntax = 'concat.string_source([...], %d)' % buff
    else:
        raise ValueError(kind)
    built.objects[idx] = obj
    built.syntax[idx] = syntax
    return obj


def _access(api, obj, op, arg, d, k):
    """-> ('text', str) | ('lines', [str]) | ('prefix-lines', [str]) | ('head', (str, bool)) | ('none', None)"""
    if op == 'freeze':
        obj.freeze()
        return 'none', None
    c = obj.contents()
    if op == 'ext':
        c.may_depend_on_external_resources
        return 'none', None
    if op == 'str':
        return 'text', c.as_str
    if op == 'lines':
        with c.as_lines as lines:
            return 'lines', list(lines)
    if op == 'lines_k':
        got = []
        with c.as_lines as lines:
            for ln in lines:
                if len(got) >= arg:
                    break
                got.append(ln)
        return 'prefix-lines', got
    if op == 'file':
        p = c.as_file
        with open(str(p), 'rb') as f:
            return 'bytes', f.read()
    if op == 'write':
        # write_to "writes the string to a file": a real file (a program may write to its file descriptor)
        os.makedirs(str(d), exist_ok=True)
        p = os.path.join(str(d), 'verif-out-%d' % k)
        with open(p, 'w', encoding='utf-8', newline='') as f:
            c.write_to(f)
        with open(p, 'rb') as f:
            return 'bytes', f.read()
    if op == 'head':
        return 'head', api.ss_mod.read_lines_as_str__w_minimum_num_chars(arg, c)
    raise ValueError(op)


def _api_labels(case):
    src, buff = case['src'], case['buff']
    labels = ['B:%d' % buff]
    texts = model.leaf_texts(src)
    for t in texts:
        labels.extend(gen.flavour_labels(t, buff))
    nodes = model.nodes_preorder(src)
    for n in nodes:
        if n[0] == 'tr':
            labels.extend('tr:' + t for t in model.tr_tags(n[1]))
        else:
            labels.append('node:' + n[0] + (':' + n[2] if n[0] == 'prog' else ''))
    labels.append('depth:%d' % sum(1 for n in nodes if n[0] == 'tr'))
    return sorted(set(labels)), texts


def _api_nontrivial(case, texts):
    special = any(gen.is_special(t, case['buff']) for t in texts)
    ops = [o[1] for o in case['ops']]
    ok = False
    if 'freeze' in ops:
        i = ops.index('freeze')
        before = {o for o in ops[:i] if o in gen.ACCESS_OPS}
        after = {o for o in ops[i + 1:] if o in gen.ACCESS_OPS}
        ok = bool(before) and bool(after) and len(before | after) >= 2
    return special and ok


def check_api(case) -> Verdict:
    buff, src, ops = case['buff'], case['src'], case['ops']
    api = _Api.get()
    d, env, fac = api.new_case(buff)
    labels, texts = _api_labels(case)
    nontrivial = _api_nontrivial(case, texts)
    if nontrivial:
        labels.append('nontrivial')
    built = _Built()
    known = None
    known_detail = None
    try:
        try:
            _build(api, env, fac, buff, src, built, 'c%d_' % api.n)
        except _ApiValidationError:
            return fail('api/build/validation-error', {'case': case, 'syntax': built.syntax}, labels=labels)
        except Exception as ex:
            return fail('api/build/exception/' + type(ex).__name__,
                        {'case': case, 'syntax': built.syntax,
                         'exception': '%s: %s\n%s' % (type(ex).__name__, ex, traceback.format_exc(limit=6))},
                        labels=labels)
        refs = [model.ref_text(n) for n in built.nodes]
        history = []
        frozen_seen = False
        for k, (target, op, arg) in enumerate(ops):
            node = built.nodes[target]
            expected = refs[target]
            step = 'op %d: %s%s on node %d' % (k, op, '' if arg is None else '(%d)' % arg, target)
            exc = None
            try:
                what, got = _access(api, built.objects[target], op, arg, d, k)
            except UnicodeDecodeError as ex:
                what, got, exc = 'exception', None, ex
            except Exception as ex:
                return fail('api/%s/exception/%s' % (op, type(ex).__name__),
                            {'step': step, 'history': history, 'buff': buff, 'source': src, 'syntax': built.syntax,
                             'expected_text': expected,
                             'exception': '%s: %s\n%s' % (type(ex).__name__, ex, traceback.format_exc(limit=8))},
                            labels=labels, nontrivial=nontrivial)
            history.append(step)
            if op == 'freeze':
                frozen_seen = True
            phase = 'after-freeze' if frozen_seen else 'before-freeze'
            mismatch = None  # (bucket suffix, observed, tags of the predicting defect models | None)
            if what == 'none':
                continue
            if what == 'exception':
                tags = model.classify_text(node, buff, None)
                mismatch = ('undecodable', repr(exc), tags)
            elif what == 'text':
                if got != expected:
                    mismatch = (_diff_class(expected, got), got, model.classify_text(node, buff, got))
            elif what == 'bytes':
                if got != expected.encode('utf-8'):
                    try:
                        as_text = got.decode('utf-8')
                        tags = model.classify_text(node, buff, as_text)
                    except UnicodeDecodeError:
                        as_text = repr(got)
                        tags = model.classify_text(node, buff, None)
                    mismatch = (_diff_class(expected, as_text), as_text, tags)
            elif what == 'lines':
                exp_lines = list(model.nl_split(expected))
                if got != exp_lines:
                    cls = 'division' if ''.join(got) == expected else _diff_class(expected, ''.join(got))
                    mismatch = (cls, got, model.classify_lines(node, buff, got))
            elif what == 'prefix-lines':
                exp_lines = list(model.nl_split(expected))[:arg]
                if got != exp_lines:
                    tags = None
                    cl = model.closure(node, buff)
                    best = None
                    for v, t in cl.values.items():
                        if v is not model.UNDECODABLE and list(v[:arg]) == got and t:
                            if best is None or len(t) < len(best):
                                best = t
                    tags = best
                    mismatch = ('prefix', got, tags)
            elif what == 'head':
                text, more = got
                # whole lines from the start, at least `arg` characters unless the text ends before
                exp_head = model.head_of(model.nl_split(expected), arg)
                if text != exp_head or more != (len(exp_head) >= arg):
                    tags = None
                    for v, tg in model.closure(node, buff).values.items():
                        if tg and v is not model.UNDECODABLE and model.head_of(v, arg) == text:
                            tags = tg if tags is None or len(tg) < len(tags) else tags
                    mismatch = ('head', [text, more], tags)
            if mismatch is None:
                continue
            cls, observed, tags = mismatch
            detail = {'step': step, 'history': history, 'buff': buff, 'source': src, 'syntax': built.syntax,
                      'expected_text': expected, 'expected_lines': list(model.nl_split(expected)),
                      'observed': observed}
            bucket = 'api/%s/%s/%s' % (op, phase, cls)
            if tags:
                kf = model.known_id(tags)
                detail['defect_model'] = 'predicted by ' + '+'.join(sorted(tags))
                if known is None:
                    known, known_detail = kf, (bucket, detail)
                labels.append('known:' + '+'.join(sorted(tags)))
                # a text that was read with a modelled defect may have been cached: later accesses of this case are
                # not comparable any more
                break
            return fail(bucket, detail, labels=labels, nontrivial=nontrivial)
    finally:
        if d.exists():
            shutil.rmtree(str(d), ignore_errors=True)
        for name in built.files:
            try:
                os.unlink(str(api.home / name))
            except OSError:
                pass
    if known:
        return Verdict(ok=False, known=known, bucket=known_detail[0], detail=known_detail[1], labels=labels,
                       nontrivial=nontrivial)
    return Verdict(True, labels=labels, nontrivial=nontrivial)


def check_api_freeze_once(case) -> Verdict:
    """After freeze() the text is generated once: a program whose output differs per invocation shows the same
    output through every later access."""
    buff, text, trs, ops = case['buff'], case['text'], case['trs'], case['ops']
    api = _Api.get()
    d, env, fac = api.new_case(buff)
    labels = ['B:%d' % buff, 'depth:%d' % len(trs)]
    for tr in trs:
        labels.extend('tr:' + t for t in model.tr_tags(tr))
    labels = sorted(set(labels))
    fname = 'c%d_cnt.txt' % api.n
    counter = str(api.home / ('c%d_counter' % api.n))
    syntax = []
    try:
        with open(str(api.home / fname), 'wb') as f:
            f.write(text.encode('utf-8'))
        try:
            src = '-stdout-from ' + gen.counter_command(counter, str(api.home / fname))
            syntax.append(src)
            obj = api.primitive(api.ss_parser, src, env)
            for tr in trs:
                src = gen.render_tr(tr)
                syntax.append(src)
                obj = api.primitive(api.tr_parser, src, env).transform(obj)
        except Exception as ex:
            return fail('freeze-once/build/exception/' + type(ex).__name__,
                        {'case': case, 'syntax': syntax,
                         'exception': '%s: %s\n%s' % (type(ex).__name__, ex, traceback.format_exc(limit=6))},
                        labels=labels)

        def ref(k):
            node = ['prog', '%d\n%s' % (k, text), 'out', False]
            for tr in trs:
                node = ['tr', tr, node]
            return model.ref_text(node)

        history = []
        frozen = False
        frozen_k = None
        accesses_after = set()
        max_k = 4
        for i, (op, arg) in enumerate(ops):
            step = 'op %d: %s%s' % (i, op, '' if arg is None else '(%d)' % arg)
            try:
                what, got = _access(api, obj, op, arg, d, i)
            except Exception as ex:
                return fail('freeze-once/%s/exception/%s' % (op, type(ex).__name__),
                            {'step': step, 'history': history, 'case': case, 'syntax': syntax,
                             'exception': '%s: %s\n%s' % (type(ex).__name__, ex, traceback.format_exc(limit=8))},
                            labels=labels, nontrivial=True)
            history.append(step)
            max_k += 3
            if op == 'freeze':
                frozen = True
                continue
            if what == 'none':
                continue
            ks = []
            for k in range(1, max_k):
                expected = ref(k)
                if what == 'text':
                    ok = got == expected
                elif what == 'bytes':
                    ok = got == expected.encode('utf-8')
                elif what == 'lines':
                    ok = got == list(model.nl_split(expected))
                elif what == 'prefix-lines':
                    ok = got == list(model.nl_split(expected))[:arg]
                else:
                    ok = got[0] == model.head_of(model.nl_split(expected), arg)
                if ok:
                    ks.append(k)
            detail = {'step': step, 'history': history, 'case': case, 'syntax': syntax,
                      'observed': got.decode('utf-8', errors='replace') if isinstance(got, bytes) else got,
                      'value_for_invocation_1': ref(1)}
            if not ks:
                return fail('freeze-once/%s/%s/no-invocation-gives-this-text'
                            % (op, 'after-freeze' if frozen else 'before-freeze'), detail, labels=labels,
                            nontrivial=True)
            if frozen:
                accesses_after.add(op)
                # an access that shows only part of the text may be compatible with several invocation numbers
                if frozen_k is None:
                    frozen_k = set(ks)
                else:
                    both = frozen_k & set(ks)
                    if not both:
                        detail['invocations_seen_after_freeze'] = sorted(frozen_k)
                        detail['this_access_shows_invocation'] = ks
                        return fail('freeze-once/%s/text-changed-after-freeze' % op, detail, labels=labels,
                                    nontrivial=True)
                    frozen_k = both
        if len(accesses_after) >= 2:
            labels.append('two-access-kinds-after-freeze')
        return Verdict(True, labels=labels, nontrivial=len(accesses_after) >= 2)
    finally:
        if d.exists():
            shutil.rmtree(str(d), ignore_errors=True)
        for p in (str(api.home / fname), counter):
            try:
                os.unlink(p)
            except OSError:
                pass


def _diff_class(expected, actual):
    if actual == expected:
        return 'same'
    if actual == '':
        return 'empty'
    if expected.startswith(actual):
        return 'truncated'
    if actual.startswith(expected):
        return 'extra-tail'
    if model.universal(expected) == actual:
        return 'newlines-translated'
    if len(actual) < len(expected):
        return 'shorter'
    if len(actual) > len(expected):
        return 'longer'
    return 'other'


# ======================================================================================================
# Layer B: CLI
# ======================================================================================================
import re

_LINE_RE = re.compile(r't\.case, line (\d+)')
_IDENTS = ('PASS', 'FAIL', 'HARD_ERROR', 'INTERNAL_ERROR', 'VALIDATION_ERROR', 'SYNTAX_ERROR', 'FILE_ACCESS_ERROR')


def _cli_text_labels(texts, buff):
    labels = ['B:%d' % buff]
    for t in texts:
        labels.extend(gen.flavour_labels(t, buff))
    return sorted(set(labels))


def _failing_line(r):
    m = _LINE_RE.search(r.err) or _LINE_RE.search(r.out)
    return int(m.group(1)) if m else None


def _actual_node(kind, text, tr):
    if kind == 'cnt':
        # a program whose output starts with the number of times it has been run: an assertion runs it once
        leaf = ['prog', '1\n' + text, 'out', False]
    else:
        leaf = ['prog', text, 'out', False] if kind == 'prog' else ['file', text]
    return gen.as_rendered(['tr', tr, leaf]) if tr is not None else leaf


def build_verdict_case(case):
    """-> (case text, files, [(first line, last line, instruction, actual node, reference verdict)])"""
    text, tr = case['text'], case['tr']
    files = {'actual.txt': text}
    out = ['[setup]\n']
    if any(i['a'] == 'lit' for i in case['ins']):
        src = gen.render_source(['lit', text, case.get('lit_form', 'q')], files)
        out.append('file lit.txt = ' + src + ('' if src.endswith('\n') else '\n'))
    out.append('[act]\n$ cat {HOME}/actual.txt\n[assert]\n')
    line = ''.join(out).count('\n') + 1
    spans = []
    for idx, ins in enumerate(case['ins']):
        node = _actual_node(ins['a'], text, tr)
        ref = model.ref_verdict(node, ins['m'])
        src = gen.render_instruction(ins, tr, not ref, files, idx)
        n = src.count('\n')
        spans.append((line, line + n - 1, ins, node, ref))
        line += n
        out.append(src)
    return ''.join(out), files, spans


def check_cli_verdicts(case) -> Verdict:
    buff = case['buff']
    case_text, files, spans = build_verdict_case(case)
    t_actual = model.ref_text(_actual_node('file', case['text'], case['tr']))
    labels = _cli_text_labels([case['text']], buff)
    if case['tr'] is not None:
        labels.extend('tr:' + t for t in model.tr_tags(case['tr']))
    for _, _, ins, _, ref in spans:
        labels.append('ins:%s/%s/%s' % (ins['a'], ins['w'], ins['m'][0]))
        labels.append('ref-verdict:%s' % ref)
        if ins['m'][0] == 'eq':
            labels.append('expected-kind:' + ins['m'][1][0])
    labels = sorted(set(labels))
    nontrivial = gen.is_special(case['text'], buff) or gen.is_special(t_actual, buff)
    with driver.Workspace() as ws:
        for name, content in files.items():
            ws.write(name, content.encode('utf-8'))
        ws.write('t.case', case_text)
        r = driver.run_inproc(ws, ['t.case'], mem_buff_size=buff)
    detail = {'buff': buff, 'case_text': case_text, 'files': files, 'exit': r.exit_code, 'out': r.out[:300],
              'err': r.err[:1500], 'exception': r.exception}
    if r.timed_out:
        return Verdict(inconclusive=True, labels=labels)
    if r.exception:
        return fail('cli-verdict/escaped-exception', detail, labels=labels, nontrivial=nontrivial)
    ident = r.first_out_line
    if r.exit_code == 0 and ident == 'PASS':
        return Verdict(True, labels=labels, nontrivial=nontrivial)
    ln = _failing_line(r)
    span = [s for s in spans if ln is not None and s[0] <= ln <= s[1]]
    if ident in ('SYNTAX_ERROR', 'VALIDATION_ERROR', 'FILE_ACCESS_ERROR') or not span:
        return fail('cli-verdict/case-not-executed/%s' % ident, detail, labels=labels, nontrivial=nontrivial)
    first, last, ins, node, ref = span[0]
    detail.update({'failing_instruction': ins, 'actual_source': node, 'reference_verdict_of_matcher': ref,
                   'actual_text': model.ref_text(node)})
    tags = model.defect_flips_verdict(node, ins['m'], buff)
    bucket = 'cli-verdict/%s/%s/%s/ref-%s' % (ident, ins['w'], ins['m'][0], ref)
    if ident == 'FAIL':
        pass
    elif 'UnicodeDecodeError' in r.err or 'codec can' in r.err:
        cl = model.closure(node, buff)
        tags = cl.values.get(model.UNDECODABLE)
        if tags is None and ins['m'][0] == 'eq':
            tags = model.closure(ins['m'][1], buff).values.get(model.UNDECODABLE)
    else:
        tags = None
    if tags:
        detail['defect_model'] = 'verdict predicted by ' + '+'.join(sorted(tags))
        return Verdict(ok=False, known=model.known_id(tags), bucket=bucket, detail=detail,
                       labels=labels + ['known:' + '+'.join(sorted(tags))], nontrivial=nontrivial)
    return fail(bucket, detail, labels=labels, nontrivial=nontrivial)


def build_files_case(case):
    files = {}
    out = ['[setup]\n']
    spans = []
    line = 2
    for i, src in enumerate(case['srcs']):
        s = 'file o%d.txt = %s' % (i + 1, gen.render_source(src, files))
        if not s.endswith('\n'):
            s += '\n'
        spans.append((line, line + s.count('\n') - 1, 'o%d.txt' % (i + 1), gen.as_rendered(src)))
        line += s.count('\n')
        out.append(s)
    if case['stdin'] is not None:
        s = 'stdin = ' + gen.render_source(case['stdin'], files)
        if not s.endswith('\n'):
            s += '\n'
        spans.append((line, line + s.count('\n') - 1, 'stdin', gen.as_rendered(case['stdin'])))
        out.append(s)
    out.append('[act]\n$ cat\n')
    return ''.join(out), files, spans


def check_cli_files(case) -> Verdict:
    buff = case['buff']
    case_text, files, spans = build_files_case(case)
    texts = []
    for _, _, _, src in spans:
        texts.extend(model.leaf_texts(src))
    labels = _cli_text_labels(texts, buff)
    for _, _, name, src in spans:
        for n in model.nodes_preorder(src):
            if n[0] == 'tr':
                labels.extend('tr:' + t for t in model.tr_tags(n[1]))
            else:
                labels.append('node:' + n[0])
    labels = sorted(set(labels))
    nontrivial = any(gen.is_special(t, buff) for t in texts)
    observed = {}
    with driver.Workspace() as ws:
        for name, content in files.items():
            ws.write(name, content.encode('utf-8'))
        ws.write('t.case', case_text)
        r = driver.run_inproc(ws, ['--keep', 't.case'], mem_buff_size=buff)
        sb = r.out.strip()
        if r.exit_code == 0 and sb and os.path.isdir(sb):
            for _, _, name, _ in spans:
                p = os.path.join(sb, 'result', 'stdout') if name == 'stdin' else os.path.join(sb, 'act', name)
                try:
                    with open(p, 'rb') as f:
                        observed[name] = f.read()
                except OSError as ex:
                    observed[name] = None
    detail = {'buff': buff, 'case_text': case_text, 'files': files, 'exit': r.exit_code, 'out': r.out[:300],
              'err': r.err[:1500], 'exception': r.exception}
    if r.timed_out:
        return Verdict(inconclusive=True, labels=labels)
    if r.exception:
        return fail('cli-files/escaped-exception', detail, labels=labels, nontrivial=nontrivial)
    known = None
    if r.exit_code != 0:
        ident = r.first_err_line
        ln = _failing_line(r)
        span = [s for s in spans if ln is not None and s[0] <= ln <= s[1]]
        if not span and 'In [act]' in r.err:
            span = [s for s in spans if s[2] == 'stdin']  # the stdin of the action is read when it is started
        if span and ('UnicodeDecodeError' in r.err or 'codec can' in r.err):
            tags = model.closure(span[0][3], buff).values.get(model.UNDECODABLE)
            if tags:
                detail['defect_model'] = 'undecodable text predicted by ' + '+'.join(sorted(tags))
                return Verdict(ok=False, known=model.known_id(tags), bucket='cli-files/%s/undecodable' % ident,
                               detail=detail, labels=labels + ['known:' + '+'.join(sorted(tags))],
                               nontrivial=nontrivial)
        return fail('cli-files/not-passed/%s' % ident, detail, labels=labels, nontrivial=nontrivial)
    for _, _, name, src in spans:
        expected = model.ref_text(src)
        got = observed.get(name)
        if got == expected.encode('utf-8'):
            continue
        d = dict(detail)
        d.update({'file': name, 'source': src, 'expected_text': expected,
                  'observed': None if got is None else got.decode('utf-8', errors='backslashreplace')})
        if got is None:
            return fail('cli-files/%s/missing' % ('stdin' if name == 'stdin' else 'file'), d, labels=labels,
                        nontrivial=nontrivial)
        try:
            tags = model.classify_text(src, buff, got.decode('utf-8'))
        except UnicodeDecodeError:
            tags = model.classify_text(src, buff, None)
        bucket = 'cli-files/%s/%s' % ('stdin' if name == 'stdin' else 'file',
                                      _diff_class(expected, got.decode('utf-8', errors='replace')))
        if tags:
            d['defect_model'] = 'predicted by ' + '+'.join(sorted(tags))
            if known is None:
                known = Verdict(ok=False, known=model.known_id(tags), bucket=bucket, detail=d,
                                labels=labels + ['known:' + '+'.join(sorted(tags))], nontrivial=nontrivial)
            continue
        return fail(bucket, d, labels=labels, nontrivial=nontrivial)
    if known is not None:
        return known
    return Verdict(True, labels=labels, nontrivial=nontrivial)


SUBS = [
    Sub('api_access', check_api, strategy=lambda tier: gen.api_cases(big=(tier == 'thorough')),
        budget={'quick': 20000, 'thorough': 600000}),
    Sub('api_freeze_once', check_api_freeze_once, strategy=lambda tier: gen.freeze_once_cases(),
        budget={'quick': 1500, 'thorough': 40000}),
    Sub('cli_files', check_cli_files, strategy=lambda tier: gen.cli_file_cases(),
        budget={'quick': 1500, 'thorough': 40000}),
    Sub('cli_verdicts', check_cli_verdicts, strategy=lambda tier: gen.cli_verdict_cases(),
        budget={'quick': 2000, 'thorough': 60000}),
]
