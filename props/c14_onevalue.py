"""C14 - a text has one value however it is consumed.

Layer A (API): a source tree (literal / file / program output, transformed, concatenated) is built through the public
factories and parsers with a chosen memory-buffer size; a generated sequence of accesses (as_str, as_lines, partial
as_lines, as_file, write_to, freeze, ...) is applied to its nodes; every access must give the characters and the
division into lines of the reference value (vlib/ref/c14_model.py).
Layer B (CLI): the same texts through the real program with MainProgram(mem_buff_size=B): files written from
TEXT-SOURCEs are compared byte by byte, and families of assertions that must agree (M, `-transformed-by identity M`,
`( M && M )`, `( M || M )`, different kinds of source for expected/actual) are compared with the reference verdict
(cli_verdicts); cli_metamorphic needs no reference semantics: an arbitrary matcher M (nested ! && ||, quantifiers over
lines, regexes, -transformed-by) is defined once as a symbol and `contents FILE : M` must give the same verdict as every
other kind of source with the same text (act output, program output, file made from a literal, `exists F : contents`)
under every wrapping that leaves the text as it is (identity, ( identity | identity ), ( M && M ), ( M || M ),
filter constant true, run cat, -line-nums that select every line).

One defect of /repo is known and stays (KF-C14-2, universal newlines when a text is read back from a file, defect
model D2 in c14_model).  A deviation is reported as that known finding only when (a) the observed value is one that D2
predicts for this very case and (b) the same case shows no deviation when it is run once more with newline
translation switched off (`_no_newline_translation`); every other deviation - in particular every one on a text
without CR - is a violation.
"""

import builtins
import contextlib
import io
import os
import shutil
import traceback

from vlib import driver, fuzz
from vlib.gen import c14_gen as gen
from vlib.ref import c14_model as model
from vlib.runner import Sub, Verdict, fail

PROPERTY_ID = 'C14'
LEVEL = 'exploration'
RULE = ('layer A (api_access, api_access_fuzz): case = (buffer size B >= 1: mostly 1..64 and 8192, sometimes the length of '
        'the text in characters or bytes +-1, source tree of <= 3 (thorough <= 5) transformers over literal / file / '
        'program-output leaves and concatenations, 2-8 accesses as_str/as_lines/partial as_lines/as_file/write_to/'
        'freeze/... addressed to any node); api_orders: every order of as_str, as_lines, as_file, write_to, freeze on '
        'the root of 12 fixed trees (one per caching kind) x buffer sizes around the text length; api_small_texts: every '
        'text of <= 3 characters over {a, new-line, form feed, e-acute} x B in 1..4 x 5 caching sources under one access '
        'sequence with every access method before and after freeze; non-trivial = some '
        'leaf text has a character that some line-splitting routine treats as a line break, a CR, or at least B '
        'characters, and the sequence has two different access methods with a freeze between them; distinct = distinct '
        'case.  Layer B: case = (B, text, source kinds of actual and expected, transformer chain, matcher, wrapper '
        'plain / identity / ( identity | identity ) / ( M && M ) / ( M || M )) resp. (B, sources, consumers file = / '
        'file += / env / stdin, phase) resp. cli_metamorphic (B, text without CR, matcher tree of depth <= 2 over num-lines / '
        'equals / matches / any|every line / ! && || / -transformed-by: 5 source kinds x 9 wrappings must agree with '
        '`contents FILE : M`); non-trivial = same text rule; distinct = distinct case')
ASSUMPTIONS = [
    'the division into lines is "split after every \\n" (manual of replace/strip: "Lines are separated by "\\n", '
    'regardless of the current OS"; filter: "the line separator depends on the current OS" = "\\n" here)',
    'CR is an ordinary character of a text on this OS; a test-case FILE is itself read with universal newlines, so '
    'literals written in a case file never contain CR (they do in layer A when built by the factory)',
    'the transformer set is small and unambiguous on purpose (C05 owns transformer semantics); run-programs are '
    '`cat`, `tr a X` and (verdict layer only) a program that prints the number of times it has been run before it '
    'copies its input: an assertion - plain, wrapped in identity, or written ( M && M ) - is expected to see the '
    'output of ONE run',
    'KF-C14-2 classification = the observed value is in the closure of the reference value under "CR LF / CR read '
    'as LF wherever a text can be read back from a file" AND the case is clean when every text-mode open() of the run '
    'is given newline="\\n" (the counterfactual in which only that defect is absent); this is an attribution of the '
    'deviation to the defect, not a simulation of which representation the implementation picks',
]

KF = model.KNOWN_ID


@contextlib.contextmanager
def _no_newline_translation():
    """The counterfactual "KF-C14-2 repaired": every text-mode open() without an explicit `newline` gets
    newline='\\n' (no translation when reading or writing, lines end at '\\n' only).  Nothing else changes."""
    real = io.open

    def open_without_translation(file, mode='r', buffering=-1, encoding=None, errors=None, newline=None,
                                 closefd=True, opener=None):
        if newline is None and 'b' not in mode:
            newline = '\n'
        return real(file, mode, buffering, encoding, errors, newline, closefd, opener)

    builtins.open = open_without_translation
    io.open = open_without_translation
    try:
        yield
    finally:
        builtins.open = real
        io.open = real



# ======================================================================================================
# Layer A: API
# ======================================================================================================
class _Api:
    instance = None

    def __init__(self):
        driver._import_exactly()
        import pathlib
        from exactly_lib.common.tmp_dir_file_spaces import std_tmp_dir_file_space
        from exactly_lib.impls.os_services import os_services_access
        from exactly_lib.impls.types.string_source import parse as ss_parse
        from exactly_lib.impls.types.string_source.factory import RootStringSourceFactory
        from exactly_lib.impls.types.string_transformer import parse_string_transformer
        from exactly_lib.section_document.parse_source import ParseSource
        from exactly_lib.tcfs import sds as sds_mod
        from exactly_lib.tcfs.hds import HomeDs
        from exactly_lib.tcfs.tcds import TestCaseDs
        from exactly_lib.test_case.app_env import ApplicationEnvironment
        from exactly_lib.type_val_prims.string_source.impls import concat
        from exactly_lib.type_val_prims.string_source import string_source as ss_mod
        from exactly_lib.util.process_execution.execution_elements import ProcessExecutionSettings
        from exactly_lib.util.symbol_table import empty_symbol_table
        self.root = pathlib.Path(driver.work_base()) / 'c14api'
        self.pid = os.getpid()
        self.n = 0
        self.ParseSource = ParseSource
        self.tr_parser = parse_string_transformer.parsers().full
        self.ss_parser = ss_parse.default_parser_for(phase_is_after_act=False)
        self.symbols = empty_symbol_table()
        self.concat = concat
        self.ss_mod = ss_mod
        self._mk_space = std_tmp_dir_file_space
        self._Factory = RootStringSourceFactory
        self._AppEnv = ApplicationEnvironment
        self._os_services = os_services_access.new_for_current_os()
        self._pes = ProcessExecutionSettings.with_environ({'PATH': '/usr/bin:/bin'})
        home = self.root / 'home'
        home.mkdir(parents=True)
        sb = self.root / 'sb'
        sb.mkdir()
        self.home = home
        self.tcds = TestCaseDs(HomeDs(home, home), sds_mod.construct_at(str(sb)))

    @classmethod
    def get(cls):
        if cls.instance is None or cls.instance.pid != os.getpid():
            cls.instance = _Api()
        return cls.instance

    def new_case(self, buff):
        self.n += 1
        d = self.root / 'tmp' / ('c%d' % self.n)
        if d.exists():
            shutil.rmtree(str(d))
        space = self._mk_space(d)
        env = self._AppEnv(self._os_services, self._pes, space, buff)
        return d, env, self._Factory(space)

    def primitive(self, parser, source_text, env):
        sdv = parser.parse(self.ParseSource(source_text))
        ddv = sdv.resolve(self.symbols)
        v = ddv.validator
        err = v.validate_pre_sds_if_applicable(self.tcds.hds)
        if err is None:
            err = v.validate_post_sds_if_applicable(self.tcds)
        if err is not None:
            raise _ApiValidationError()
        return ddv.value_of_any_dependency(self.tcds).primitive(env)


class _ApiValidationError(Exception):
    pass


class _Built:
    """The StringSource objects of a source tree, in pre-order (root first), with the syntax they were made from."""

    def __init__(self):
        self.objects = []
        self.nodes = []
        self.syntax = []
        self.files = {}


def _build(api, env, fac, buff, node, built, prefix):
    idx = len(built.objects)
    built.objects.append(None)
    built.nodes.append(node)
    built.syntax.append(None)
    kind = node[0]
    if kind == 'str':
        obj = fac.of_const_str(node[1])
        syntax = 'factory.of_const_str(%r)' % node[1]
    elif kind in ('lit', 'file', 'prog'):
        files = {}
        syntax = gen.render_source(node, files, cat_dir=str(api.home))
        for name, text in files.items():
            unique = '%s%d_%s' % (prefix, idx, name)
            syntax = syntax.replace(name, unique)
            with open(str(api.home / unique), 'wb') as f:
                f.write(text.encode('utf-8'))
            built.files[unique] = text
        obj = api.primitive(api.ss_parser, syntax, env)
    elif kind == 'tr':
        inner = _build(api, env, fac, buff, node[2], built, prefix)
        syntax = gen.render_tr(node[1])
        obj = api.primitive(api.tr_parser, syntax, env).transform(inner)
    elif kind == 'concat':
        parts = [_build(api, env, fac, buff, p, built, prefix) for p in node[1]]
        obj = api.concat.string_source(parts, buff)
        syntax = 'concat.string_source([...], %d)' % buff
    else:
        raise ValueError(kind)
    built.objects[idx] = obj
    built.syntax[idx] = syntax
    return obj


def _access(api, obj, op, arg, d, k):
    """-> ('text', str) | ('lines', [str]) | ('prefix-lines', [str]) | ('head', (str, bool)) | ('none', None)"""
    if op == 'freeze':
        obj.freeze()
        return 'none', None
    c = obj.contents()
    if op == 'ext':
        c.may_depend_on_external_resources
        return 'none', None
    if op == 'str':
        return 'text', c.as_str
    if op == 'lines':
        with c.as_lines as lines:
            return 'lines', list(lines)
    if op == 'lines_k':
        got = []
        with c.as_lines as lines:
            for ln in lines:
                if len(got) >= arg:
                    break
                got.append(ln)
        return 'prefix-lines', got
    if op == 'file':
        p = c.as_file
        with open(str(p), 'rb') as f:
            return 'bytes', f.read()
    if op == 'write':
        # write_to "writes the string to a file": a real file (a program may write to its file descriptor)
        os.makedirs(str(d), exist_ok=True)
        p = os.path.join(str(d), 'verif-out-%d' % k)
        with open(p, 'w', encoding='utf-8', newline='') as f:
            c.write_to(f)
        with open(p, 'rb') as f:
            return 'bytes', f.read()
    if op == 'head':
        return 'head', api.ss_mod.read_lines_as_str__w_minimum_num_chars(arg, c)
    raise ValueError(op)


def _api_labels(case):
    src, buff = case['src'], case['buff']
    labels = [gen.buff_label(buff)]
    texts = model.leaf_texts(src)
    for t in texts:
        labels.extend(gen.flavour_labels(t, buff))
    nodes = model.nodes_preorder(src)
    for n in nodes:
        if n[0] == 'tr':
            labels.extend('tr:' + t for t in model.tr_tags(n[1]))
        else:
            labels.append('node:' + n[0] + (':' + n[2] if n[0] == 'prog' else ''))
    labels.append('depth:%d' % sum(1 for n in nodes if n[0] == 'tr'))
    return sorted(set(labels)), texts


def _api_nontrivial(case, texts):
    special = any(gen.is_special(t, case['buff']) for t in texts)
    ops = [o[1] for o in case['ops']]
    ok = False
    if 'freeze' in ops:
        i = ops.index('freeze')
        before = {o for o in ops[:i] if o in gen.ACCESS_OPS}
        after = {o for o in ops[i + 1:] if o in gen.ACCESS_OPS}
        ok = bool(before) and bool(after) and len(before | after) >= 2
    return special and ok


def _api_eval(case):
    """One execution of the case -> ('error', bucket, detail) | ('done', mismatches)
    mismatch = (bucket, detail, d2: bool)   d2 = the observed value is one that defect model D2 predicts."""
    buff, src, ops = case['buff'], case['src'], case['ops']
    api = _Api.get()
    d, env, fac = api.new_case(buff)
    built = _Built()
    mismatches = []
    try:
        try:
            _build(api, env, fac, buff, src, built, 'c%d_' % api.n)
        except _ApiValidationError:
            return 'error', 'api/build/validation-error', {'case': case, 'syntax': built.syntax}
        except Exception as ex:
            return ('error', 'api/build/exception/' + type(ex).__name__,
                    {'case': case, 'syntax': built.syntax,
                     'exception': '%s: %s\n%s' % (type(ex).__name__, ex, traceback.format_exc(limit=6))})
        refs = [model.ref_text(n) for n in built.nodes]
        history = []
        frozen_seen = False
        for k, (target, op, arg) in enumerate(ops):
            node = built.nodes[target]
            expected = refs[target]
            step = 'op %d: %s%s on node %d' % (k, op, '' if arg is None else '(%d)' % arg, target)
            try:
                what, got = _access(api, built.objects[target], op, arg, d, k)
            except Exception as ex:
                return ('error', 'api/%s/exception/%s' % (op, type(ex).__name__),
                        {'step': step, 'history': history, 'buff': buff, 'source': src, 'syntax': built.syntax,
                         'expected_text': expected,
                         'exception': '%s: %s\n%s' % (type(ex).__name__, ex, traceback.format_exc(limit=8))})
            history.append(step)
            if op == 'freeze':
                frozen_seen = True
            phase = 'after-freeze' if frozen_seen else 'before-freeze'
            mismatch = None  # (class, observed, predicted by D2)
            if what == 'none':
                continue
            if what == 'text':
                if got != expected:
                    mismatch = (_diff_class(expected, got), got, model.d2_predicts_text(node, got))
            elif what == 'bytes':
                if got != expected.encode('utf-8'):
                    try:
                        as_text = got.decode('utf-8')
                        d2 = model.d2_predicts_text(node, as_text)
                    except UnicodeDecodeError:
                        as_text, d2 = repr(got), False
                    mismatch = (_diff_class(expected, as_text), as_text, d2)
            elif what == 'lines':
                exp_lines = list(model.nl_split(expected))
                if got != exp_lines:
                    cls = 'division' if ''.join(got) == expected else _diff_class(expected, ''.join(got))
                    mismatch = (cls, got, model.d2_predicts_lines(node, got))
            elif what == 'prefix-lines':
                exp_lines = list(model.nl_split(expected))[:arg]
                if got != exp_lines:
                    d2 = any(list(model.nl_split(t)[:arg]) == got for t in model.d2_texts(node))
                    mismatch = ('prefix', got, d2)
            elif what == 'head':
                text, more = got
                # whole lines from the start, at least `arg` characters unless the text ends before
                exp_head = model.head_of(model.nl_split(expected), arg)
                if text != exp_head or more != (len(exp_head) >= arg):
                    d2 = any(model.head_of(model.nl_split(t), arg) == text and more == (len(text) >= arg)
                             for t in model.d2_texts(node))
                    mismatch = ('head', [text, more], d2)
            if mismatch is None:
                continue
            cls, observed, d2 = mismatch
            detail = {'step': step, 'history': list(history), 'buff': buff, 'source': src, 'syntax': built.syntax,
                      'expected_text': expected, 'expected_lines': list(model.nl_split(expected)),
                      'observed': observed}
            mismatches.append(('api/%s/%s/%s' % (op, phase, cls), detail, d2))
            if not d2:
                break
        return 'done', mismatches
    finally:
        if d.exists():
            shutil.rmtree(str(d), ignore_errors=True)
        for name in built.files:
            try:
                os.unlink(str(api.home / name))
            except OSError:
                pass


def check_api(case) -> Verdict:
    labels, texts = _api_labels(case)
    nontrivial = _api_nontrivial(case, texts)
    if nontrivial:
        labels.append('nontrivial')
    res = _api_eval(case)
    if res[0] == 'error':
        return fail(res[1], res[2], labels=labels, nontrivial=nontrivial)
    mismatches = res[1]
    if not mismatches:
        return Verdict(True, labels=labels, nontrivial=nontrivial)
    for bucket, detail, d2 in mismatches:
        if not d2:
            return fail(bucket, detail, labels=labels, nontrivial=nontrivial)
    # every deviation is a value that D2 predicts: they must all vanish when newline translation is switched off
    bucket, detail, _ = mismatches[0]
    detail['all_deviating_steps'] = [m[1]['step'] for m in mismatches]
    with _no_newline_translation():
        res2 = _api_eval(case)
    if res2[0] == 'error' or res2[1]:
        detail['without_newline_translation'] = (
            {'bucket': res2[1], 'detail': res2[2]} if res2[0] == 'error'
            else {'bucket': res2[1][0][0], 'step': res2[1][0][1]['step'], 'observed': res2[1][0][1]['observed']})
        return fail(bucket + '/persists-without-newline-translation', detail, labels=labels, nontrivial=nontrivial)
    detail['defect_model'] = ('observed values are what universal-newline reading of a text held in a file gives; '
                              'no deviation when text files are opened with newline="\\n"')
    return Verdict(ok=False, known=KF, bucket=bucket, detail=detail, labels=labels + ['known:D2'],
                   nontrivial=nontrivial)


def check_api_freeze_once(case) -> Verdict:
    """After freeze() the text is generated once: a program whose output differs per invocation shows the same
    output through every later access."""
    buff, text, trs, ops = case['buff'], case['text'], case['trs'], case['ops']
    api = _Api.get()
    d, env, fac = api.new_case(buff)
    labels = [gen.buff_label(buff), 'depth:%d' % len(trs)]
    for tr in trs:
        labels.extend('tr:' + t for t in model.tr_tags(tr))
    labels = sorted(set(labels))
    fname = 'c%d_cnt.txt' % api.n
    counter = str(api.home / ('c%d_counter' % api.n))
    syntax = []
    try:
        with open(str(api.home / fname), 'wb') as f:
            f.write(text.encode('utf-8'))
        try:
            src = '-stdout-from ' + gen.counter_command(counter, str(api.home / fname))
            syntax.append(src)
            obj = api.primitive(api.ss_parser, src, env)
            for tr in trs:
                src = gen.render_tr(tr)
                syntax.append(src)
                obj = api.primitive(api.tr_parser, src, env).transform(obj)
        except Exception as ex:
            return fail('freeze-once/build/exception/' + type(ex).__name__,
                        {'case': case, 'syntax': syntax,
                         'exception': '%s: %s\n%s' % (type(ex).__name__, ex, traceback.format_exc(limit=6))},
                        labels=labels)

        def ref(k):
            node = ['prog', '%d\n%s' % (k, text), 'out', False]
            for tr in trs:
                node = ['tr', tr, node]
            return model.ref_text(node)

        history = []
        frozen = False
        frozen_k = None
        accesses_after = set()
        max_k = 4
        for i, (op, arg) in enumerate(ops):
            step = 'op %d: %s%s' % (i, op, '' if arg is None else '(%d)' % arg)
            try:
                what, got = _access(api, obj, op, arg, d, i)
            except Exception as ex:
                return fail('freeze-once/%s/exception/%s' % (op, type(ex).__name__),
                            {'step': step, 'history': history, 'case': case, 'syntax': syntax,
                             'exception': '%s: %s\n%s' % (type(ex).__name__, ex, traceback.format_exc(limit=8))},
                            labels=labels, nontrivial=True)
            history.append(step)
            max_k += 3
            if op == 'freeze':
                frozen = True
                continue
            if what == 'none':
                continue
            ks = []
            for k in range(1, max_k):
                expected = ref(k)
                if what == 'text':
                    ok = got == expected
                elif what == 'bytes':
                    ok = got == expected.encode('utf-8')
                elif what == 'lines':
                    ok = got == list(model.nl_split(expected))
                elif what == 'prefix-lines':
                    ok = got == list(model.nl_split(expected))[:arg]
                else:
                    ok = got[0] == model.head_of(model.nl_split(expected), arg)
                if ok:
                    ks.append(k)
            detail = {'step': step, 'history': history, 'case': case, 'syntax': syntax,
                      'observed': got.decode('utf-8', errors='replace') if isinstance(got, bytes) else got,
                      'value_for_invocation_1': ref(1)}
            if not ks:
                return fail('freeze-once/%s/%s/no-invocation-gives-this-text'
                            % (op, 'after-freeze' if frozen else 'before-freeze'), detail, labels=labels,
                            nontrivial=True)
            if frozen:
                accesses_after.add(op)
                # an access that shows only part of the text may be compatible with several invocation numbers
                if frozen_k is None:
                    frozen_k = set(ks)
                else:
                    both = frozen_k & set(ks)
                    if not both:
                        detail['invocations_seen_after_freeze'] = sorted(frozen_k)
                        detail['this_access_shows_invocation'] = ks
                        return fail('freeze-once/%s/text-changed-after-freeze' % op, detail, labels=labels,
                                    nontrivial=True)
                    frozen_k = both
        if len(accesses_after) >= 2:
            labels.append('two-access-kinds-after-freeze')
        return Verdict(True, labels=labels, nontrivial=len(accesses_after) >= 2)
    finally:
        if d.exists():
            shutil.rmtree(str(d), ignore_errors=True)
        for p in (str(api.home / fname), counter):
            try:
                os.unlink(p)
            except OSError:
                pass


def _diff_class(expected, actual):
    if actual == expected:
        return 'same'
    if actual == '':
        return 'empty'
    if expected.startswith(actual):
        return 'truncated'
    if actual.startswith(expected):
        return 'extra-tail'
    if model.universal(expected) == actual:
        return 'newlines-translated'
    if len(actual) < len(expected):
        return 'shorter'
    if len(actual) > len(expected):
        return 'longer'
    return 'other'


# ======================================================================================================
# Layer B: CLI
# ======================================================================================================
import re

_LINE_RE = re.compile(r't\.case, line (\d+)')
_IDENTS = ('PASS', 'FAIL', 'HARD_ERROR', 'INTERNAL_ERROR', 'VALIDATION_ERROR', 'SYNTAX_ERROR', 'FILE_ACCESS_ERROR')


def _cli_text_labels(texts, buff):
    labels = [gen.buff_label(buff)]
    for t in texts:
        labels.extend(gen.flavour_labels(t, buff))
    return sorted(set(labels))


def _failing_line(r):
    m = _LINE_RE.search(r.err) or _LINE_RE.search(r.out)
    return int(m.group(1)) if m else None


def _actual_node(kind, text, tr):
    """The text an assertion looks at.  `stdout -from PROGRAM [-transformed-by T]`: the transformer belongs to the
    PROGRAM, whose transformed output is stored in a file that then is the model."""
    if kind in ('cnt', 'prog'):
        # 'cnt': a program whose output starts with the number of times it has been run: an assertion runs it once
        leaf = ['prog', ('1\n' + text) if kind == 'cnt' else text, 'out', False]
        return ['stored', gen.as_rendered(['tr', tr, leaf]) if tr is not None else leaf]
    leaf = ['file', text]
    return gen.as_rendered(['tr', tr, leaf]) if tr is not None else leaf


def build_verdict_case(case, skip=()):
    """-> (case text, files, [(first line, last line, instruction, actual node, reference verdict, index)])
    ``skip``: indexes of instructions that are left out."""
    text, tr = case['text'], case['tr']
    files = {'actual.txt': text}
    out = ['[setup]\n']
    if any(i['a'] == 'lit' for i in case['ins']):
        src = gen.render_source(['lit', text, case.get('lit_form', 'q')], files)
        out.append('file lit.txt = ' + src + ('' if src.endswith('\n') else '\n'))
    out.append('[act]\n$ cat {HOME}/actual.txt\n[assert]\n')
    line = ''.join(out).count('\n') + 1
    spans = []
    for idx, ins in enumerate(case['ins']):
        node = _actual_node(ins['a'], text, tr)
        ref = model.ref_verdict(node, ins['m'])
        src = gen.render_instruction(ins, tr, not ref, files, idx)
        if idx in skip:
            continue
        n = src.count('\n')
        spans.append((line, line + n - 1, ins, node, ref, idx))
        line += n
        out.append(src)
    return ''.join(out), files, spans


def _same_mtime(ws, files):
    """the data files of a case carry one and the same modification time (as files unpacked from an archive do): a
    comparison of two files that looks at size and time instead of the contents is then wrong"""
    for name in files:
        p = os.path.join(ws.home, name)
        if os.path.isfile(p):
            os.utime(p, ns=(1_600_000_000 * 10 ** 9, 1_600_000_000 * 10 ** 9))


def _run_verdict_case(case, skip):
    case_text, files, spans = build_verdict_case(case, skip)
    with driver.Workspace() as ws:
        for name, content in files.items():
            ws.write(name, content.encode('utf-8'))
        ws.write('t.case', case_text)
        _same_mtime(ws, files)
        r = driver.run_inproc(ws, ['t.case'], mem_buff_size=case['buff'])
    detail = {'buff': case['buff'], 'case_text': case_text, 'files': files, 'exit': r.exit_code, 'out': r.out[:300],
              'err': r.err[:1500], 'exception': r.exception}
    return r, spans, detail


def check_cli_verdicts(case) -> Verdict:
    buff = case['buff']
    _, _, spans = build_verdict_case(case)
    t_actual = model.ref_text(_actual_node('file', case['text'], case['tr']))
    labels = _cli_text_labels([case['text']], buff)
    if case['tr'] is not None:
        labels.extend('tr:' + t for t in model.tr_tags(case['tr']))
    for _, _, ins, _, ref, _ in spans:
        labels.extend(['actual:' + ins['a'], 'wrap:' + ins['w'], 'matcher:' + ins['m'][0],
                       'wrap+matcher:%s/%s' % (ins['w'], ins['m'][0])])
        labels.append('ref-verdict:%s' % ref)
        if ins['m'][0] == 'eq':
            exp = ins['m'][1]
            kind = exp[0] if exp[0] != 'tr' else exp[2][0] + '+tr'
            labels.append('pair:%s/%s' % (ins['a'] + ('+tr' if case['tr'] is not None else ''), kind))
    labels = sorted(set(labels))
    nontrivial = gen.is_special(case['text'], buff) or gen.is_special(t_actual, buff)
    skip = set()
    known = None
    # an instruction whose verdict is the one defect model D2 predicts is left out and the rest is run again, so that
    # every instruction of the case is judged
    while True:
        r, spans, detail = _run_verdict_case(case, skip)
        if r.timed_out:
            return Verdict(inconclusive=True, labels=labels)
        if r.exception:
            return fail('cli-verdict/escaped-exception', detail, labels=labels, nontrivial=nontrivial)
        ident = r.first_out_line
        if r.exit_code == 0 and ident == 'PASS':
            break
        ln = _failing_line(r)
        span = [s for s in spans if ln is not None and s[0] <= ln <= s[1]]
        if ident in ('SYNTAX_ERROR', 'VALIDATION_ERROR', 'FILE_ACCESS_ERROR') or not span:
            return fail('cli-verdict/case-not-executed/%s' % ident, detail, labels=labels, nontrivial=nontrivial)
        first, last, ins, node, ref, idx = span[0]
        detail.update({'failing_instruction': ins, 'actual_source': node, 'reference_verdict_of_matcher': ref,
                       'actual_text': model.ref_text(node)})
        bucket = 'cli-verdict/%s/%s/%s/ref-%s' % (ident, ins['w'], ins['m'][0], ref)
        if ident == 'FAIL' and model.d2_flips_verdict(node, ins['m']):
            if known is None:
                known = (bucket, detail)
            skip.add(idx)
            continue
        return fail(bucket, detail, labels=labels, nontrivial=nontrivial)
    if known is None:
        return Verdict(True, labels=labels, nontrivial=nontrivial)
    bucket, detail = known
    detail['instructions_with_a_verdict_predicted_by_D2'] = sorted(skip)
    with _no_newline_translation():
        r2, _, d2 = _run_verdict_case(case, ())
    if r2.timed_out:
        return Verdict(inconclusive=True, labels=labels)
    if not (r2.exit_code == 0 and r2.first_out_line == 'PASS' and not r2.exception):
        detail['without_newline_translation'] = {k: d2[k] for k in ('exit', 'out', 'err', 'exception')}
        return fail(bucket + '/persists-without-newline-translation', detail, labels=labels, nontrivial=nontrivial)
    detail['defect_model'] = ('the verdict is the one that universal-newline reading of a text held in a file gives; '
                              'the whole case passes when text files are opened with newline="\\n"')
    return Verdict(ok=False, known=KF, bucket=bucket, detail=detail, labels=labels + ['known:D2'],
                   nontrivial=nontrivial)


def build_files_case(case):
    """-> (case text, files, [(name of the observed file, source tree)])
    file oN.txt = SRC, file oN.txt += SRC, env VN = SRC (shown by a shell command that prints it to eN.txt) in [setup]
    or [before-assert]; stdin = SRC of an action that copies its stdin to stdout."""
    files = {}

    def line(prefix, src):
        s = prefix + gen.render_source(src, files)
        return s if s.endswith('\n') else s + '\n'

    body = []
    spans = []
    parts = {}
    for i, src in enumerate(case['srcs']):
        body.append(line('file o%d.txt = ' % (i + 1), src))
        parts[i] = [gen.as_rendered(src)]
    for i, src in case.get('appends') or []:
        body.append(line('file o%d.txt += ' % (i + 1), src))
        parts[i].append(gen.as_rendered(src))
    for i in sorted(parts):
        spans.append(('o%d.txt' % (i + 1), parts[i][0] if len(parts[i]) == 1 else ['appended', parts[i]]))
    for k, src in enumerate(case.get('envs') or []):
        body.append(line('env V%d = ' % (k + 1), src))
        body.append('$ printf %%s "$V%d" > e%d.txt\n' % (k + 1, k + 1))
        spans.append(('e%d.txt' % (k + 1), gen.as_rendered(src)))
    out = ['[setup]\n']
    if case['stdin'] is not None:
        out.append(line('stdin = ', case['stdin']))
        spans.append(('stdin', gen.as_rendered(case['stdin'])))
    if case.get('phase', 'setup') == 'setup':
        out.extend(body)
    out.append('[act]\n$ cat\n')
    if case.get('phase', 'setup') != 'setup':
        out.append('[%s]\n' % case['phase'])
        out.extend(body)
    return ''.join(out), files, spans


def _run_files_case(case):
    case_text, files, spans = build_files_case(case)
    observed = {}
    with driver.Workspace() as ws:
        for name, content in files.items():
            ws.write(name, content.encode('utf-8'))
        ws.write('t.case', case_text)
        _same_mtime(ws, files)
        r = driver.run_inproc(ws, ['--keep', 't.case'], mem_buff_size=case['buff'])
        sb = r.out.strip()
        if r.exit_code == 0 and sb and os.path.isdir(sb):
            for name, _ in spans:
                p = os.path.join(sb, 'result', 'stdout') if name == 'stdin' else os.path.join(sb, 'act', name)
                try:
                    with open(p, 'rb') as f:
                        observed[name] = f.read()
                except OSError:
                    observed[name] = None
    detail = {'buff': case['buff'], 'case_text': case_text, 'files': files, 'exit': r.exit_code, 'out': r.out[:300],
              'err': r.err[:1500], 'exception': r.exception}
    return r, spans, observed, detail


def check_cli_files(case) -> Verdict:
    buff = case['buff']
    _, _, spans = build_files_case(case)
    texts = []
    for _, src in spans:
        texts.extend(model.leaf_texts(src))
    labels = _cli_text_labels(texts, buff)
    labels.append('phase:' + case.get('phase', 'setup'))
    for name, src in spans:
        labels.append('consumer:' + ('stdin' if name == 'stdin' else 'env' if name.startswith('e') else
                                     'file+=' if src[0] == 'appended' else 'file='))
        for n in model.nodes_preorder(src):
            if n[0] == 'tr':
                labels.extend('tr:' + t for t in model.tr_tags(n[1]))
            else:
                labels.append('node:' + n[0])
    labels = sorted(set(labels))
    nontrivial = any(gen.is_special(t, buff) for t in texts)
    r, spans, observed, detail = _run_files_case(case)
    if r.timed_out:
        return Verdict(inconclusive=True, labels=labels)
    if r.exception:
        return fail('cli-files/escaped-exception', detail, labels=labels, nontrivial=nontrivial)
    if r.exit_code != 0:
        return fail('cli-files/not-passed/%s' % r.first_err_line, detail, labels=labels, nontrivial=nontrivial)
    known = None
    for name, src in spans:
        expected = model.ref_text(src)
        got = observed.get(name)
        if got == expected.encode('utf-8'):
            continue
        d = dict(detail)
        d.update({'file': name, 'source': src, 'expected_text': expected,
                  'observed': None if got is None else got.decode('utf-8', errors='backslashreplace')})
        what = 'stdin' if name == 'stdin' else 'env' if name.startswith('e') else 'file'
        if got is None:
            return fail('cli-files/%s/missing' % what, d, labels=labels, nontrivial=nontrivial)
        bucket = 'cli-files/%s/%s' % (what, _diff_class(expected, got.decode('utf-8', errors='replace')))
        try:
            d2 = model.d2_predicts_text(src, got.decode('utf-8'))
        except UnicodeDecodeError:
            d2 = False
        if not d2:
            return fail(bucket, d, labels=labels, nontrivial=nontrivial)
        if known is None:
            known = (bucket, d)
    if known is None:
        return Verdict(True, labels=labels, nontrivial=nontrivial)
    bucket, d = known
    with _no_newline_translation():
        r2, spans2, observed2, detail2 = _run_files_case(case)
    if r2.timed_out:
        return Verdict(inconclusive=True, labels=labels)
    clean = r2.exit_code == 0 and not r2.exception and all(
        observed2.get(name) == model.ref_text(src).encode('utf-8') for name, src in spans2)
    if not clean:
        d['without_newline_translation'] = {
            'exit': r2.exit_code, 'err': r2.err[:600], 'exception': r2.exception,
            'observed': {n: (None if v is None else v.decode('utf-8', errors='backslashreplace'))
                         for n, v in observed2.items()}}
        return fail(bucket + '/persists-without-newline-translation', d, labels=labels, nontrivial=nontrivial)
    d['defect_model'] = ('the file holds what universal-newline reading of a text held in a file gives; every file is '
                         'right when text files are opened with newline="\\n"')
    return Verdict(ok=False, known=KF, bucket=bucket, detail=d, labels=labels + ['known:D2'], nontrivial=nontrivial)


# ------------------------------------------------------------------------------------------------------
# Layer B, metamorphic: one matcher (any matcher - no reference semantics), every source kind x every wrapping
# ------------------------------------------------------------------------------------------------------
def build_meta_case(case, variants, negate):
    """-> (case text, files, [(line, kind, wrap)])   variants: [(kind, wrap)] names of gen.META_KINDS / META_WRAPS"""
    files = {'actual.txt': case['text']}
    out = ['[setup]\n', 'def text-matcher MM = ' + gen.render_meta_matcher(case['m'], files) + '\n',
           'file lit.txt = ' + gen.quoted(case['text']) + '\n', '[act]\n$ cat {HOME}/actual.txt\n[assert]\n']
    line = ''.join(out).count('\n') + 1
    kinds, wraps = dict(gen.META_KINDS), dict(gen.META_WRAPS)
    spans = []
    for kind, wrap in variants:
        src = kinds[kind] + ' ' + ('! ' if negate else '') + wraps[wrap] + '\n'
        n = src.count('\n')
        spans.append((line, line + n - 1, kind, wrap))
        line += n
        out.append(src)
    return ''.join(out), files, spans


def check_cli_metamorphic(case) -> Verdict:
    """The verdict of `contents FILE : M` is taken as it comes (PASS or FAIL); then every other kind of source with
    the same text, under every wrapping that leaves the text as it is, must give that verdict too."""
    buff, text = case['buff'], case['text']
    labels = _cli_text_labels([text], buff) + ['m:' + t for t in sorted(set(gen.meta_tags(case['m'])))]
    nontrivial = gen.is_special(text, buff)

    def run(variants, negate):
        case_text, files, spans = build_meta_case(case, variants, negate)
        with driver.Workspace() as ws:
            for name, content in files.items():
                ws.write(name, content.encode('utf-8'))
            ws.write('t.case', case_text)
            _same_mtime(ws, files)
            r = driver.run_inproc(ws, ['t.case'], mem_buff_size=buff)
        return r, spans, {'buff': buff, 'case_text': case_text, 'files': files, 'exit': r.exit_code,
                          'out': r.out[:300], 'err': r.err[:1500], 'exception': r.exception}

    r, _, detail = run([('file', 'plain')], False)
    if r.timed_out:
        return Verdict(inconclusive=True, labels=labels)
    if r.exception:
        return fail('meta/base/escaped-exception', detail, labels=labels, nontrivial=nontrivial)
    base = r.first_out_line
    if base not in ('PASS', 'FAIL'):
        return fail('meta/base/not-executed/%s' % base, detail, labels=labels, nontrivial=nontrivial)
    labels.append('base-verdict:' + base)
    variants = [(k, w) for k, _ in gen.META_KINDS for w, _ in gen.META_WRAPS if (k, w) != ('file', 'plain')]
    r, spans, detail = run(variants, base == 'FAIL')
    if r.timed_out:
        return Verdict(inconclusive=True, labels=labels)
    if r.exception:
        return fail('meta/variants/escaped-exception', detail, labels=labels, nontrivial=nontrivial)
    if r.exit_code == 0 and r.first_out_line == 'PASS':
        return Verdict(True, labels=labels, nontrivial=nontrivial)
    ln = _failing_line(r)
    span = [s for s in spans if ln is not None and s[0] <= ln <= s[1]]
    detail['verdict_of_contents_FILE_M'] = base
    if r.first_out_line != 'FAIL' or not span:
        return fail('meta/variants/not-executed/%s' % r.first_out_line, detail, labels=labels, nontrivial=nontrivial)
    _, _, kind, wrap = span[0]
    detail['disagreeing_variant'] = {'source': kind, 'wrapping': wrap}
    return fail('meta/%s/%s/base-%s' % (kind, wrap, base), detail, labels=labels, nontrivial=nontrivial)


def decode_api(data: bytes):
    return gen.decode_api_case(data)


SUBS = [
    Sub('api_access', check_api, strategy=lambda tier: gen.api_cases(big=(tier == 'thorough')),
        budget={'quick': 20000, 'thorough': 300000}),
    fuzz.fuzz_sub('api_access_fuzz', 'props.c14_onevalue', 'check_api', 'decode_api', 'api_access',
                  runs={'quick': 4000, 'thorough': 150000}, shards={'quick': 8, 'thorough': 16}, max_len=72, timeout_s=3000,
                  instrument=('exactly_lib.impls.types.string_source', 'exactly_lib.type_val_prims.string_source',
                              'exactly_lib.util.file_utils.spooled_file',
                              'exactly_lib.impls.types.string_transformer.impl.filter',
                              'exactly_lib.impls.types.string_transformer.impl.sources',
                              'exactly_lib.impls.types.string_transformer.impl.strip_space',
                              'exactly_lib.impls.types.string_transformer.impl.replace'),
                  seeds=[bytes([6, 3, 9, 2, 3, 0, 1, 2, 1, 1, 0, 1, 4, 8, 2, 1, 3, 12, 2, 7, 3, 3, 2, 10, 1, 0, 1, 3, 1]),
                         bytes([1, 0, 3, 13, 2, 2, 0, 7, 1, 2, 8, 1, 5, 11, 1, 0, 1, 2, 4, 0, 1, 10, 1, 3, 1, 6, 1])]),
    Sub('api_orders', check_api, enumerate=gen.order_cases, exhaustive=True),
    Sub('api_small_texts', check_api, enumerate=gen.small_text_cases, exhaustive=True),
    Sub('api_freeze_once', check_api_freeze_once, strategy=lambda tier: gen.freeze_once_cases(),
        budget={'quick': 1500, 'thorough': 30000}),
    Sub('cli_files', check_cli_files, strategy=lambda tier: gen.cli_file_cases(),
        budget={'quick': 1500, 'thorough': 30000}),
    Sub('cli_verdicts', check_cli_verdicts, strategy=lambda tier: gen.cli_verdict_cases(),
        budget={'quick': 2000, 'thorough': 40000}),
    Sub('cli_metamorphic', check_cli_metamorphic, strategy=lambda tier: gen.cli_meta_cases(),
        budget={'quick': 500, 'thorough': 12000}),
]
