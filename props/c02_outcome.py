"""C02 - Outcome table: status x assert outcome -> verdict, exit code, identifier, in the three output modes.

Oracle: the tables of `exactly help case spec` ("Complete execution", "Error during ...",
"Summary of exit codes and identifiers") and of `exactly --help` (--keep, --act),
transcribed below as data.  One sub-check compares the transcription with the text
the program prints, so that manual and transcription cannot drift apart silently.
"""
import itertools
import os

from hypothesis import strategies as st

from vlib import driver
from vlib.runner import Sub, Verdict, fail

PROPERTY_ID = 'C02'
LEVEL = 'exploration'
RULE = ('cases = (status in unset/PASS/FAIL/SKIP) x (ending: pass, failing assertion, syntax error per phase, '
        'act syntax error, validation errors, hard error per phase, missing include, preprocessor failures, '
        'usage errors) x (mode normal/--keep/--act) x act exit code x act stdout/stderr texts; enumerated product '
        'for 6 exit codes (quick) / all 256 (thorough) plus Hypothesis draws with random texts; every case is '
        'non-trivial; distinct = distinct (status, ending, mode, exit code, stdout, stderr)')
ASSUMPTIONS = [
    'the documented tables were transcribed by hand from `exactly help case spec` and `exactly --help`; '
    'sub-check manual_agrees compares the transcription with the help text of the tree under test',
    'status=SKIP combined with a failing [conf] instruction is accepted as SKIPPED or VALIDATION_ERROR (manual silent), '
    'but the verdict must not depend on which of the two [conf] lines stands first',
]

# ---- transcription of the manual -------------------------------------------
TABLE = {  # identifier -> exit code ("Summary of exit codes and identifiers")
    'FAIL': 32, 'FILE_ACCESS_ERROR': 65, 'HARD_ERROR': 128, 'INTERNAL_ERROR': 129, 'PASS': 0,
    'PRE_PROCESS_ERROR': 65, 'SKIPPED': 0, 'SYNTAX_ERROR': 65, 'VALIDATION_ERROR': 65, 'XFAIL': 33, 'XPASS': 33,
}
COMPLETE = {  # (status, assert outcome) -> verdict ("Complete execution")
    ('PASS', 'PASS'): 'PASS', ('PASS', 'FAIL'): 'FAIL', ('FAIL', 'PASS'): 'XPASS', ('FAIL', 'FAIL'): 'XFAIL',
}
USAGE_EXIT = 64

STATUSES = ['unset', 'PASS', 'FAIL', 'SKIP']
MODES = ['normal', 'keep', 'act']
INSTR_PHASES = ['setup', 'before-assert', 'assert', 'cleanup']

# ending -> (class, phase)
ENDINGS = {}
ENDINGS['pass'] = ('complete', None)
ENDINGS['pass_preprocessed'] = ('complete', None)
ENDINGS['fail'] = ('complete', None)
ENDINGS['syn_conf'] = ('SYNTAX_ERROR', 'conf')
for _p in INSTR_PHASES:
    ENDINGS['syn_unknown_' + _p] = ('SYNTAX_ERROR', _p)
    ENDINGS['syn_args_' + _p] = ('SYNTAX_ERROR', _p)
    ENDINGS['val_symbol_' + _p] = ('VALIDATION_ERROR', _p)
ENDINGS['syn_act'] = ('SYNTAX_ERROR', 'act')
ENDINGS['val_file_setup'] = ('VALIDATION_ERROR', 'setup')
ENDINGS['val_home'] = ('VALIDATION_ERROR', 'conf')
ENDINGS['val_act_home'] = ('VALIDATION_ERROR', 'conf')
CONF_VALIDATION = {'val_home': 'home = nodir', 'val_act_home': 'act-home = nodir'}
ENDINGS['hard_setup'] = ('HARD_ERROR', 'setup')
ENDINGS['hard_act'] = ('HARD_ERROR', 'act')
ENDINGS['hard_before-assert'] = ('HARD_ERROR', 'before-assert')
ENDINGS['hard_assert'] = ('HARD_ERROR', 'assert')
ENDINGS['hard_cleanup'] = ('HARD_ERROR', 'cleanup')
# a program that exists and is executable but that the OS refuses to start (a script without #! line: ENOEXEC)
ENDINGS['hard_unrunnable_setup'] = ('HARD_ERROR', 'setup')
ENDINGS['hard_unrunnable_act'] = ('HARD_ERROR', 'act')
ENDINGS['hard_unrunnable_cleanup'] = ('HARD_ERROR', 'cleanup')
ENDINGS['include_missing'] = ('FILE_ACCESS_ERROR', 'setup')
ENDINGS['pre_false'] = ('PRE_PROCESS_ERROR', None)
ENDINGS['pre_nonexec'] = ('PRE_PROCESS_ERROR', None)
# the preprocessor writes the whole case to stdout and is then ended by a signal ("exits with a non-zero exit code")
ENDINGS['pre_killed'] = ('PRE_PROCESS_ERROR', None)
ENDINGS['pre_terminated'] = ('PRE_PROCESS_ERROR', None)
# two failures in one case: "an error ... will be reported as an error, and not as a failed test"
ENDINGS['fail_and_hard_cleanup'] = ('HARD_ERROR', 'cleanup')
ENDINGS['hard_assert_and_hard_cleanup'] = ('HARD_ERROR', 'cleanup')
ENDINGS['usage_nofile'] = ('USAGE', None)
ENDINGS['usage_option'] = ('USAGE', None)
ENDINGS['usage_twofiles'] = ('USAGE', None)
ENDINGS['usage_noarg'] = ('USAGE', None)
ENDING_NAMES = sorted(ENDINGS)
PP_SIGNAL = 'cat "$2"\nkill -$1 $$\nsleep 5\n'


HELPER_LINES = [
    'file h1.txt = -stderr-from $ echo helper-out; echo helper-err >&2',
    'file h2.txt = -stdout-from $ echo helper-out; echo helper-err >&2',
    "run % sh -c 'echo helper-out; echo helper-err >&2'",
    '$ echo helper-out; echo helper-err >&2',
    "file h3.txt = 'x' -transformed-by run % sh -c 'cat; echo helper-out-2; echo helper-err >&2'",
    "file h4.txt = -stdout-from % sh -c 'echo helper-out; echo helper-err >&2' -transformed-by char-case -to-upper",
]


def build(case):
    """-> (case text, argv)"""
    status, ending, mode, code = case['status'], case['ending'], case['mode'], case['code']
    ph = {p: [] for p in ['conf', 'setup', 'act', 'before-assert', 'assert', 'cleanup']}
    if status != 'unset':
        ph['conf'].append('status = ' + status)
    ph['setup'].append('file f.txt = "x"')
    ph['act'].append('% {PY} {PROBE} {OBS}/act')
    ph['before-assert'].append('dir d')
    ph['assert'].append('exit-code == %d' % code)
    ph['cleanup'].append('dir e')
    kind, phase = ENDINGS[ending]
    argv_pre = []
    if ending == 'fail':
        ph['assert'].append('exit-code == %d' % ((code + 1) % 256))
    elif ending == 'syn_conf':
        ph['conf'].append('status = BOGUS')
    elif ending.startswith('syn_unknown_'):
        ph[phase].append('no-such-instruction arg')
    elif ending.startswith('syn_args_'):
        ph[phase].append('dir a b')
    elif ending.startswith('val_symbol_'):
        ph[phase].append('def string X = @[UNDEFINED_SYMBOL]@')
    elif ending == 'syn_act':
        ph['act'].append('% {PY} second-line')
    elif ending == 'val_file_setup':
        ph['setup'].append('copy missing-file')
    elif ending in CONF_VALIDATION:
        if case.get('conf_defect_first'):
            ph['conf'].insert(0, CONF_VALIDATION[ending])
        else:
            ph['conf'].append(CONF_VALIDATION[ending])
    elif ending in ('hard_setup', 'hard_before-assert', 'hard_cleanup'):
        ph[phase].append('$ exit 3')
    elif ending in ('hard_unrunnable_setup', 'hard_unrunnable_cleanup'):
        ph[phase].append('run no-interpreter-line.txt')
    elif ending == 'hard_unrunnable_act':
        ph['act'] = ['no-interpreter-line.txt']
    elif ending == 'hard_assert':
        ph['assert'].append('contents missing-file : is-empty')
    elif ending == 'hard_act':
        ph['act'] = ['% no-such-program-xyz-verif']
    elif ending == 'include_missing':
        ph['setup'].append('including missing.xly')
    elif ending == 'pre_false':
        argv_pre = ['--preprocessor', 'false']
    elif ending == 'pre_nonexec':
        argv_pre = ['--preprocessor', '/nonexistent-dir/pp']
    elif ending == 'pre_killed':
        argv_pre = ['--preprocessor', '/bin/sh {HOME}/pp-signal.sh KILL']
    elif ending == 'pre_terminated':
        argv_pre = ['--preprocessor', '/bin/sh {HOME}/pp-signal.sh TERM']
    elif ending == 'fail_and_hard_cleanup':
        ph['assert'].append('exit-code == %d' % ((code + 1) % 256))
        ph['cleanup'].append('$ exit 3')
    elif ending == 'hard_assert_and_hard_cleanup':
        ph['assert'].append('contents missing-file : is-empty')
        ph['cleanup'].append('$ exit 3')
    elif ending == 'pass_preprocessed':
        argv_pre = ['--preprocessor', 'cat']
    if case.get('helpers'):
        # programs run on behalf of instructions write to stdout and stderr too: none of it is output of Exactly
        ph['setup'][0:0] = HELPER_LINES
        ph['cleanup'].append("file h5.txt = -stderr-from -ignore-exit-code $ echo helper-out; echo helper-err >&2; exit 1")
    order = case.get('order') or ['conf', 'setup', 'act', 'before-assert', 'assert', 'cleanup']
    lines = []
    for p in order:
        lines.append('[%s]' % p)
        lines.extend(ph[p])
        lines.append('')
    text = '\n'.join(lines) + '\n'
    mode_args = {'normal': [], 'keep': ['--keep'], 'act': ['--act']}[mode]
    if ending == 'usage_nofile':
        argv = mode_args + ['no-such-file.case']
    elif ending == 'usage_option':
        argv = mode_args + ['--no-such-option', 't.case']
    elif ending == 'usage_twofiles':
        argv = mode_args + ['t.case', 't.case']
    elif ending == 'usage_noarg':
        argv = mode_args
    else:
        argv = mode_args + argv_pre + ['t.case']
    return text, argv


def expected(case):
    """-> dict(ident (set of acceptable), sandbox (bool), act_ran (bool), completes (bool))"""
    status, ending, mode = case['status'], case['ending'], case['mode']
    kind, phase = ENDINGS[ending]
    eff_status = 'PASS' if status == 'unset' else status
    if kind == 'USAGE':
        return {'usage': True}
    # errors detected before anything is executed, independent of status
    if ending == 'syn_act' and eff_status == 'SKIP':
        # whether the act phase is well formed is decided by the actor, a [conf] setting: with SKIP the
        # manual says "the test case is not executed" - both readings accepted
        return {'ident': {'SYNTAX_ERROR', 'SKIPPED'}, 'sandbox': False, 'act_ran': False}
    if kind in ('SYNTAX_ERROR', 'FILE_ACCESS_ERROR', 'PRE_PROCESS_ERROR'):
        return {'ident': {kind}, 'sandbox': False, 'act_ran': False}
    if ending in CONF_VALIDATION:
        ids = {'VALIDATION_ERROR'} | ({'SKIPPED'} if eff_status == 'SKIP' else set())
        return {'ident': ids, 'sandbox': False, 'act_ran': False}
    if eff_status == 'SKIP':
        return {'ident': {'SKIPPED'}, 'sandbox': False, 'act_ran': False}
    if kind == 'VALIDATION_ERROR':
        if mode == 'act' and phase in ('before-assert', 'assert'):
            # --act: "[before-assert] and [assert] are skipped" - the manual does not say whether they are
            # still validated; both readings accepted
            return {'ident': {'VALIDATION_ERROR', None}, 'sandbox': None, 'act_ran': None}
        return {'ident': {'VALIDATION_ERROR'}, 'sandbox': False, 'act_ran': False}
    if kind == 'HARD_ERROR':
        if mode == 'act' and phase in ('before-assert', 'assert'):
            return {'ident': {None}, 'sandbox': True, 'act_ran': True}  # skipped phases: completes
        return {'ident': {'HARD_ERROR'}, 'sandbox': True,
                'act_ran': phase in ('before-assert', 'assert', 'cleanup')}
    # complete execution
    if mode == 'act':
        return {'ident': {None}, 'sandbox': True, 'act_ran': True}
    assert_outcome = 'FAIL' if ending == 'fail' else 'PASS'
    return {'ident': {COMPLETE[(eff_status, assert_outcome)]}, 'sandbox': True, 'act_ran': True}


ALL_IDENTS = set(TABLE)


def _ident_lines(text):
    return [l for l in text.split('\n') if l in ALL_IDENTS]


def check(case) -> Verdict:
    text, argv = build(case)
    exp = expected(case)
    mode = case['mode']
    with driver.Workspace() as ws:
        ws.write('t.case', text)
        ws.write('pp-signal.sh', PP_SIGNAL)
        os.chmod(ws.write('no-interpreter-line.txt', 'echo this file has no interpreter line\n'), 0o755)
        ws.probe_cfg('act', exit=case['code'], stdout=case['out'], stderr=case['err'])
        r = driver.run_inproc(ws, [ws.subst(a) for a in argv])
        sandboxes = r.sandboxes
        act_ran = bool(ws.probe_records('act'))
        sb_path_ok = None
        if mode == 'keep' and r.out.endswith('\n') and r.out.count('\n') == 1:
            p = r.out[:-1]
            sb_path_ok = (os.path.isdir(p) and [os.path.basename(p)] == sandboxes
                          and os.path.dirname(p) == ws.tmproot)
    labels = ['mode:' + mode, 'ending:' + ENDINGS[case['ending']][0], 'status:' + case['status']]
    key = '%s|%s|%s|%d|%s|%s|%s' % (case['status'], case['ending'], mode, case['code'], case['out'], case['err'],
                                    bool(case.get('helpers')))
    if case.get('helpers'):
        labels.append('helper-programs')
    obs = {'exit': r.exit_code, 'out': r.out[:300], 'err': r.err[:600], 'sandboxes': sandboxes, 'act_ran': act_ran}

    def bad(what, **extra):
        d = {'what': what, 'expected': {k: (sorted(map(str, v)) if isinstance(v, set) else v)
                                        for k, v in exp.items()}, 'observed': obs, 'argv': argv, 'case_text': text}
        d.update(extra)
        return fail('%s/%s/%s' % (what, mode, ENDINGS[case['ending']][0]), d, labels=labels, nontrivial=True, key=key)

    if r.exception or r.timed_out:
        return bad('escaped-exception-or-timeout', exception=r.exception)
    if r.leaked_out:
        # something was written to the stdout of the process that is not what Exactly printed itself (a program run
        # for an instruction that was not given a stdout of its own): under the command line this is stdout too
        return bad('output-on-stdout-of-the-process', leaked=r.leaked_out[:300])
    if exp.get('usage'):
        if r.exit_code != USAGE_EXIT:
            return bad('usage-exit-code')
        if r.out != '':
            return bad('usage-stdout-not-empty')
        if _ident_lines(r.err) or _ident_lines(r.out):
            return bad('usage-identifier-printed')
        if sandboxes or act_ran:
            return bad('usage-executed')
        return Verdict(True, nontrivial=True, key=key, labels=labels)

    completes = None in exp['ident']
    # which identifier did the program report?
    if mode == 'normal':
        # the verdict is "a single line on stdout"
        if not r.out.endswith('\n') or r.out.count('\n') != 1:
            return bad('normal-stdout-not-single-line')
        ident = r.out[:-1]
    elif mode == 'keep':
        ident = r.first_err_line
        if _ident_lines(r.out):
            return bad('keep-identifier-on-stdout')
    else:  # act
        # stderr = the action's stderr (if it ran) followed by the error information (if any)
        rest = r.err
        if act_ran and rest.startswith(case['err']):
            rest = rest[len(case['err']):]
        first = rest.split('\n', 1)[0]
        ident = first if first in ALL_IDENTS and rest != '' else None
        if ident is None and rest != '' and not act_ran:
            return bad('act-error-without-identifier')
        if _ident_lines(r.out) and not _ident_lines(case['out']):
            return bad('act-identifier-on-stdout')
    labels.append('ident:%s' % ident)
    if ident not in exp['ident']:
        return bad('wrong-verdict', reported=ident)
    if case['ending'] in CONF_VALIDATION and case['status'] == 'SKIP':
        # the manual does not say which of SKIPPED / VALIDATION_ERROR wins, but the verdict is a function of the
        # configured status and of what is wrong with the case: one reading must hold wherever the two [conf]
        # lines stand relative to each other
        other = dict(case, conf_defect_first=not case.get('conf_defect_first'))
        text2, argv2 = build(other)
        with driver.Workspace() as ws2:
            ws2.write('t.case', text2)
            r2 = driver.run_inproc(ws2, [ws2.subst(a) for a in argv2])
        ids2 = _ident_lines(r2.out) + _ident_lines(r2.err)
        ident2 = ids2[0] if ids2 else None
        labels.append('conf-order-pair')
        if ident2 != ident:
            return bad('skip-vs-conf-validation-depends-on-line-order', reported=ident, other_order=ident2,
                       other_text=text2)
    if ident is not None:
        if ident not in TABLE:
            return bad('unknown-identifier', reported=ident)
        if r.exit_code != TABLE[ident]:
            return bad('exit-code-vs-identifier', reported=ident)
    # mode specific output rules
    exp_sandbox = exp['sandbox']
    exp_act = exp['act_ran']
    if exp_sandbox is None:  # ambiguous cell: derive from what was reported
        exp_sandbox = ident is None
        exp_act = ident is None
    if ident == 'SKIPPED' or (ident == 'VALIDATION_ERROR'):
        exp_sandbox, exp_act = False, False
    if act_ran != exp_act:
        return bad('act-execution')
    if mode == 'normal':
        if sandboxes:
            return bad('normal-sandbox-left')
    elif mode == 'keep':
        if exp_sandbox:
            if not sb_path_ok:
                return bad('keep-stdout-is-not-the-sandbox-path')
        else:
            if r.out != '':
                return bad('keep-stdout-not-empty-without-sandbox')
            if sandboxes:
                return bad('keep-sandbox-without-report')
    else:  # act
        if sandboxes:
            return bad('act-sandbox-left')
        if ident is None:
            if r.out != case['out'] or r.err != case['err'] or r.exit_code != case['code']:
                return bad('act-passthrough')
        else:
            if act_ran:
                if r.out != case['out'] or not r.err.startswith(case['err']):
                    return bad('act-output-before-error')
            else:
                if r.out != '':
                    return bad('act-stdout-on-error')
    return Verdict(True, nontrivial=True, key=key, labels=labels)


# ---- generators ---------------------------------------------------------------
_TEXTS = ['', 'out\n', 'no newline', 'l1\nl2\n', '\n', 'é ü\n', 'PASS\n']


def enum_cases(tier):
    codes = [0, 1, 2, 32, 65, 255] if tier == 'quick' else list(range(256))
    for status, ending, mode in itertools.product(STATUSES, ENDING_NAMES, MODES):
        for i, code in enumerate(codes):
            if tier != 'quick' and code not in (0, 1, 2, 32, 33, 64, 65, 127, 128, 129, 255) \
                    and ENDINGS[ending][0] != 'complete' and not ending.startswith('hard_'):
                continue  # exit code of an action that never runs: sample only
            yield {'status': status, 'ending': ending, 'mode': mode, 'code': code,
                   'out': _TEXTS[(i + len(ending)) % len(_TEXTS)], 'err': _TEXTS[(i + len(status)) % len(_TEXTS)],
                   'helpers': i % 3 == 1}


_text = st.text(alphabet=st.sampled_from(list('ab \n\tPé')), max_size=12) | st.sampled_from(_TEXTS) | \
        st.sampled_from(['PASS\n', 'FAIL\n', 'HARD_ERROR\n', 'x' * 9000 + '\n'])
_order = st.permutations(['conf', 'setup', 'act', 'before-assert', 'assert', 'cleanup'])


def strategy(tier):
    return st.fixed_dictionaries({
        'status': st.sampled_from(STATUSES),
        'ending': st.sampled_from(ENDING_NAMES),
        'mode': st.sampled_from(MODES),
        'code': st.integers(0, 255),
        'out': _text,
        'err': _text,
        'order': st.none() | _order,
        'helpers': st.booleans(),
    })


# ---- the manual still says what was transcribed --------------------------------
def check_manual(case) -> Verdict:
    import re
    what = case['what']
    with driver.Workspace() as ws:
        r = driver.run_inproc(ws, ['help', 'case', 'spec'])
    if r.exit_code != 0 or r.exception:
        return fail('manual-unavailable', {'exit': r.exit_code, 'err': r.err[:500], 'exc': r.exception})
    txt = r.out
    if what == 'summary':
        m = re.search(r'Summary of exit codes and identifiers(.*?)(\n\S|\Z)', txt, re.S)
        rows = dict((a, int(b)) for a, b in re.findall(r'^\s+([A-Z_]+)\s+(\d+)\s*$', m.group(1), re.M))
        if rows != TABLE:
            return fail('manual-summary-differs', {'manual': rows, 'transcription': TABLE})
    elif what == 'complete':
        m = re.search(r'Status\s+\[assert\]\s+Test Case\s*\n\s*-+\n(.*?)\n\s*\n', txt, re.S)
        rows = {}
        for line in m.group(1).split('\n'):
            parts = line.split()
            if len(parts) == 3:
                rows[(parts[0], parts[1])] = parts[2]
            elif len(parts) == 2:
                rows[(parts[0], None)] = parts[1]
        exp = dict(COMPLETE)
        exp[('SKIP', None)] = 'SKIPPED'
        if rows != exp:
            return fail('manual-complete-table-differs', {'manual': {str(k): v for k, v in rows.items()}})
    elif what == 'usage':
        if not re.search(r'exit\s+code 64 \(no exit identifier is printed\)', txt):
            return fail('manual-usage-differs', None)
    return Verdict(True, nontrivial=True, key='manual:' + what, labels=['manual:' + what])


SUBS = [
    Sub('manual_agrees', check_manual, enumerate=lambda tier: [{'what': 'summary'}, {'what': 'complete'},
                                                               {'what': 'usage'}],
        exhaustive=True, shards={'quick': 1, 'thorough': 1}),
    Sub('table_product', check, enumerate=enum_cases, exhaustive=True),
    Sub('random_outputs', check, strategy=strategy, budget={'quick': 1200, 'thorough': 40000}),
]


# ---- sub-process differential: the OS-level exit code and streams equal the in-process observation -----------
def check_subprocess(case) -> Verdict:
    text, argv = build(case)
    mode = case['mode']
    obs = []
    for how in ('inproc', 'subproc'):
        with driver.Workspace() as ws:
            ws.write('t.case', text)
            ws.write('pp-signal.sh', PP_SIGNAL)
            os.chmod(ws.write('no-interpreter-line.txt', 'echo this file has no interpreter line\n'), 0o755)
            argv_here = [ws.subst(a) for a in argv]
            ws.probe_cfg('act', exit=case['code'], stdout=case['out'], stderr=case['err'])
            r = driver.run_inproc(ws, argv_here) if how == 'inproc' else driver.run_subproc(ws, argv_here)
            root = ws.root
        norm = lambda s: s.replace(root, '<WS>')
        import re as _re
        out = _re.sub(r'exactly-[A-Za-z0-9_]+', 'exactly-XXXX', norm(r.out))
        err = _re.sub(r'exactly-[A-Za-z0-9_]+', 'exactly-XXXX', norm(r.err))
        obs.append({'exit': r.exit_code, 'out': out, 'err': err, 'timed_out': r.timed_out})
    labels = ['subproc', 'mode:' + mode, 'ending:' + ENDINGS[case['ending']][0]]
    key = 'sub|%s|%s|%s|%d' % (case['status'], case['ending'], mode, case['code'])
    if obs[1]['timed_out']:
        return Verdict(inconclusive=True, labels=labels)
    a, b = obs
    # usage errors: argparse prints the program name, which differs between the two ways of starting
    if ENDINGS[case['ending']][0] == 'USAGE':
        same = a['exit'] == b['exit'] == USAGE_EXIT and b['out'] == ''
    else:
        same = (a['exit'], a['out'], a['err']) == (b['exit'], b['out'], b['err'])
    if not same:
        return fail('subprocess-differs/%s/%s' % (mode, ENDINGS[case['ending']][0]),
                    {'case_text': text, 'argv': argv, 'inproc': a, 'subproc': b}, labels=labels, nontrivial=True,
                    key=key)
    return Verdict(True, nontrivial=True, key=key, labels=labels)


def enum_subprocess(tier):
    cases = list(enum_cases('quick'))
    step = 47 if tier == 'quick' else 3
    return [c for i, c in enumerate(cases) if i % step == 0]


SUBS.append(Sub('subprocess_differential', check_subprocess, enumerate=enum_subprocess, exhaustive=False))
