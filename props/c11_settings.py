"""C11 - Settings persist forward: cd, env (act / non-act), timeout, def.

Histories: sequences of cd / env set / env unset (with -of act, -of !act or neither) / timeout / def / child-side cd
instructions interleaved with probes, distributed over setup, before-assert, assert and cleanup; the act phase is
always a probe.  Oracle: the reference state machine below (written from `help setup env`, `help concept
environment variable`, `help concept current directory`): two environment sets that both start as the
environment of the Exactly process, each op updates the addressed set(s) with ${name} expanded against the set
being changed (unknown => empty), probes outside [act] see the non-act set and the modelled cwd at their position,
the act probe sees the act set; nothing is visible before its instruction; a child's cd changes nothing.
"""
import os

from hypothesis import strategies as st

from vlib import driver
from vlib.runner import Sub, Verdict, fail

PROPERTY_ID = 'C11'
LEVEL = 'exploration'
RULE = ('histories of up to 14 ops (cd to act/tmp/new sub dirs, env set with ${..} references to known, unknown '
        'and the same variable, env value taken from a program run in the addressed environment, env unset, '
        '-of act / -of !act in [setup], timeout changes, def, child-process cd, def path with current-directory '
        'relativity and uses of it - directly, with a suffix, through a second path symbol - before and after cd) '
        'with probes after random ops, '
        'distributed over setup/before-assert/assert/cleanup in order; act = probe. Non-trivial = a change followed '
        'by a probe in a later phase (or the act probe after a setup change); distinct = distinct history. '
        'Sub-check timeout_persists: enumerated cells (place of a process in a later instruction / phase x other '
        'settings - env without/with -of, cd, stdin - made between the `timeout = 1` and the use): a child that '
        'sleeps 40 s must be stopped, a `timeout = none` given later lifts the limit')
ASSUMPTIONS = [
    'probes are `$ env -0 > FILE; pwd > FILE` (variables the shell sets itself - PWD, OLDPWD, SHLVL, _ - are '
    'ignored) and, for a sample, the python probe program',
    'in the generated histories timeout changes must merely not disturb the other settings; that a timeout set '
    'earlier is in force for later instructions and phases is checked by the enumerated sub-check '
    'timeout_persists, which reuses the cell builder and the wall-clock margins of C19 (props/c19_timeouts.py)',
]

IPHASES = ['setup', 'before-assert', 'assert', 'cleanup']
NAMES = ['VA', 'VB', 'VC', 'VERIF_PRESET']
SHELL_OWN = {'PWD', 'OLDPWD', 'SHLVL', '_'}


# ---- reference model ----------------------------------------------------------------------------------
def expand(parts, env):
    out = ''
    for kind, v in parts:
        out += v if kind == 'lit' else env.get(v, '')
    return out


class Model:
    def __init__(self, start_env, act_dir, tmp_dir):
        self.act = dict(start_env)
        self.non = dict(start_env)
        self.cwd = act_dir
        self.act_dir = act_dir
        self.tmp_dir = tmp_dir
        self.symbols = []
        self.paths = {}
        self.marks = set()

    def sets(self, of, phase):
        if phase != 'setup':
            return [self.non]
        return {'none': [self.act, self.non], 'act': [self.act], '!act': [self.non]}[of]

    def apply(self, phase, op):
        k = op[0]
        if k == 'env':
            _, of, name, parts = op
            for s in self.sets(of, phase):
                s[name] = expand(parts, s)
        elif k == 'env_prog':
            _, of, name, src = op
            for s in self.sets(of, phase):
                s[name] = s.get(src, '')
        elif k == 'unset':
            _, of, name = op
            for s in self.sets(of, phase):
                s.pop(name, None)
        elif k == 'cd':
            t = op[1]
            if t == 'act':
                self.cwd = self.act_dir
            elif t == 'tmp':
                self.cwd = self.tmp_dir
            elif t.startswith('sub:'):
                self.cwd = os.path.join(self.cwd, t[4:])
            elif t.startswith('actsub:'):
                self.cwd = os.path.join(self.act_dir, t[7:])
        elif k == 'def':
            self.symbols.append((op[1], op[2]))
        elif k == 'defpath':
            # def path NAME = SUFFIX: relative to the current directory *at the time of use*
            self.paths[op[1]] = op[2]

    def path_value(self, name):
        """what a reference to the path symbol denotes now"""
        return os.path.normpath(os.path.join(self.cwd, self.paths[name]))


# ---- rendering ---------------------------------------------------------------------------------------------
def render_value(parts):
    return '"' + ''.join(v if kind == 'lit' else '${%s}' % v for kind, v in parts) + '"'


def render_op(phase, op, idx):
    k = op[0]
    of = ''
    if k in ('env', 'env_prog', 'unset') and phase == 'setup' and op[1] != 'none':
        of = '-of %s ' % op[1]
    if k == 'env':
        return ['env %s%s = %s' % (of, op[2], render_value(op[3]))]
    if k == 'env_prog':
        return ['env %s%s = -stdout-from $ printf %%s "$%s"' % (of, op[2], op[3])]
    if k == 'unset':
        return ['env %sunset %s' % (of, op[2])]
    if k == 'cd':
        t = op[1]
        if t == 'act':
            return ['cd -rel-act .']
        if t == 'tmp':
            return ['cd -rel-tmp .']
        if t.startswith('sub:'):
            return ['dir %s' % t[4:], 'cd %s' % t[4:]]
        if t.startswith('actsub:'):
            return ['dir -rel-act %s' % t[7:], 'cd -rel-act %s' % t[7:]]
    if k == 'timeout':
        return ['timeout = %s' % op[1]]
    if k == 'def':
        return ['def string %s = %s' % (op[1], op[2])]
    if k == 'defpath':
        return ['def path %s = %s' % (op[1], op[2])]
    if k == 'usepath':
        # the value of the path symbol (an absolute path) as a shell command sees it, directly and through a
        # second symbol built on it
        how = op[2]
        ref = {'plain': '@[%s]@' % op[1], 'suffix': '@[%s]@/leaf' % op[1]}.get(how)
        if how == 'derived':
            return ['def path D%d = -rel %s leaf' % (idx, op[1]),
                    "$ printf %%s '@[D%d]@' > {OBS}/pp%d" % (idx, idx)]
        return ["$ printf %%s '%s' > {OBS}/pp%d" % (ref, idx)]
    if k == 'child_cd':
        return ['$ cd / && export VA=from-child && true']
    if k == 'probe':
        return ['$ env -0 > {OBS}/p%d.env; pwd > {OBS}/p%d.pwd' % (idx, idx)]
    if k == 'pyprobe':
        return ['% {PY} {PROBE} {OBS}/py' + str(idx)]
    raise ValueError(op)


def build(case):
    lines = []
    idx = 0
    positions = []  # (phase, op, idx)
    for ph in ['setup', 'act', 'before-assert', 'assert', 'cleanup']:
        lines.append('[%s]' % ph)
        if ph == 'act':
            lines.append('$ env -0 > {OBS}/act.env; pwd > {OBS}/act.pwd' if not case.get('py_act')
                         else '% {PY} {PROBE} {OBS}/pyact')
            if case.get('act_transformed'):
                # the action to check is the same process of the act phase when its output is transformed
                lines.append('  -transformed-by char-case -to-upper')
            continue
        if ph == 'setup':
            # learn the sandbox directories
            lines.append('$ pwd > {OBS}/start.pwd')
        for op in case['ops'][ph]:
            lines += render_op(ph, op, idx)
            positions.append((ph, op, idx))
            idx += 1
        if case.get('fail_after') == ph:
            # the last instruction of this phase fails: the phases up to [cleanup] are skipped, [cleanup] runs with
            # the settings as they are at this point
            lines.append('$ exit 3')
    return '\n'.join(lines) + '\n', positions


def skipped_phases(case):
    fa = case.get('fail_after')
    order = ['setup', 'act', 'before-assert', 'assert']
    return set(order[order.index(fa) + 1:]) if fa in order else set()


def _read_env0(path):
    if not os.path.exists(path):
        return None
    data = open(path, 'rb').read().decode('utf-8', errors='surrogateescape')
    env = {}
    for item in data.split('\0'):
        if '=' in item:
            k, v = item.split('=', 1)
            env[k] = v
    return env


def _cmp_env(model_env, seen, start_env):
    """-> list of differences on everything the model knows about"""
    diffs = []
    for k in set(model_env) | set(NAMES) | set(start_env):
        if k in SHELL_OWN or k == 'LC_CTYPE':
            continue
        if model_env.get(k) != seen.get(k):
            diffs.append([k, model_env.get(k), seen.get(k)])
    return diffs


def check(case) -> Verdict:
    text, positions = build(case)
    with driver.Workspace() as ws:
        ws.write('t.case', text)
        r = driver.run_inproc(ws, ['t.case'], extra_env={'VERIF_PRESET': 'preset-value', 'VA': None, 'VB': None,
                                                         'VC': None})
        start_env = dict(os.environ)
        start_env['VERIF_PRESET'] = 'preset-value'
        for n in ('VA', 'VB', 'VC'):
            start_env.pop(n, None)
        obs = {}
        sp = os.path.join(ws.obs, 'start.pwd')
        start_pwd = open(sp).read().strip() if os.path.exists(sp) else None
        for ph, op, idx in positions:
            if op[0] == 'probe':
                pw = os.path.join(ws.obs, 'p%d.pwd' % idx)
                obs[idx] = (_read_env0(os.path.join(ws.obs, 'p%d.env' % idx)),
                            open(pw).read().strip() if os.path.exists(pw) else None)
            elif op[0] == 'usepath':
                pp = os.path.join(ws.obs, 'pp%d' % idx)
                obs[idx] = open(pp).read() if os.path.exists(pp) else None
            elif op[0] == 'pyprobe':
                recs = ws.probe_records('py%d' % idx)
                obs[idx] = (recs[0]['env'], recs[0]['cwd']) if len(recs) == 1 else (None, None)
        if case.get('py_act'):
            recs = ws.probe_records('pyact')
            act_obs = (recs[0]['env'], recs[0]['cwd']) if len(recs) == 1 else (None, None)
        else:
            pw = os.path.join(ws.obs, 'act.pwd')
            act_obs = (_read_env0(os.path.join(ws.obs, 'act.env')),
                       open(pw).read().strip() if os.path.exists(pw) else None)
    labels = []
    detail = {'case_text': text, 'exit': r.exit_code, 'out': r.out[:200], 'err': r.err[:600]}
    if r.exception or r.timed_out:
        detail['exception'] = r.exception
        return fail('exception-or-timeout', detail)
    if r.exit_code != {None: 0, 'assert': 32}.get(case.get('fail_after'), 128) or start_pwd is None:
        return fail('generated-history-does-not-pass', detail)
    skipped = skipped_phases(case)
    if skipped:
        labels.append('failing-step-then-cleanup:' + case['fail_after'])
    if r.cwd_changed is not None or r.env_diff is not None:
        return fail('process-state-leaked', detail)
    act_dir = start_pwd
    tmp_dir = os.path.join(os.path.dirname(start_pwd), 'tmp')
    m = Model(start_env, act_dir, tmp_dir)
    changes_before = 0
    nontrivial = False
    changed_phases = set()
    for ph in ['setup', 'act', 'before-assert', 'assert', 'cleanup']:
        if ph in skipped:
            continue
        if ph == 'act':
            env, cwd = act_obs
            if env is None:
                return fail('act-probe-missing', detail)
            d = _cmp_env(m.act, env, start_env)
            if d:
                detail['differences[name, expected, seen]'] = d[:6]
                return fail('act-environment', detail, labels=labels, nontrivial=True)
            if cwd != m.cwd:
                detail['cwd'] = [m.cwd, cwd]
                return fail('act-cwd', detail, labels=labels, nontrivial=True)
            if changed_phases:
                nontrivial = True
            continue
        for op in case['ops'][ph]:
            idx = [i for (p, o, i) in positions if o is op][0]
            if op[0] in ('probe', 'pyprobe'):
                env, cwd = obs[idx]
                if env is None:
                    return fail('probe-missing', detail)
                d = _cmp_env(m.non, env, start_env)
                if d:
                    detail['probe'] = idx
                    detail['differences[name, expected, seen]'] = d[:6]
                    return fail('non-act-environment/' + ph, detail, labels=labels, nontrivial=True)
                if cwd != m.cwd:
                    detail['probe'] = idx
                    detail['cwd'] = [m.cwd, cwd]
                    return fail('cwd/' + ph, detail, labels=labels, nontrivial=True)
                if any(p != ph for p in changed_phases):
                    nontrivial = True
                    labels.append('probe-after-change-in-earlier-phase')
            elif op[0] == 'usepath':
                want = m.path_value(op[1]) + ('/leaf' if op[2] in ('suffix', 'derived') else '')
                if obs[idx] is None or os.path.normpath(obs[idx]) != want:
                    detail['path-use'] = {'op': op, 'expected': want, 'observed': obs[idx]}
                    return fail('path-symbol-not-relative-to-current-directory/' + ph, detail, labels=labels,
                                nontrivial=True)
                labels.append('op:usepath:' + op[2])
                if 'cd-after-first-path-use:' + op[1] in m.marks:
                    labels.append('path-symbol-used-before-and-after-cd')
                    nontrivial = True
                m.marks.add('path-used:' + op[1])
            else:
                m.apply(ph, op)
                if op[0] == 'cd':
                    for mk in list(m.marks):
                        if mk.startswith('path-used:'):
                            m.marks.add('cd-after-first-path-use:' + mk[len('path-used:'):])
                if op[0] in ('env', 'env_prog', 'unset', 'cd'):
                    changed_phases.add(ph)
                labels.append('op:' + op[0] + (':' + op[1] if op[0] in ('env', 'unset', 'env_prog') and ph == 'setup'
                                               else ''))
                if op[0] == 'env' and any(k == 'ref' for k, _ in op[3]):
                    labels.append('expansion')
                    if any(k == 'ref' and v == op[2] for k, v in op[3]):
                        labels.append('expansion:self')
                    if any(k == 'ref' and v == 'NOPE' for k, v in op[3]):
                        labels.append('expansion:unknown')
    if m.act != m.non:
        labels.append('sets-diverge')
    return Verdict(True, nontrivial=nontrivial, labels=sorted(set(labels)),
                   sample={'case_text': text})


# ---- generator ---------------------------------------------------------------------------------------------
# (only "elements of the form ${var_name}" are replaced: a `$` that does not begin such an element is an ordinary
# character - `$NAME`, `$$`, `US$5`, `$ {V}`)
_lit = st.sampled_from(['a', 'b', 'x y', '1', '', ':', '/', 'a', 'b', '$', '$$', 'US$5', '$%s' % NAMES[0], '$ {%s}' % NAMES[0],
                        '$x$'])
_part = st.tuples(st.just('lit'), _lit) | st.tuples(st.just('ref'), st.sampled_from(NAMES + ['NOPE', 'PATH']))
_of = st.sampled_from(['none', 'act', '!act'])


@st.composite
def histories(draw, max_ops=14):
    n = draw(st.integers(1, max_ops))
    ops = {p: [] for p in IPHASES}
    sub_counter = 0
    n_py = 0
    n_probe = 0
    phases = sorted(draw(st.lists(st.sampled_from(['setup', 'setup'] + IPHASES), min_size=n, max_size=n)),
                    key=IPHASES.index)
    for ph in phases:
        kind = draw(st.sampled_from(['env', 'env', 'env', 'unset', 'cd', 'cd', 'probe', 'probe', 'probe',
                                     'timeout', 'def', 'child_cd', 'env_prog', 'env_prog', 'pyprobe',
                                     'path', 'path']))
        if kind == 'env':
            ops[ph].append(['env', draw(_of), draw(st.sampled_from(NAMES)),
                            [list(x) for x in draw(st.lists(_part, min_size=0, max_size=3))]])
        elif kind == 'env_prog':
            ops[ph].append(['env_prog', draw(_of), draw(st.sampled_from(NAMES)), draw(st.sampled_from(NAMES))])
        elif kind == 'unset':
            ops[ph].append(['unset', draw(_of), draw(st.sampled_from(NAMES + ['NOPE']))])
        elif kind == 'cd':
            t = draw(st.sampled_from(['act', 'tmp', 'sub', 'sub', 'actsub']))
            if t in ('sub', 'actsub'):
                sub_counter += 1
                t = '%s:d%d' % (t, sub_counter)
            ops[ph].append(['cd', t])
        elif kind == 'timeout':
            ops[ph].append(['timeout', draw(st.sampled_from(['5', '60', 'none', '1+1']))])
        elif kind == 'def':
            ops[ph].append(['def', 'S%d' % len([1 for p in IPHASES for o in ops[p] if o[0] == 'def']),
                            draw(st.sampled_from(['v', 'w', '"a b"']))])
        elif kind == 'path':
            defined = [o[1] for p in IPHASES for o in ops[p] if o[0] == 'defpath']
            if not defined or (len(defined) < 2 and draw(st.integers(0, 3)) == 0):
                ops[ph].append(['defpath', 'P%d' % len(defined), draw(st.sampled_from(['pd', 'pd/sub', '.', 'q']))])
                defined.append('P%d' % (len(defined)))
            ops[ph].append(['usepath', draw(st.sampled_from(defined)),
                            draw(st.sampled_from(['plain', 'plain', 'suffix', 'derived']))])
        elif kind == 'child_cd':
            ops[ph].append(['child_cd'])
        elif kind == 'pyprobe' and n_py < 1:
            n_py += 1
            ops[ph].append(['pyprobe'])
        else:
            if n_probe < 6:
                n_probe += 1
                ops[ph].append(['probe'])
    # make sure something is observed late
    ops['cleanup'].append(['probe'])
    case = {'ops': ops, 'py_act': draw(st.integers(0, 7)) == 0, 'act_transformed': draw(st.integers(0, 3)) == 0}
    if draw(st.integers(0, 3)) == 0:
        case['fail_after'] = draw(st.sampled_from(['setup', 'setup', 'before-assert', 'assert']))
        # symbols whose definition is skipped do not exist in [cleanup] (what a reference to one does is another
        # property's subject - KF-C18-5): such uses are dropped
        lost = {o[1] for p in skipped_phases(case) if p in ops for o in ops[p] if o[0] == 'defpath'}
        ops['cleanup'] = [o for o in ops['cleanup'] if not (o[0] == 'usepath' and o[1] in lost)]
        if not any(o[0] in ('probe', 'pyprobe', 'usepath') for o in ops['cleanup']):
            ops['cleanup'].append(['probe'])
    return case


# ---- the timeout takes effect for every later instruction and phase (cells and oracle shared with C19) ----------------
_TIMEOUT_PLACES = ('instr-sys', 'instr-run-sym', 'file-stdout-from', 'act-sys', 'act-sym', 'act-shell')


def timeout_cells(tier):
    from props import c19_timeouts as t
    cells = [c for c in t.all_cells()
             if (c.get('ctx') or c['history'] in ('h7_zero', 'h8_slow_cleanup_after_failure', 'h2_earlier_phase'))
             and c['place'] in _TIMEOUT_PLACES]
    if tier != 'quick':
        return cells
    seed = int(os.environ.get('VERIF_SEED', '1') or '1')
    return [c for i, c in enumerate(cells)
            if (i * 2654435761 + seed * 40503) % 8 == 0 or (c['phase'] == 'act' and c['history'] == 'h1_same_phase'
                                                             and c['place'] == 'act-sym')
            or (c['history'] in ('h7_zero', 'h8_slow_cleanup_after_failure') and c['place'] in ('act-sys', 'instr-sys'))]


def check_timeout(cell) -> Verdict:
    from props import c19_timeouts as t
    return t.check(cell)


SUBS = [
    Sub('histories', check, strategy=lambda tier: histories(14 if tier == 'quick' else 20),
        budget={'quick': 2500, 'thorough': 100000}),
    Sub('timeout_persists', check_timeout, enumerate=timeout_cells, exhaustive=False,
        shards={'quick': 16, 'thorough': 16}),
]
