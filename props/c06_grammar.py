"""C06 - Expression grammar: precedence, associativity, parentheses and layout.

A typed expression tree is generated for one of the six host types (integer-, line-, text-, file-, files-matcher,
text-transformer), rendered with the parentheses precedence requires plus redundant ones, laid out with blanks and
line breaks, put into an instruction that takes a full or a "simple" expression, and run.  The verdict (and the
invocation order of observable program leaves, and the text a transformer produces) must be what the *tree*
gives under the documented reading: `!` > `&&` > `||`, operands evaluated lazily from left to right, `|` composes
left to right (vlib/ref/c06_ref.py, written from `help syntax ...`).  Malformed expressions must be SYNTAX_ERROR.
"""
import hashlib
import os
import random

from hypothesis import strategies as st

from vlib import driver
from vlib.gen import c06_gen as gen
from vlib.ref import c06_ref as ref
from vlib.runner import Sub, Verdict, fail

PROPERTY_ID = 'C06'
LEVEL = 'exploration'
RULE = ('case = (host type, context, typed expression tree of depth <= 3 (quick) / 4 (thorough) over ! && || (| for '
        'transformers) with constant, comparison, text, file-type leaves, leaves that are HARD_ERROR on the wrong '
        'file type and <= 3 observable program leaves; nested operands of other host types in "simple" positions), '
        'a world (exit code, text, model file, model directory), a layout tape (redundant parentheses, chains '
        'left/right nested, blanks, tabs, line breaks after infix operators / after ! / inside parentheses / after '
        'the instruction head, blank lines; rarely a break before an infix operator outside parentheses or before '
        'a nested operand) and what follows the expression in the file.  Non-trivial ("discriminating") = at least '
        'one wrong reading of the same token sequence (precedences swapped, one flat level left- or '
        'right-associative, ! binding loosest, eager evaluation, right-to-left evaluation/composition) gives a '
        'different verdict, trace or text; distinct = distinct (host, context, expression text, model).  Malformed '
        'cases: one mutation (operator doubled, operand dropped, parenthesis dropped/added/glued, empty '
        'parentheses, leading operator, lonely !) of a valid rendering placed last in the file, plus an '
        'enumerated table of shapes per host type')
ASSUMPTIONS = [
    'permitted line breaks = after an infix operator, after `!`, between any two expression tokens inside '
    'parentheses ("expressions inside parentheses" may span lines: help case spec), after the head of the '
    'instruction (`:` / `=` / the instruction name: repository examples), and the mandatory line end after a '
    'program; blank lines at these places included.  For a break *before* an infix operator outside parentheses '
    'and a break between a primitive and its nested operand the manual is silent: tree value or SYNTAX_ERROR '
    'are both accepted',
    'the manual does not say in which order `every/any file`, `every/any line`, `-selection`, `filter`, '
    '`replace -at` visit their elements, nor whether they stop early: when an element evaluation has an '
    'observable effect (program leaf, HARD_ERROR) and there is more than one element the case only checks that '
    'the outcome is a verdict (label outcome:ambiguous)',
    'whether `-transformed-by T M` computes T when M may not read the text is not documented: program leaves in T '
    'are only checked when M is a single text-reading primitive',
    '`filter LINE-MATCHER` and line-matcher `contents TEXT-MATCHER` carry no "may not contain infix operators" '
    'note; the generator always parenthesises compound operands there (both readings agree)',
    'an observable leaf is the program vlib/gen/c06_leaf.py (records id, stdin, last argument in one trace file)',
]

C06LEAF = os.path.join(driver.VERIF_DIR, 'vlib', 'gen', 'c06_leaf.py')

TYPE_NAME = {'im': 'integer-matcher', 'lm': 'line-matcher', 'tm': 'text-matcher', 'fm': 'file-matcher',
             'fsm': 'files-matcher', 'tr': 'text-transformer'}

# contexts per host type of the generated expression E
CONTEXTS = {
    'im': ['exit-code', 'exit-code', 'exit-code-from', 'def', 'num-lines', 'line-num', 'num-files'],
    'lm': ['def', 'def', 'every-line', 'any-line', 'filter', 'replace-at'],
    'tm': ['stdout', 'contents', 'def', 'fm-contents', 'line-contents', 'transformed'],
    'fm': ['exists', 'exists', 'def', 'every-file', 'any-file', 'selection', 'with-pruned'],
    'fsm': ['dir-contents', 'dir-contents', 'def', 'fm-dir-contents', 'selection-operand', 'pruned-operand'],
    'tr': ['def', 'def', 'file', 'tm-transformed', 'program-output', 'per-line', 'per-line', 'per-file'],
}
# contexts in which E itself is a full expression (the others take a simple expression)
FULL_CONTEXTS = {'exit-code', 'exit-code-from', 'def', 'stdout', 'contents', 'exists', 'dir-contents'}

_TUNE = {'exit': [0, 1, 2, 3, 4], 'text': ['a\nb\nab\nc\n', 'a\n', '', 'b\na\n', 'ab', 'c\n\nab\n'],
         'file': ref.FILE_MODELS, 'dir': ref.DIR_MODELS}
TRAILERS = ['\n', '', '\n\n', '\ndef string ZZ = zz\n', '\n\n[cleanup]\n', '  \n']


def wrap(host, ctx, e, world):
    """-> (instruction, host of the root, root tree, root is a simple expression)"""
    if ctx == 'def':
        return 'def', host, e, False
    if host == 'im':
        if ctx in ('exit-code', 'exit-code-from'):
            return ctx, 'im', e, False
        if ctx == 'num-lines':
            return 'stdout', 'tm', ['num-lines', e], False
        if ctx == 'line-num':
            return 'stdout', 'tm', ['any-line', ['line-num', e]], False
        if ctx == 'num-files':
            return 'dir-contents', 'fsm', ['num-files', e], False
    if host == 'lm':
        if ctx == 'every-line':
            return 'stdout', 'tm', ['every-line', e], False
        if ctx == 'any-line':
            return 'contents', 'tm', ['any-line', e], False
        if ctx == 'filter':
            return 'file', 'tr', ['filter', e], True
        if ctx == 'replace-at':
            return 'file', 'tr', ['replace-at', e, 'a', 'X'], True
    if host == 'tm':
        if ctx in ('stdout', 'contents'):
            return ctx, 'tm', e, False
        if ctx == 'fm-contents':
            return 'exists', 'fm', ['contents', e], False
        if ctx == 'line-contents':
            return 'stdout', 'tm', ['any-line', ['contents', e]], False
        if ctx == 'transformed':
            return 'contents', 'tm', ['transformed', ['upper'] if world['k'] % 2 else ['identity'], e], False
    if host == 'fm':
        if ctx == 'exists':
            return 'exists', 'fm', e, False
        if ctx == 'every-file':
            return 'dir-contents', 'fsm', ['every-file', e], False
        if ctx == 'any-file':
            return 'dir-contents', 'fsm', ['any-file', e], False
        if ctx == 'selection':
            return 'dir-contents', 'fsm', ['selection', e, ['num-files', ['cmp', '==', world['k']]]], False
        if ctx == 'with-pruned':
            return 'dir-contents-r', 'fsm', ['pruned-r', e, ['num-files', ['cmp', '==', 4 + world['k'] % 2]]], False
    if host == 'fsm':
        if ctx == 'dir-contents':
            return 'dir-contents', 'fsm', e, False
        if ctx == 'fm-dir-contents':
            return 'exists', 'fm', ['dir-contents', e], False
        if ctx == 'selection-operand':
            return 'dir-contents', 'fsm', ['selection', ['name', '*.txt'] if world['k'] % 2 else ['type', 'dir'], e], False
        if ctx == 'pruned-operand':
            return 'dir-contents', 'fsm', ['pruned', ['const', True], e], False
    if host == 'tr':
        if ctx == 'file':
            return 'file', 'tr', e, True
        if ctx == 'tm-transformed':
            return 'contents', 'tm', ['transformed', e, ['run', 'Z', 0]], False
        if ctx == 'program-output':
            return 'stdout-from', 'tr', e, True
        # one transformer value applied to several models (every line / every file) - its value must be the same
        # function of the structure at every application
        per_model = ['transformed', e, ['matches', 'AbXa'[world['k'] % 4]]]
        if ctx == 'per-line':
            q = 'every-line' if world['k'] % 3 else 'any-line'
            return 'stdout', 'tm', [q, ['contents', per_model if world['k'] % 2 else ['not', per_model]]], False
        if ctx == 'per-file':
            q = 'every-file' if world['k'] % 3 else 'any-file'
            return 'dir-contents', 'fsm', ['selection', ['type', 'file'], [q, ['contents', per_model]]], False
    raise ValueError('%s/%s' % (host, ctx))


def _printf(text):
    return "printf '%s'" % text.replace('\n', '\\n')


class Plan:
    """everything derived from a case that does not need the program under test"""

    def __init__(self, case, expr_text_override=None, trailer=None, with_usage=True, analyse=False, layout=True):
        self.case = case
        world = dict(case['world'])
        host, ctx = case['host'], case['ctx']
        e = gen.number_run_leaves(case['expr'], host)
        self.instr, self.root_host, self.root, self.simple = wrap(host, ctx, e, world)
        tape = gen.Tape(case.get('lay'))
        self.feats = set()
        self.items = gen.render(self.root, self.root_host, self.simple, tape, self.feats)
        instr = self.instr
        # ---- the model and the tree whose value is the verdict
        self.eval_host, self.eval_tree = self.root_host, self.root
        # the item list the alternative readings are applied to (def line-matcher X is used as `every line : X`)
        self.eval_items, self.eval_simple = self.items, self.simple
        self.tail = ''
        if instr == 'stdout-from':  # stdout -from PROGRAM / -transformed-by E / TEXT-MATCHER, each on its own line
            z = ['run', 'Z', 0]
            self.eval_host, self.eval_tree = 'tm', ['transformed', self.root, z]
            self.eval_items, self.eval_simple = [['leaf', ['transformed', self.items, [['leaf', z]]]]], False
            self.tail = '\n' + ' '.join(gen._leaf_template('tm', z)[0])
        if instr == 'def':
            if host == 'lm':
                self.eval_host, self.eval_tree = 'tm', ['every-line', self.root]
                self.eval_items = [['leaf', ['every-line', [['(']] + self.items + [[')']]]]]
            use_instr = {'im': 'exit-code', 'lm': 'stdout', 'tm': 'stdout', 'fm': 'exists', 'fsm': 'dir-contents',
                         'tr': 'file'}[host]
        else:
            use_instr = instr
        self.use_instr = use_instr
        self.world = world
        self.exp = self.alts = None
        if analyse:
            self.exp = self.expected()
            self.alts = ref.alternative_readings(self.eval_items, self.eval_host, self.eval_simple, self.model(),
                                                 world, self.exp)
        # ---- text of the expression
        if not layout:
            return
        if expr_text_override is not None:
            self.expr_text, self.risky = expr_text_override, False
        else:
            tokens = gen.flatten(self.items, self.root_host)
            head_cls = 'I' if instr in ('file', 'stdout-from', 'dir-contents-r') else 'H'
            self.expr_text, self.risky = gen.layout(tokens, head_cls, instr == 'exit-code-from', tape, self.feats)
        # ---- the file
        ref_x = ['X', '@[X]@'][tape.next(2)] if instr == 'def' else None
        heads = {
            'exit-code': 'exit-code', 'exit-code-from': 'exit-code -from $ exit %d' % world['exit'],
            'stdout': 'stdout', 'contents': 'contents -rel-home f.txt :', 'exists': 'exists %s :' % world['file'],
            'dir-contents': 'dir-contents %s :' % world['dir'], 'dir-contents-r': 'dir-contents d : -recursive',
            'file': 'file out = -contents-of -rel-home f.txt -transformed-by',
            'stdout-from': 'stdout -from $ %s\n-transformed-by' % _printf(world['text']),
            'def': 'def %s X =' % TYPE_NAME[host],
        }
        trailer = TRAILERS[case.get('trailer', 0) % len(TRAILERS)] if trailer is None else trailer
        self.trailer, self.with_usage = trailer, with_usage
        main_line = heads[instr] + self.expr_text + self.tail
        needs_act = use_instr in ('exit-code', 'stdout')
        needs_tree = use_instr in ('exists', 'dir-contents', 'dir-contents-r')
        pre = []
        setup = (['copy d'] if needs_tree else []) + \
                ['def %s %s = %s' % (TYPE_NAME[h], name, text)
                 for name, h, text in gen.symbol_definitions(self.root, self.root_host)]
        if setup:
            pre += ['[setup]'] + setup
        if needs_act:
            pre += ['[act]', '$ %s; exit %d' % (_printf(world['text']), world['exit'])]
        self.keep = use_instr == 'file'
        if instr == 'def':
            usage = {'im': 'exit-code %s', 'lm': 'stdout every line : %s', 'tm': 'stdout %s',
                     'fm': 'exists ' + world['file'] + ' : %s', 'fsm': 'dir-contents ' + world['dir'] + ' : %s',
                     'tr': 'file out = -contents-of -rel-home f.txt -transformed-by %s'}[host] % ref_x
            if not with_usage:  # malformed definitions: the definition is the last thing in the file
                lines = pre + ['[setup]', main_line + trailer]
            elif host == 'tr':
                lines = pre + ['[setup]', main_line + '\n' + usage + trailer]
            else:  # the phases may come in any order, and more than once
                lines = pre + ['[assert]', usage, '[setup]', main_line + trailer]
        elif instr == 'file':
            lines = pre + ['[setup]', main_line + trailer]
        else:
            lines = pre + ['[assert]', main_line + trailer]
        self.text = '\n'.join(lines).replace('{C06LEAF}', C06LEAF)
        self.argv = (['--keep'] if self.keep else []) + ['t.case']

    def model(self):
        w = self.world
        return {'exit-code': w['exit'], 'exit-code-from': w['exit'], 'stdout': w['text'], 'contents': w['text'],
                'stdout-from': w['text'], 'dir-contents-r': ref.entries('d'),
                'file': w['text'], 'exists': w['file'], 'dir-contents': ref.entries(w['dir'])}[self.use_instr]

    def expected(self):
        return ref.outcome(self.eval_host, self.eval_tree, self.model(), self.world)

    def materialise(self, ws):
        ws.write('t.case', self.text)
        ws.write('f.txt', self.world['text'], subst=False)
        ws.write('d/a.txt', self.world['text'], subst=False)
        ws.write('d/b.txt', '', subst=False)
        ws.write('d/sub/c.txt', 'c\n', subst=False)
        os.makedirs(os.path.join(ws.home, 'd', 'emp'), exist_ok=True)


def _read_trace(ws):
    p = os.path.join(ws.obs, 'trace')
    if not os.path.exists(p):
        return []
    out = []
    with open(p) as f:
        for line in f:
            parts = line.rstrip('\n').split('\t')
            if len(parts) == 3:
                out.append([parts[0], bytes.fromhex(parts[1]).decode('utf-8', 'replace'),
                            bytes.fromhex(parts[2]).decode('utf-8', 'replace')])
    return out


def _trace_matches(expected, observed):
    if len(expected) != len(observed):
        return False
    for e, o in zip(expected, observed):
        if e[0] != o[0]:
            return False
        if e[1] == 'in' and e[2] != o[1]:
            return False
        if e[1] == 'arg' and e[2] != o[2]:
            return False
    return True


IDENT_OF = {'T': 'PASS', 'F': 'FAIL', 'H': 'HARD_ERROR', 'X': 'PASS'}
EXIT_OF = {'PASS': 0, 'FAIL': 32, 'HARD_ERROR': 128, 'SYNTAX_ERROR': 65}


def _observe(plan):
    with driver.Workspace() as ws:
        plan.materialise(ws)
        r = driver.run_inproc(ws, plan.argv)
        trace = _read_trace(ws)
        out_text = None
        if plan.keep:
            ident = r.first_err_line
            sds = r.out.strip()
            if sds and '\n' not in sds and os.path.isdir(sds):
                p = os.path.join(sds, 'act', 'out')
                if os.path.isfile(p):
                    with open(p, 'rb') as f:
                        out_text = f.read().decode('utf-8', 'replace')
        else:
            ident = r.out[:-1] if r.out.endswith('\n') and r.out.count('\n') == 1 else '<stdout: %r>' % r.out[:200]
    return r, ident, trace, out_text


def _as_if_and_were_close_paren(plan, observed):
    """defect model of KF-C06-1/2: the program behaves exactly as on the same file with the offending `&&`
    replaced by `)`.  -> that file's text if so, else None"""
    span = ref.and_after_or_on_new_line(plan.expr_text)
    if span is None:
        return None
    alt = plan.expr_text[:span[0]] + ')' + plan.expr_text[span[1]:]
    plan2 = Plan(dict(plan.case, world=plan.world, tune=False), expr_text_override=alt, trailer=plan.trailer,
                 with_usage=plan.with_usage)
    r2, ident2, trace2, out2 = _observe(plan2)
    if r2.exception or r2.timed_out:
        return None
    if (ident2, r2.exit_code, trace2, out2) == observed:
        return plan2.text
    return None


def _agrees(o, ident, exit_code, trace, out_text):
    if o['res'] == 'A' or IDENT_OF[o['res']] != ident or EXIT_OF[ident] != exit_code:
        return False
    if o['trace'] is not None and not _trace_matches(o['trace'], trace):
        return False
    return o['res'] != 'X' or out_text == o['text']


def _filter_window_model(plan, ident, exit_code, trace, out_text):
    """defect model of KF-C06-3: the observation is the reference outcome when the vulnerable `filter` leaves
    look at a sub-range of the line numbers only.  -> description of the range(s), or None"""
    import itertools
    leaves = ref.filters_with_negated_line_num_union(plan.eval_tree, plan.eval_host)[:2]
    if not leaves:
        return None
    ranges = [(1, 0)] + [(lo, hi) for lo in range(1, 7) for hi in range(lo, 7)]
    for combo in itertools.product(ranges, repeat=len(leaves)):
        o = ref.outcome(plan.eval_host, plan.eval_tree, plan.model(), plan.world,
                        windows={id(leaf): w for leaf, w in zip(leaves, combo)})
        if _agrees(o, ident, exit_code, trace, out_text):
            return ', '.join('none' if lo > hi else '%d..%d' % (lo, hi) for lo, hi in combo)
    return None


def _mixed_level(items, host):
    """a primitive with an unparenthesised nested operand directly followed by an infix operator of the outer level"""
    for i, it in enumerate(items):
        if it[0] != 'leaf':
            continue
        slots = ref.NESTED.get((host, it[1][0]), ())
        for idx, h in slots:
            if _mixed_level(it[1][idx], h):
                return True
        if slots and it[1][0] != 'replace-at':
            last = it[1][slots[-1][0]]
            if last and last[-1][0] != ')' and i + 1 < len(items) and items[i + 1][0] in ('&&', '||'):
                return True
    return False


def check(case, sampled=False) -> Verdict:
    plan = Plan(case, analyse=True)
    host, ctx = case['host'], case['ctx']
    exp, alts = plan.exp, plan.alts
    # self-check of the renderer: the documented reading of the item list is the tree (a harness error otherwise)
    back = ref.parse_items(plan.eval_items, plan.eval_host, 'doc', plan.eval_simple)
    if ref.outcome(plan.eval_host, back, plan.model(), plan.world) != exp:
        raise AssertionError('renderer/reference disagree on %r -> %r' % (plan.root, plan.items))
    discriminating = bool(alts)
    n_obs = plan.text.count(C06LEAF)
    labels = [] if sampled else ['host:' + host]
    labels += [('discriminating/%s:' % host if sampled else 'ctx:%s/%s:discriminating-' % (host, ctx))
               + ('yes' if discriminating else 'no'),
               'position:' + ('full' if ctx in FULL_CONTEXTS else 'simple'),
               'discriminating:' + ('yes' if discriminating else 'no'), 'expected:' + exp['res']]
    if n_obs:
        labels.append('observable-leaves:%d' % min(n_obs, 3))
    for word, name in (('-with-pruned', 'with-pruned'), ('-selection', 'selection'), ('-transformed-by', 'transformed-by')):
        if word in plan.expr_text:
            labels.append('uses:' + name)
    labels += ['wrong-reading-differs:' + a for a in alts]
    labels += sorted(plan.feats)
    if not any(f.startswith('lay:break') or f.startswith('lay:risky') or f == 'lay:blank-line' for f in plan.feats):
        labels.append('lay:single-line')
    if _mixed_level(plan.items, plan.root_host):
        labels.append('lay:mixed-level')
    if exp['res'] == 'H' or any(a in ('eager', 'rtl') for a in alts):
        labels.append('laziness-visible')
    if exp['trace'] is None and exp['res'] != 'A':
        labels.append('trace:undetermined')
    key = hashlib.sha1(repr((host, ctx, plan.expr_text, plan.model(), plan.world['text'])).encode()).hexdigest()[:16]

    r, ident, trace, out_text = _observe(plan)
    obs = {'exit': r.exit_code, 'identifier': ident, 'trace': trace, 'out_file': out_text, 'stderr': r.err[:700]}

    def bad(what, actual):
        d = {'what': what, 'case': case, 'expected': exp, 'observed': obs, 'tree': plan.root, 'risky_layout': plan.risky,
             'wrong_readings_that_differ': alts, 'case_text': plan.text, 'argv': plan.argv}
        return fail('%s/%s/%s->%s' % (what, host, exp['res'], actual), d, labels=labels,
                    nontrivial=discriminating, key=key)

    if r.exception or r.timed_out:
        return bad('escaped-exception-or-timeout', 'exception')
    if ident == 'SYNTAX_ERROR' and r.exit_code == 65 and not trace and not plan.risky:
        kf = _as_if_and_were_close_paren(plan, (ident, r.exit_code, trace, out_text))
        if kf:
            return Verdict(ok=False, known='KF-C06-1', bucket='known/KF-C06-1', labels=labels + ['known:KF-C06-1'],
                           detail={'what': 'a permitted layout is rejected: inside parentheses an `&&` at the start '
                                           'of a line after an `||` is taken in place of the `)`',
                                   'expected': exp, 'observed': obs, 'case_text': plan.text,
                                   'same_outcome_as_text': kf})
    if ident == 'SYNTAX_ERROR' and plan.risky:
        if r.exit_code != 65 or trace:
            return bad('rejected-layout-but-executed', ident)
        return Verdict(True, nontrivial=False, key=key, labels=labels + ['risky-layout:rejected'])
    if plan.risky:
        labels.append('risky-layout:accepted')
    if exp['res'] != 'A' and not _agrees(exp, ident, r.exit_code, trace, out_text):
        window = _filter_window_model(plan, ident, r.exit_code, trace, out_text)
        if window:
            return Verdict(ok=False, known='KF-C06-3', bucket='known/KF-C06-3', labels=labels + ['known:KF-C06-3'],
                           detail={'what': '`filter` with a `!` above a `line-num` whose integer matcher contains '
                                           '`||` looks at too few lines (the finding of property C13): the outcome '
                                           'is the reference outcome with that filter restricted to the line '
                                           'numbers ' + window,
                                   'expected': exp, 'observed': obs, 'case_text': plan.text})
    if exp['res'] == 'A':
        if ident not in ('PASS', 'FAIL', 'HARD_ERROR') or r.exit_code != EXIT_OF[ident]:
            return bad('not-a-verdict', ident)
        return Verdict(True, nontrivial=False, key=key, labels=labels + ['outcome:ambiguous'])
    want = IDENT_OF[exp['res']]
    if ident != want:
        return bad('value', ident)
    if r.exit_code != EXIT_OF[want]:
        return bad('exit-code', str(r.exit_code))
    if exp['trace'] is not None and not _trace_matches(exp['trace'], trace):
        return bad('trace', 'trace')
    if exp['res'] == 'X' and out_text != exp['text']:
        return bad('transformer-output', 'text')
    return Verdict(True, nontrivial=discriminating, key=key, labels=labels)


# ---- malformed expressions ------------------------------------------------------------------------------------------
def _check_syntax_error(plan, labels, key, extra):
    r, ident, trace, out_text = _observe(plan)
    obs = {'exit': r.exit_code, 'identifier': ident, 'trace': trace, 'stderr': r.err[:700]}
    if r.exception or r.timed_out:
        actual = 'exception'
    elif ident == 'SYNTAX_ERROR' and r.exit_code == 65 and not trace:
        return Verdict(True, nontrivial=True, key=key, labels=labels)
    else:
        actual = ident if ident in EXIT_OF or ident in driver.EXIT_IDENTIFIERS else 'other'
        kf = _as_if_and_were_close_paren(plan, (ident, r.exit_code, trace, out_text))
        if kf:
            return Verdict(ok=False, known='KF-C06-2', bucket='known/KF-C06-2', labels=labels + ['known:KF-C06-2'],
                           detail={'what': 'malformed expression accepted: inside parentheses an `&&` at the start '
                                           'of a line after an `||` is taken in place of the `)`',
                                   'observed': obs, 'case_text': plan.text, 'same_outcome_as_text': kf})
    d = {'what': 'malformed expression not reported as SYNTAX_ERROR', 'observed': obs, 'case_text': plan.text,
         'argv': plan.argv}
    d.update(extra)
    return fail('malformed/%s/%s->%s' % ((extra.get('mutation') or extra.get('shape')).replace(' ', '_'),
                                         plan.case['host'], actual), d,
                labels=labels, nontrivial=True, key=key)


def check_malformed(case) -> Verdict:
    base = Plan(case, expr_text_override='')
    tape = gen.Tape(case.get('lay'))
    muts = gen.applicable_mutations(base.items, base.root_host)
    mut = muts[case['mutation'] % len(muts)]
    text = gen.malform(base.items, base.root_host, mut, tape)
    labels = ['host:' + case['host'], 'ctx:%s/%s' % (case['host'], case['ctx']), 'mutation:' + mut]
    if base.instr == 'exit-code-from':
        text = '\n' + text.lstrip(' ')
    trailer = ['', '\n', '\n\n'][case.get('trailer', 0) % 3]
    plan = Plan(case, expr_text_override=text, trailer=trailer, with_usage=False)
    key = hashlib.sha1(repr((case['host'], case['ctx'], text)).encode()).hexdigest()[:16]
    return _check_syntax_error(plan, labels, key, {'mutation': mut, 'expression': text, 'valid_tree': base.root})


_AB = {'im': ('== 0', '!= 1'), 'lm': ('constant true', 'line-num == 1'), 'tm': ('is-empty', 'matches a'),
       'fm': ('type dir', 'name a*'), 'fsm': ('is-empty', 'num-files == 1'),
       'tr': ('identity', 'char-case -to-upper')}
_SHAPES = ['A OP', 'A OP OP B', 'A OP OTHER B', 'OP A', 'OP', '( A', 'A )', '( )', '(A )', '( A)', '(A)', '( A OP )',
           '( OP A )', 'A OP ( B', 'A OP ( )', 'A OP B )', '( A ) )', '( ( A )', 'A OP ) B', 'A ( B )', '( A ) ( B )',
           'A OP !', '!', '( ! )', '! OP A', '! ! OP A', '( A OP B', '( A OP B ) OP', 'A OP ( B OP )',
           '( A || B NL &&', '( ( A || B NL && )', '( A || B NL && NL', '( A && B NL ||', '( A && B NL || )',
           '( A || B NL ||', '( A && B NL &&',
           # `#` = the operator with one character too few, `##` = one too many - at the first and at later positions
           'A # B', 'A OP B # A', 'A OP B # A OP B', '( A OP B NL # A )', 'A OP ( B # A )', 'A ## B', 'A OP B ## A',
           # a quoted token is a string, never a parenthesis or an operator
           "'(' A )", '"(" A OP B )', "( A ')'", "A 'OP' B", "( '(' A ) )", "A OP '(' B )"]
_FIXED_CTX = {'im': ['def', 'exit-code', 'num-lines'], 'lm': ['def', 'every-line', 'filter'],
              'tm': ['def', 'stdout', 'contents', 'fm-contents'], 'fm': ['def', 'exists', 'every-file'],
              'fsm': ['def', 'dir-contents', 'fm-dir-contents'], 'tr': ['def', 'file', 'tm-transformed']}


def enum_malformed(tier):
    world = {'exit': 0, 'text': 'a\n', 'file': 'd', 'dir': 'd', 'k': 0}
    for host in ref.HOSTS:
        a, b = _AB[host]
        ops = ['|'] if host == 'tr' else ['&&', '||']
        for ctx in _FIXED_CTX[host]:
            full = ctx in FULL_CONTEXTS
            for shape in _SHAPES:
                if host == 'tr' and ('!' in shape or '&&' in shape or '||' in shape or
                                     ('#' in shape and '##' not in shape)):
                    continue
                for op in ops:
                    other = ops[-1] if op == ops[0] else ops[0]
                    if ('OTHER' in shape and other == op) or ('OP' not in shape and op != ops[0]):
                        continue
                    s = shape.replace('OTHER', other).replace('OP', op).replace('A', a).replace('B', b).replace('NL', '\n')
                    s = s.replace('##', op + op[0]).replace('#', op[0])
                    if not full:
                        s = '( ' + s + ' )'  # a compound operand of a simple position is parenthesised
                    for trailer in (0, 1):
                        yield {'host': host, 'ctx': ctx, 'shape': shape, 'op': op, 'text': s, 'world': world,
                               'trailer': trailer}
    # a simple position followed by an infix operator that no outer level can take
    for trailer in (0, 1):
        yield {'host': 'tr', 'ctx': 'file', 'shape': 'A OP B (simple position)', 'op': '|',
               'text': 'identity | char-case -to-upper', 'world': world, 'trailer': trailer}
        yield {'host': 'tr', 'ctx': 'tm-transformed', 'shape': 'A OP B (simple position)', 'op': '|',
               'text': 'identity | char-case -to-upper', 'world': world, 'trailer': trailer}


def check_malformed_fixed(case) -> Verdict:
    host, ctx = case['host'], case['ctx']
    # the shape replaces the operand E of the context: render the context around a marker leaf
    marker = {'im': ['cmp', '==', 77], 'lm': ['line-num', ['cmp', '==', 77]], 'tm': ['matches', 'MARKER'],
              'fm': ['name', 'MARKER'], 'fsm': ['num-files', ['cmp', '==', 77]], 'tr': ['replace', 'MARKER', 'x']}[host]
    marker_text = {'im': '== 77', 'lm': 'line-num == 77', 'tm': 'matches MARKER', 'fm': 'name MARKER',
                   'fsm': 'num-files == 77', 'tr': 'replace MARKER x'}[host]
    c = {'host': host, 'ctx': ctx, 'expr': marker, 'world': case['world'], 'trailer': 0}
    base = Plan(c, expr_text_override='')
    text = gen.plain_layout(gen.flatten(base.items, base.root_host))
    if marker_text not in text:
        raise AssertionError('marker lost: %r' % text)
    text = text.replace(marker_text, case['text'])
    plan = Plan(c, expr_text_override=text, trailer=['', '\n'][case['trailer']], with_usage=False)
    labels = ['host:' + host, 'ctx:%s/%s' % (host, ctx), 'shape:' + case['shape']]
    key = '%s|%s|%s|%d' % (host, ctx, case['text'], case['trailer'])
    return _check_syntax_error(plan, labels, key, {'shape': case['shape'], 'expression': text})


# ---- strategies ---------------------------------------------------------------------------------------------------------
_NEG = {'==': '!=', '!=': '==', '<': '>=', '>=': '<', '<=': '>', '>': '<='}
_FIELD = {'exit-code': 'exit', 'exit-code-from': 'exit', 'stdout': 'text', 'contents': 'text', 'file': 'text',
          'stdout-from': 'text', 'dir-contents-r': 'text',
          'exists': 'file', 'dir-contents': 'dir'}


def _steerable_leaves(expr, host):
    """paths of the constant / comparison leaves (their value can be inverted without changing the structure)"""
    paths = []

    def walk(t, h, path):
        op = t[0]
        if op == 'not':
            walk(t[1], h, path + [1])
        elif op in ('and', 'or', 'pipe'):
            walk(t[1], h, path + [1])
            walk(t[2], h, path + [2])
        elif op == 'sym':
            walk(t[2], h, path + [2])
        else:
            if op in ('const', 'cmp'):
                paths.append(path)
            for idx, hh in ref.NESTED.get((h, op), ()):
                walk(t[idx], hh, path + [idx])

    walk(expr, host, [])
    return paths


def _flipped(t, path):
    if not path:
        return ['const', not t[1]] if t[0] == 'const' else ['cmp', _NEG[t[1]], t[2]]
    out = list(t)
    out[path[0]] = _flipped(t[path[0]], path[1:])
    return out


def _tune(case):
    """Input selection, applied while generating (the case that is stored and replayed is the tuned one): if no
    wrong reading of the drawn expression is observable in the drawn world, try a few assignments of inverted
    constant/comparison leaves and a few other worlds, and take the first variant in which one is."""
    if not case.get('tune'):
        return case
    case = dict(case, tune=False)
    p = Plan(case, analyse=True, layout=False)
    if p.alts:
        return case
    field = _FIELD[p.use_instr]
    world = case['world']
    cands = []
    paths = _steerable_leaves(case['expr'], case['host'])
    if paths:
        rng = random.Random(case['lay']['seed'] * 31 + 7)
        for _ in range(8):
            e = case['expr']
            for pth in paths:
                if rng.random() < 0.5:
                    e = _flipped(e, pth)
            cands.append(dict(case, expr=e))
    cands += [dict(case, world=dict(world, **{field: v})) for v in _TUNE[field] if v != world[field]]
    for c in cands:
        if Plan(c, analyse=True, layout=False).alts:
            return c
    return case


def _from_seed(d):
    """the main source of cases: tree and world from a seed (see vlib/gen/c06_gen.py); the stored case is explicit"""
    rng = random.Random(d.pop('tseed'))
    d['expr'] = gen.random_expr(rng, d['host'], d.pop('depth'), root=True)
    d['world'] = gen.random_world(rng)
    return d


def _cases(tier, hosts, with_mutation=False):
    depth = 3 if tier == 'quick' else 4

    def for_host(host):
        ctxs = CONTEXTS[host]
        if with_mutation:
            ctxs = [c for c in ctxs if c not in ('def', 'program-output')]
        common = {'host': st.just(host), 'ctx': st.sampled_from(ctxs), 'lay': gen.tapes(),
                  'trailer': st.integers(0, len(TRAILERS) - 1)}
        if with_mutation:
            common['mutation'] = st.integers(0, 59)
            depths = [1, 2, 2, 3]
        else:
            common['tune'] = st.sampled_from([True, True, True, False])
            depths = [depth - 1, depth, depth]
        seeded = st.fixed_dictionaries(dict(common, tseed=st.integers(0, 2 ** 31 - 1),
                                            depth=st.sampled_from(depths))).map(_from_seed)
        drawn = st.fixed_dictionaries(dict(common, expr=gen.root_expr(host, 2 if with_mutation else depth),
                                           world=gen.worlds()))
        both = st.one_of(seeded, seeded, seeded, seeded, drawn)
        return both if with_mutation else both.map(_tune)

    return st.one_of([for_host(h) for h in hosts])


def sampled_cases(tier):
    """uniform, duplicate-free sampling (Hypothesis repeats seeds and sub-structures a lot): light-weight cases
    that `expand_sample` turns into full ones - a pure function of (VERIF_SEED, index, tier)"""
    vseed = int(os.environ.get('VERIF_SEED', '1') or '1')
    scale = float(os.environ.get('VERIF_SCALE', '1'))
    n = max(12, int({'quick': 5400, 'thorough': 180000}[tier] * scale))
    for i in range(n):
        yield {'sample': i, 'vseed': vseed, 'depth': 3 if tier == 'quick' else 4}


def expand_sample(light):
    rng = random.Random(light['vseed'] * 1000003 + light['sample'])
    host = ref.HOSTS[light['sample'] % len(ref.HOSTS)]
    depth = light['depth']
    d = {'host': host, 'ctx': rng.choice(CONTEXTS[host]),
         'lay': {'seed': rng.randrange(2 ** 31), 'density': rng.choice([0, 1, 2, 2, 3, 3])},
         'trailer': rng.randrange(len(TRAILERS)), 'tune': rng.random() < 0.75,
         'tseed': rng.randrange(2 ** 31), 'depth': rng.choice([depth - 1, depth, depth])}
    return _tune(_from_seed(d))


def check_sampled(light) -> Verdict:
    return check(expand_sample(light), sampled=True)


def render_case(case):
    try:
        if 'sample' in case:
            case = expand_sample(case)
        p = Plan(case, analyse=True)
        return {'host': case['host'], 'ctx': case['ctx'], 'case_text': p.text, 'expected': p.exp}
    except Exception:
        return case


def _matcher_sub(host, quick, thorough):
    return Sub('matchers_' + host, check, strategy=lambda tier: _cases(tier, (host,)),
               budget={'quick': quick, 'thorough': thorough}, render=render_case)


SUBS = [
    Sub('malformed_table', check_malformed_fixed, enumerate=enum_malformed, exhaustive=True),
    Sub('sampled', check_sampled, enumerate=sampled_cases, render=render_case),
    _matcher_sub('im', 300, 15000),
    _matcher_sub('lm', 350, 15000),
    _matcher_sub('tm', 400, 20000),
    _matcher_sub('fm', 400, 20000),
    _matcher_sub('fsm', 350, 15000),
    Sub('transformers', check, strategy=lambda tier: _cases(tier, ('tr',)),
        budget={'quick': 350, 'thorough': 15000}, render=render_case),
    Sub('malformed', check_malformed, strategy=lambda tier: _cases(tier, ref.HOSTS, with_mutation=True),
        budget={'quick': 1000, 'thorough': 30000}),
]
