"""C07 - Test-case file structure: phases, merging, inclusion, source locations.

Layers
  api_*   documents (with inclusion graphs) are parsed through the public
          `exactly_lib.processing.parse.test_case_parser.new_parser(<production setup>)` and compared with the
          independent reader `vlib/ref/c07_document.py` (written from the manual): per phase the sequence of
          instructions with first line number, source lines, file, inclusion chain and description; for
          erroneous documents the error kind and its location.
          Independent of any reading (so also for documents without a single documented reading): every element
          (instruction, comment, blank, act source) carries the text of the lines of the file it says it comes from.
  cli_*   the `file, line N / source` chain that `exactly FILE` prints for syntax errors, inclusion errors (missing
          file, directory, direct / indirect cycle, cycle through a symbolic link or an absolute path) and failing
          instructions, one `file, line` block per including file; the metamorphic relation "permuting phase blocks
          changes nothing"; and for passing documents the marker trace = the reading of the reference reader (each
          phase runs exactly its instructions, merged in file order, inclusions spliced in place).

Known finding KF-C07-1 (defect model = `ref.read_document(..., swallow=True)`): an instruction whose mandatory last
argument is missing on its line - the name alone for file / dir / cd / exists / copy / run, or `... =` for def / file /
env / timeout / stdin - takes the next non-blank line as that argument also when this line is a header line
(`[NAME]`, `[NAME`, ... as a single token; for `copy` also two tokens, for `run` any number: `[setup] x`; valid,
unknown or malformed header alike; never a line with a reserved word such as a lone `[` or `]`), and so does a pending list
continuation (`def list L = a \\`) directly followed by a header line.  The header is swallowed: no phase switch,
no unknown / malformed header error, the lines after it are read in the old phase.  A mismatch is reported as
KF-C07-1 only if the observation equals that reading of this very document: API - same elements (count, file, line,
source lines incl. the swallowed header, chain) or the error that reading gives (kind, chain, file, line, text;
where that reading reaches a place with no single documented reading: an error located at or after that place, or
a document whose phases start with the elements read up to there); CLI - `PASS` for the instructions that can take
any string (dir file def env), HARD_ERROR / VALIDATION_ERROR / FAIL located at the swallowing instruction (all of its
lines, chain printed) for cd / run copy timeout / exists, or the SYNTAX_ERROR / FILE_ACCESS_ERROR (identifier, exit
code, printed location) that the reading with the swallowed header gives.  Anything else stays a violation.
"""
import json
import os
import posixpath
import re
import shutil
import signal

from vlib import driver, fuzz
from vlib.gen import c07_docs as gen
from vlib.ref import c07_document as ref
from vlib.runner import Sub, Verdict, fail

PROPERTY_ID = 'C07'
LEVEL = 'exploration'
RULE = ('documents are generated as sequences over the alphabet of line kinds of the property (phase headers with '
        'blanks, unknown/malformed headers, comments, blanks, one-line / here-document / parenthesised / continued '
        'instructions, descriptions on the same line, on previous lines and over several lines, act source lines, '
        'escaped act lines, `including` directives, incomplete instructions followed by header/blank/comment/EOF; '
        'multi-line instructions: here-documents whose bodies look like headers/comments/directives, parentheses, '
        'braces (FILES-SOURCE/FILES-CONDITION), operator and list continuation, STDIN of a program on its own line) '
        'with recursively generated included files in sub-directories (depth <= 3 quick / 5 thorough; relative, '
        '`./`, `../`, absolute paths, symbolic links, odd file names), diamonds, cycles, self inclusion, '
        'missing files and directories; the root file in the cwd or a sub-directory, given by relative or absolute '
        'path; a small alphabet is enumerated exhaustively up to a length bound; CLI cases '
        'are executable documents (sh source actor, marker files) with one planted failing element (failing / '
        'invalid instruction - one-line, multi-line, described -, unknown / malformed header, unknown instruction, '
        'unterminated here-document, incomplete instruction before a header, inclusion of a missing file, of a '
        'directory, cyclic inclusion - direct, indirect, through a symbolic link, by absolute path - at any '
        'inclusion depth) or a random '
        'order preserving permutation of the phase blocks of every file.  A case is non-trivial when the reference '
        'reader sees >= 2 phases with contents and at least one of: repeated phase, inclusion, multi-line element, '
        'description, escaped act line (API layer), every CLI case is non-trivial; distinct = distinct file set')
ASSUMPTIONS = [
    'how many lines an instruction spans is decided by a small model of the generated instruction sub-language '
    '(here-documents, parentheses, braces with one file per line, trailing operator / list continuation, `-stdin` '
    'on the line after a program, `$` takes the line) - not by a general '
    'instruction parser; the generators only emit instructions of that sub-language',
    'the manual does not say which of several errors of a document is reported ("Fails if a syntax error is found, '
    'or if a directive fails"): any one of the errors the reference reader finds - the first in reading order, or a '
    'later one (rest of the erroneous phase block skipped) - is accepted, with its own kind, file, line, source '
    'and inclusion chain (ACCEPT_LATER_ERRORS = True; the unchanged tree always reports the first one, demanding '
    'that would be an implementation detail); an error-free reading is never accepted for a document with an error',
    'the source of an instruction with a description on the same line may be reported with or without the '
    'description part of the line; an error in a described instruction may be located at any line from the '
    'description to the first line of the instruction; description texts are compared modulo white space',
    'a line with only blanks before `[` is a header line (help act: escapes exist for "contents that would otherwise '
    'be treated as phase headers ... at the first non-space characters of a line"); `[ setup ]` is not generated '
    '(manual silent on blanks inside the brackets)',
    'an incomplete instruction (mandatory argument / value after `=` missing on its line) is an error for certain only '
    'when, after blank lines, a header line or the end of the file follows; followed by any other line - also one with '
    'comment syntax, since "lines with comment line syntax may be part of instructions" and "some instructions may '
    'span multiple lines ... the syntax is not always consistent" - the document has no single reading from there on: '
    'then only the contents that precede that place are compared (they must be a prefix of every observed phase), and '
    'any reported error is accepted',
    'an absolute path in a case is written {HOME}/...; a file reached through an absolute path may be displayed with '
    'its absolute path',
    'the act phase is compared line by line (file, number, un-escaped text), not by element: how the lines are '
    'grouped into elements is not observable through the manual',
    'exactly one failing element is planted in a CLI document, so that "which failure is reported" is unambiguous',
    'where a document has no single documented reading from some place on, an error reported for it must be located '
    'at or after that place (reading order: the line numbers of the including directives, then the line in the file)',
    'the marker trace of a passing generated document is derived from the reference reading: phases in execution '
    'order (setup act before-assert assert cleanup), within a phase the `$ echo TAG` / `$ cat HERE-DOC-FILE` '
    'instructions in reading order; the act phase is a sh script that echoes tags until an `exit N` line',
    'instruction table per phase transcribed from `exactly help instructions` (sub-check manual_agrees)',
]

KF_SWALLOW = 'KF-C07-1'
ACCEPT_LATER_ERRORS = True
API_ALARM_S = 30.0  # a parse takes ~1 ms; the alarm only keeps the harness alive (-> inconclusive)
ROOT = 't.case'


# ---- observation through the public parser ------------------------------------------------
def _make_parser():
    from exactly_lib.cli_default.program_modes.test_case import default_instructions_setup
    from exactly_lib.common import instruction_name_and_argument_splitter
    from exactly_lib.processing.instruction_setup import TestCaseParsingSetup
    from exactly_lib.processing.parse import test_case_parser
    from exactly_lib.processing.parse.act_phase_source_parser import ActPhaseParser
    return test_case_parser.new_parser(
        TestCaseParsingSetup(instruction_name_and_argument_splitter.splitter,
                             default_instructions_setup.INSTRUCTIONS_SETUP,
                             ActPhaseParser()))


def _rel(home, p):
    return posixpath.normpath(os.path.relpath(os.path.normpath(p), home))


def _unhome(home, lines):
    """source lines as they are in the case (absolute paths of the work dir are `{HOME}` in a case)"""
    return [x.replace(home, '{HOME}') for x in lines]


def _location_path(home, base_dir, links):
    """links: SourceLocation sequence (paths relative to the referrer) -> [(file rel home, line, [lines])]"""
    out = []
    base = base_dir
    for link in links:
        if link.file_path_rel_referrer is None:
            out.append((None, link.source.first_line_number, _unhome(home, link.source.lines)))
            continue
        p = os.path.join(base, str(link.file_path_rel_referrer))
        src = link.source
        out.append((_rel(home, p), None if src is None else src.first_line_number,
                    None if src is None else _unhome(home, src.lines)))
        base = os.path.dirname(p)
    return out


def observe_api(home, root=ROOT, root_abs=False):
    """-> {'phases': {...}} or {'error': {...}}; the process cwd is restored.
    root_abs: the test case file is given by its absolute path"""
    driver._import_exactly()
    import pathlib
    from exactly_lib.processing.test_case_processing import test_case_reference_of_source_file
    from exactly_lib.section_document import exceptions
    from exactly_lib.section_document.model import ElementType
    from exactly_lib.section_document.parse_source import ParseSource
    saved = os.getcwd()
    os.chdir(home)
    try:
        path = pathlib.Path(os.path.join(home, root) if root_abs else root)
        with open(root, encoding='utf-8') as f:
            text = f.read()
        old_handler = signal.signal(signal.SIGALRM, driver._alarm_handler)
        signal.setitimer(signal.ITIMER_REAL, API_ALARM_S)
        try:
            try:
                tc = _make_parser().apply(test_case_reference_of_source_file(path), ParseSource(text))
            finally:
                signal.setitimer(signal.ITIMER_REAL, 0)
                signal.signal(signal.SIGALRM, old_handler)
        except driver.CaseTimeout:
            return {'timeout': True}
        except exceptions.FileSourceError as ex:
            loc = _location_path(home, home, ex.location_path)
            return {'error': {'kind': 'syntax', 'msg': ex.message, 'section': ex.maybe_section_name,
                              'chain': loc[:-1], 'file': loc[-1][0], 'line': loc[-1][1], 'lines': loc[-1][2],
                              'source': [ex.source.first_line_number, _unhome(home, ex.source.lines)]}}
        except exceptions.FileAccessError as ex:
            loc = _location_path(home, home, ex.location_path)
            return {'error': {'kind': 'access', 'msg': ex.message.replace(home, '{HOME}'),
                              'section': ex.maybe_section_name, 'chain': loc[:-1],
                              'file': loc[-1][0], 'line': loc[-1][1], 'lines': loc[-1][2],
                              'erroneous_path': str(ex.erroneous_path).replace(home, '{HOME}')}}
        except Exception as ex:  # anything else escaping the parser (RecursionError of an undetected cycle ...)
            import traceback
            return {'crash': '%s: %s' % (type(ex).__name__, str(ex)[:300]),
                    'traceback': traceback.format_exc(limit=4)[-1200:]}
        phases = {}
        everything = []
        for name, contents in zip(ref.PHASES, tc):
            els = []
            for e in contents.elements:
                sli = e.source_location_info
                loc = _location_path(home, str(sli.abs_path_of_dir_containing_first_file_path),
                                     list(sli.file_inclusion_chain) + [sli.source_location_path.location])
                src = e.source
                everything.append({'phase': name, 'type': e.element_type.name, 'file': loc[-1][0],
                                   'line': src.first_line_number, 'lines': _unhome(home, src.lines),
                                   'chain': [[c[0], c[1]] for c in loc[:-1]]})
                if e.element_type is not ElementType.INSTRUCTION:
                    continue  # the property: comments and blank lines between elements are ignored
                els.append({'file': loc[-1][0], 'line': src.first_line_number, 'lines': _unhome(home, src.lines),
                            'desc': e.instruction_info.description,
                            'chain': [list(c) for c in loc[:-1]]})
            phases[name] = els
        # act phase: what the actor gets is the source_code() of the act instructions
        act_code = []
        for e in tc.act_phase.elements:
            if e.element_type is ElementType.INSTRUCTION:
                ls = e.instruction_info.instruction.source_code()
                act_code.append([ls.first_line_number, _unhome(home, ls.lines)])
        return {'phases': phases, 'act_code': act_code, 'everything': everything}
    finally:
        os.chdir(saved)


# ---- comparison -------------------------------------------------------------------------
def _ws_norm(s):
    return None if s is None else ' '.join(s.split())


def _chain_of(links):
    """observed chain [(file, line, [lines])] -> [(file, line, text)]"""
    return [[c[0], c[1], '\n'.join(c[2]) if c[2] is not None else None] for c in links]


def _flatten_act(elements):
    out = []
    for e in elements:
        for k, text in enumerate(e['lines']):
            out.append({'file': e['file'], 'line': e['line'] + k, 'text': text, 'chain': _chain_of(e['chain'])})
    return out


def compare_phases(exp_phases, obs, prefix=False):
    """-> None or (bucket, detail);  prefix: the expected contents are what precedes a place from which on the
    document has no single reading - the observed contents of every phase must start with them"""
    obs_phases = obs['phases']
    for ph in ref.PHASES:
        if ph == 'act':
            e_act = exp_phases['act']
            o_act = _flatten_act(obs_phases['act'])
            if prefix:
                o_act = o_act[:len(e_act)]
                obs = dict(obs)
                obs['act_code'] = None
            if e_act != o_act:
                k = 0
                while k < min(len(e_act), len(o_act)) and e_act[k] == o_act[k]:
                    k += 1
                return ('act-lines', {'phase': 'act', 'first_difference_at': k,
                                      'expected': e_act[k:k + 3], 'observed': o_act[k:k + 3],
                                      'n_expected': len(e_act), 'n_observed': len(o_act)})
            # the code handed to the actor is the same text
            code = [t for _, ls in obs['act_code'] or [] for t in ls]
            if obs['act_code'] is not None and code != [x['text'] for x in e_act]:
                return ('act-source-code', {'expected': [x['text'] for x in e_act], 'observed': code})
            continue
        e_els, o_els = exp_phases[ph], obs_phases[ph]
        for k in range(max(len(e_els), len(o_els))):
            if k >= len(e_els):
                if prefix:
                    break
                return ('extra-instruction', {'phase': ph, 'index': k, 'observed': o_els[k]})
            if k >= len(o_els):
                return ('missing-instruction', {'phase': ph, 'index': k, 'expected': e_els[k]})
            e, o = e_els[k], o_els[k]
            what = None
            if e['file'] != o['file']:
                what = 'file'
            elif e['chain'] != _chain_of(o['chain']):
                what = 'inclusion-chain'
            elif e['line'] != o['line']:
                what = 'line-number'
            elif _ws_norm(e['desc']) != _ws_norm(o['desc']):
                what = 'description'
            else:
                first_ok = o['lines'][:1] in ([e['lines'][0]], [e['full_first_line']],
                                              [e['full_first_line'].lstrip(' \t')])
                if not first_ok or e['lines'][1:] != o['lines'][1:]:
                    what = 'source-text'
            if what:
                return ('instruction-' + what, {'phase': ph, 'index': k, 'expected': e, 'observed': o})
    return None


def compare_error(exp_err, obs_err, files, links=None):
    """-> None or (bucket, detail)"""
    d = {'expected': exp_err, 'observed': obs_err}
    if exp_err['kind'] != obs_err['kind']:
        return ('error-kind/%s/%s' % (exp_err['what'], obs_err['kind']), d)
    if exp_err['chain'] != _chain_of(obs_err['chain']):
        return ('error-inclusion-chain/%s' % exp_err['what'], d)
    if exp_err['file'] != obs_err['file']:
        return ('error-file/%s' % exp_err['what'], d)
    if obs_err['line'] is None or not (exp_err['lo'] <= obs_err['line'] <= exp_err['hi']):
        return ('error-line-number/%s' % exp_err['what'], d)
    # the reported text is the text of the lines it claims to come from
    actual = ref.split_lines(files[(links or {}).get(obs_err['file'], obs_err['file'])])
    rep = obs_err['lines'] or []
    at = obs_err['line'] - 1
    for k, t in enumerate(rep):
        a = actual[at + k] if at + k < len(actual) else None
        ok = a is not None and (t == a if k == 0 and len(rep) == 1 else
                                (a == t or a.endswith(t)) if k == 0 else a.startswith(t.rstrip()))
        if not ok:
            d['actual_line'] = a
            return ('error-source-text/%s' % exp_err['what'], d)
    return None


def check_sources_are_file_text(obs, files, links=None):
    """Needs no reading of the document: whatever elements the parser makes (instructions, comments, blank lines,
    act source), each one says where it comes from - the text it carries must be the text of those lines of that
    file (the first line of an instruction without indentation / description; act lines un-escaped), and the
    elements that one file contributes to one phase at one place of inclusion follow each other without overlap.
    -> None or (bucket, detail)"""
    last_end = {}
    for e in obs['everything']:
        real = (links or {}).get(e['file'], e['file'])
        text = files.get(real)
        if text is None:
            return ('element-file-does-not-exist', {'element': e})
        actual = ref.split_lines(text)
        at = e['line'] - 1
        n = len(e['lines'])
        if n and e['lines'][-1] == '' and at + n == len(actual) + 1:
            n -= 1  # (the empty "line" after the final newline of a file)
        if at < 0 or n < 1 or at + n > len(actual):
            return ('element-lines-outside-file', {'element': e, 'lines_in_file': len(actual)})
        for k in range(n):
            a, t = actual[at + k], e['lines'][k]
            if e['phase'] == 'act':
                ok = ref.un_escape(a) == t
            elif k == 0 and e['type'] == 'INSTRUCTION':
                cut = a[:len(a) - len(t)]
                ok = a.endswith(t) and (cut.strip(' \t') == '' or cut.lstrip(' \t').startswith('`'))
            else:
                ok = a == t
            if not ok:
                return ('element-source-is-not-file-text', {'element': e, 'line_index': k, 'text_in_file': a})
        place = (e['phase'], e['file'], json.dumps(e['chain']))
        if at < last_end.get(place, 0):
            return ('element-overlaps-previous-one', {'element': e, 'previous_element_ends_at_line': last_end[place]})
        last_end[place] = at + n
    return None


def _is_nontrivial(r):
    used = [p for p in ref.PHASES if r.phases[p]]
    feats = {'repeated-phase', 'inclusion', 'multi-line-element', 'description-on-same-line',
             'description-on-previous-line', 'description-multi-line', 'act-escaped'}
    return len(used) >= 2 and bool(feats & r.labels)


def _labels_of(r):
    labels = sorted(r.labels)
    labels.append('incl-depth:%d' % r.max_depth)
    labels.append('phases-with-contents:%d' % len([p for p in ref.PHASES if r.phases[p]]))
    labels.append('outcome:' + ('error:' + r.error['kind'] if r.error else
                                'no-single-reading' if r.ambiguous else 'document'))
    return labels


def _root_label(case):
    return 'root:' + ('in-cwd' if '/' not in case.get('root', ROOT) else 'in-sub-dir') + \
        (',absolute-path' if case.get('root_abs') else '')


def _root_arg(ws, case):
    root = case.get('root', ROOT)
    return os.path.join(ws.home, root) if case.get('root_abs') else root


def check_api(case) -> Verdict:
    files = case['files']
    links = case.get('symlinks')
    root = case.get('root', ROOT)
    r = ref.read_document(files, root, symlinks=links)
    labels = _labels_of(r) + [_root_label(case)]
    nontrivial = _is_nontrivial(r) and not r.ambiguous
    with _ApiWorkspace() as ws:
        _materialise(ws, case)
        obs = observe_api(ws.home, root, bool(case.get('root_abs')))

    if 'timeout' in obs:
        return Verdict(inconclusive=True, labels=labels + ['alarm'])
    if 'crash' in obs:
        return fail('api/escaped-exception/' + obs['crash'].split(':')[0],
                    {'observed': obs, 'expected_error': r.error, 'files': files}, labels=labels, nontrivial=nontrivial)

    def verdict_for(rr):
        if rr.ambiguous:
            # no single reading from some place on: what precedes that place must be there (if a document is read)
            if 'error' in obs:
                # any error - but not one located before the place up to which the document has a single reading
                at = [c[1] for c in obs['error']['chain']] + [obs['error']['line']]
                if None in at or at < rr.ambiguous_at:
                    return ('error-before-no-single-reading/%s' % obs['error']['kind'],
                            {'observed': obs['error'], 'single_reading_up_to': rr.ambiguous_at,
                             'why_no_single_reading': rr.ambiguous})
                return None
            bad_ = compare_phases(rr.phases, obs, prefix=True)
            return None if bad_ is None else ('before-no-single-reading/' + bad_[0], bad_[1])
        if rr.error is not None:
            if 'error' not in obs:
                n = {p: len(v) for p, v in obs['phases'].items()}
                return ('no-error/%s' % rr.error['what'], {'expected': rr.error, 'observed_element_counts': n})
            bad_ = compare_error(rr.error, obs['error'], files, links)
            if bad_ is not None and ACCEPT_LATER_ERRORS:
                # the manual does not say which of several errors is reported
                for later in rr.later_errors:
                    if compare_error(later, obs['error'], files, links) is None:
                        order.append('reported-error:a-later-one' + (
                            '(first-one-is-unfinished-instruction-then-header)'
                            if {'incomplete-then-header', 'list-continuation-then-header'} & rr.labels else ''))
                        return None
            else:
                order.append('reported-error:the-first-one')
            return bad_
        if 'error' in obs:
            return ('unexpected-error/%s' % obs['error']['kind'], {'observed': obs['error']})
        return compare_phases(rr.phases, obs)

    order = []
    bad = verdict_for(r)
    if bad is None and 'everything' in obs:
        bad = check_sources_are_file_text(obs, files, links)
    if bad is not None and 'list-continuation-then-header' in r.labels:
        # second documented reading: the continued list just has no more elements
        if verdict_for(ref.read_document(files, root, list_reading='complete', symlinks=links)) is None:
            bad = None
            labels.append('reading:list-continuation-complete')
    if bad is None:
        return Verdict(True, nontrivial=nontrivial, labels=labels + order[-1:])
    detail = dict(bad[1])
    detail['files'] = files
    if 'incomplete-then-header' in r.labels or 'list-continuation-then-header' in r.labels:
        # defect model of KF-C07-1: the unfinished instruction swallowed the header line
        r2 = ref.read_document(files, root, swallow=True, symlinks=links)
        if r2.swallowed and verdict_for(r2) is None:
            detail['defect_model'] = 'observation equals the reading in which the incomplete instruction takes ' \
                                     'the following header line as its argument'
            return Verdict(ok=False, known=KF_SWALLOW, bucket='api/' + bad[0], detail=detail,
                           labels=labels + ['known:' + KF_SWALLOW], nontrivial=nontrivial)
    return fail('api/' + bad[0], detail, labels=labels, nontrivial=nontrivial)


class _ApiWorkspace:
    """a directory with the files of a case, for checks that only *read* the case (nothing is executed)"""
    _counter = 0

    def __init__(self):
        _ApiWorkspace._counter += 1
        self.home = os.path.join(driver.work_base(), 'a%d' % _ApiWorkspace._counter)
        if os.path.exists(self.home):
            shutil.rmtree(self.home)
        os.mkdir(self.home)

    def write(self, rel, text):
        path = os.path.join(self.home, rel)
        d = os.path.dirname(path)
        if d != self.home and not os.path.isdir(d):
            os.makedirs(d)
        with open(path, 'w', encoding='utf-8', newline='') as f:
            f.write(text.replace('{HOME}', self.home))

    def __enter__(self):
        return self

    def __exit__(self, *a):
        shutil.rmtree(self.home, ignore_errors=True)


def _materialise(ws, case):
    for d in case.get('dirs', []):
        os.makedirs(os.path.join(ws.home, d), exist_ok=True)
    for path, text in case['files'].items():
        if text is None:
            os.makedirs(os.path.join(ws.home, path), exist_ok=True)
        else:
            ws.write(path, text)
    for link, target in (case.get('symlinks') or {}).items():
        os.symlink(posixpath.basename(target), os.path.join(ws.home, link))


# ---- CLI layer ----------------------------------------------------------------------------
_LOC_RE = re.compile(r'^(\S.*), line (\d+)$')
_IDENT_EXIT = {'PASS': 0, 'FAIL': 32, 'HARD_ERROR': 128, 'VALIDATION_ERROR': 65, 'SYNTAX_ERROR': 65,
               'FILE_ACCESS_ERROR': 65}


# defect model KF-C07-1 at the CLI: what becomes of an instruction that is given a header line (`[NAME]`) as its
# argument - a file / directory / string of that name is made, or a file / directory / integer of that name is missing
_SWALLOW_OUTCOME = {'dir': 'PASS', 'file': 'PASS', 'def': 'PASS', 'env': 'PASS', 'cd': 'HARD_ERROR',
                    'run': 'VALIDATION_ERROR', 'copy': 'VALIDATION_ERROR', 'timeout': 'VALIDATION_ERROR',
                    'exists': 'FAIL'}


def parse_location_block(err):
    """-> (section or None, [(path, line number, [text lines up to the next location line])])"""
    lines = err.split('\n')
    i = 0
    section = None
    m = re.match(r'^In \[([a-z-]+)\]$', lines[0]) if lines else None
    if m:
        section = m.group(1)
        i = 1
    while i < len(lines) and lines[i] == '':
        i += 1
    locs = []
    while i < len(lines):
        m = _LOC_RE.match(lines[i])
        if not m:
            break
        i += 1
        region = []
        while i < len(lines) and not _LOC_RE.match(lines[i]):
            region.append(lines[i])
            i += 1
        f = m.group(1)
        if f.startswith('{HOME}/'):
            f = f[len('{HOME}/'):]  # a file reached through an absolute path is displayed with its absolute path
        locs.append((posixpath.normpath(f), int(m.group(2)), region))
    return section, locs


def _in_order(region, wanted):
    """every wanted (stripped, non-empty) text is a stripped line of region, in this order"""
    k = 0
    for w in wanted:
        w = w.strip()
        if not w:
            continue
        while k < len(region) and region[k].strip() != w:
            k += 1
        if k >= len(region):
            return False
        k += 1
    return True


def _find_planted(r, plant):
    for ph in ref.PHASES:
        if ph == 'act':
            continue
        for e in r.phases[ph]:
            if e['file'] == plant['file'] and plant['line0'] < e['line'] <= plant['line0'] + plant['n']:
                return ph, e
    return None, None


def _check_printed_location(r_out, r_err, exp, files, links=None):
    """exp: dict(chain, file, lo, hi, lines (or None), desc, phase) -> None or (bucket, detail)"""
    section, locs = parse_location_block(r_err)
    d = {'expected': exp, 'printed_locations': [(a, b) for a, b, _ in locs], 'stderr': r_err[:1500]}
    want = [(c[0], c[1]) for c in exp['chain']]
    got = [(a, b) for a, b, _ in locs]
    if len(got) != len(want) + 1 or got[:-1] != want:
        return ('printed-inclusion-chain', d)
    f, n, region = locs[-1]
    if f != exp['file']:
        return ('printed-file', d)
    if not (exp['lo'] <= n <= exp['hi']):
        return ('printed-line-number', d)
    for (cf, cl, ctext), (_, _, reg) in zip(exp['chain'], locs[:-1]):
        if not _in_order(reg, [ctext]):
            return ('printed-directive-source', d)
    actual = ref.split_lines(files[(links or {}).get(f, f)])
    wanted = exp['lines'] if exp['lines'] is not None else [actual[n - 1]]
    if exp['lines'] is None:
        # an erroneous line: shown as it is, or without a description that precedes the instruction on the line
        alts = [wanted]
        a = actual[n - 1].lstrip(' \t')
        if a.startswith('`') and a.find('`', 1) > 0:
            alts.append([a[a.find('`', 1) + 1:]])
        if not any(_in_order(region, w) and w[0].strip() for w in alts):
            return ('printed-source-text', d)
    elif exp['same_line_desc']:
        # the first line may be shown with or without the description part
        if not (_in_order(region, wanted) or _in_order(region, [exp['full_first_line']] + wanted[1:])):
            return ('printed-source-text', d)
    elif not _in_order(region, wanted):
        return ('printed-source-text', d)
    if exp.get('desc') and exp['desc'].strip() and exp.get('check_desc'):
        if _ws_norm(exp['desc']) not in _ws_norm(r_err):
            return ('printed-description-missing', d)
    if section is not None and exp.get('phase') and section != exp['phase']:
        return ('printed-phase', d)
    return None


def check_cli_location(case) -> Verdict:
    files = case['files']
    plant = case['plant']
    root = case.get('root', ROOT)
    links = case.get('symlinks')
    r = ref.read_document(files, root, symlinks=links)
    labels = ['plant:' + plant['kind'], 'plant-ident:' + plant['ident'], 'plant-phase:' + plant['phase'],
              'plant-in-included' if plant['file'] != root else 'plant-in-root',
              _root_label(case),
              'incl-depth:%d' % r.max_depth] + (['plant-described'] if plant['desc'] else [])
    labels += sorted(r.labels & {'inclusion-absolute-path', 'inclusion-other-dir', 'inclusion-through-symlink',
                                 'included-twice'})
    if r.error is not None:
        if {'syntax': 'SYNTAX_ERROR', 'access': 'FILE_ACCESS_ERROR'}[r.error['kind']] != plant['ident']:
            raise AssertionError('planted %r but the reference reads %r' % (plant, r.error))
        exp = {'chain': r.error['chain'], 'file': r.error['file'], 'lo': r.error['lo'], 'hi': r.error['hi'],
               'lines': None, 'desc': None, 'phase': None, 'what': r.error['what']}
        labels.append('chain-length:%d' % len(r.error['chain']))
        labels.append('err:' + r.error['what'])
    else:
        ph, el = _find_planted(r, plant)
        if el is None:
            raise AssertionError('planted element not found by the reference reader')
        exp = {'chain': el['chain'], 'file': el['file'], 'lo': el['line'], 'hi': el['line'], 'lines': el['lines'],
               'desc': el['desc'], 'phase': ph, 'what': plant['kind'], 'full_first_line': el['full_first_line'],
               'same_line_desc': el['full_first_line'].lstrip(' \t') != el['lines'][0],
               # help case spec: the description "is displayed together with the instruction source code in
               # error messages"; the program does not do so for syntax errors *inside* a described instruction
               # (the instruction never came into being); not part of the property statement -> only demanded
               # for instructions that exist (validation, hard error, failing assertion)
               'check_desc': plant['ident'] != 'SYNTAX_ERROR'}
        labels.append('chain-length:%d' % len(el['chain']))
        if len(el['lines']) > 1:
            labels.append('planted-multi-line')
    with driver.Workspace() as ws:
        _materialise(ws, case)
        res = driver.run_inproc(ws, [_root_arg(ws, case)])
        res.err = res.err.replace(ws.markers, '{MARKERS}').replace(ws.home, '{HOME}')  # (as written in the case)
    ident = res.out[:-1] if res.out.endswith('\n') and res.out.count('\n') == 1 else None
    base = {'files': files, 'plant': plant, 'exit': res.exit_code, 'stdout': res.out[:200], 'stderr': res.err[:1500]}

    def bad(bucket, detail=None):
        dd = dict(base)
        dd.update(detail or {})
        if plant['kind'] == 'incomplete':
            # defect model KF-C07-1 (the incomplete instruction swallows the header line): the reading with the
            # swallowed header decides what is reported - for this very document
            r2 = ref.read_document(files, root, swallow=True, symlinks=links)
            if r2.swallowed and not r2.ambiguous:
                if r2.error is None:
                    # that reading is a valid document whose instructions succeed by construction (the lines after
                    # the swallowed header are instructions of the old phase too) - except, possibly, the
                    # instruction that got the header line as its argument
                    ph2, el2 = _find_planted(r2, plant)
                    pred = _SWALLOW_OUTCOME.get(el2['lines'][0].split()[0]) if el2 is not None else None
                    dd['defect_model_predicts'] = pred
                    if pred == 'PASS':
                        ok2 = ident == 'PASS' and res.exit_code == 0 and res.err == ''
                    elif pred is not None:
                        e2 = {'chain': el2['chain'], 'file': el2['file'], 'lo': el2['line'], 'hi': el2['line'],
                              'lines': el2['lines'], 'desc': None, 'phase': ph2, 'same_line_desc': False}
                        ok2 = ident == pred and res.exit_code == _IDENT_EXIT[pred] and \
                            _check_printed_location(res.out, res.err, e2, files, links) is None
                    else:
                        ok2 = False
                else:
                    ok2 = False
                    for e in [r2.error] + (r2.later_errors if ACCEPT_LATER_ERRORS else []):
                        e2 = {'chain': e['chain'], 'file': e['file'], 'lo': e['lo'], 'hi': e['hi'], 'lines': None,
                              'desc': None, 'phase': None}
                        want = {'syntax': 'SYNTAX_ERROR', 'access': 'FILE_ACCESS_ERROR'}[e['kind']]
                        if ident == want and res.exit_code == _IDENT_EXIT[want] and \
                                _check_printed_location(res.out, res.err, e2, files, links) is None:
                            ok2 = True
                            break
                    dd['defect_model_predicts'] = r2.error
                if ok2:
                    dd['defect_model'] = 'outcome equals the reading in which the incomplete instruction takes ' \
                                         'the following header line as its argument'
                    return Verdict(ok=False, known=KF_SWALLOW, bucket='cli-location/' + bucket, detail=dd,
                                   labels=labels + ['known:' + KF_SWALLOW,
                                                    'known-outcome:' + (ident or 'none')], nontrivial=True)
        return fail('cli-location/' + bucket, dd, labels=labels, nontrivial=True)

    if res.exception or res.timed_out:
        return bad('escaped-exception-or-timeout', {'exception': res.exception})
    if ident != plant['ident']:
        return bad('identifier/%s/%s' % (plant['ident'], ident))
    if res.exit_code != _IDENT_EXIT[ident]:
        return bad('exit-code/%s' % ident)
    mism = _check_printed_location(res.out, res.err, exp, files, links)
    if mism is not None:
        return bad(mism[0] + '/' + str(exp['what']), mism[1])
    return Verdict(True, nontrivial=True, labels=labels)


# ---- permutation of phase blocks --------------------------------------------------------
def _phase_sequences(r):
    seq = {}
    for ph in ref.PHASES:
        if ph == 'act':
            seq[ph] = [x['text'] for x in r.phases[ph]]
        else:
            seq[ph] = [(tuple(e['lines']), e['desc']) for e in r.phases[ph]]
    return seq


def permute_blocks(files, swaps, root=ROOT):
    """Permutes the phase blocks of every file that is read, by adjacent swaps of blocks that contribute to
    disjoint sets of phases (so the per-phase order of contents is kept).  -> (new files, number of swaps done)"""
    r = ref.read_document(files, root)
    if r.error is not None:
        raise AssertionError('permutation of an erroneous document: %r' % (r.error,))
    new_files = dict(files)
    done = 0
    si = 0
    for path in sorted(r.borders):
        borders = r.borders[path]
        lines = ref.split_lines(files[path])
        if not borders:
            continue
        ranges = list(zip(borders, borders[1:] + [len(lines)]))
        blocks = [lines[a:b] for a, b in ranges]
        lead = lines[:borders[0]]
        pinned = []
        if lead:
            if path == root:
                blocks.insert(0, ['[act]'] + lead)
                ranges.insert(0, (0, borders[0]))
            else:
                pinned = lead  # belongs to the phase of the including directive: stays first
        sets = []
        for a, b in ranges:
            ps = set()
            for ph in ref.PHASES:
                for e in r.phases[ph]:
                    if (e['file'] == path and a < e['line'] <= b) or \
                            any(c[0] == path and a < c[1] <= b for c in e['chain']):
                        ps.add(ph)
                        break
            sets.append(ps)
        n = len(blocks)
        if n >= 2:
            for _ in range(3 * n):
                x = swaps[si % len(swaps)]
                si += 1
                i = x % (n - 1)
                if not (sets[i] & sets[i + 1]):
                    blocks[i], blocks[i + 1] = blocks[i + 1], blocks[i]
                    sets[i], sets[i + 1] = sets[i + 1], sets[i]
                    done += 1
        new_lines = list(pinned)
        for b in blocks:
            new_lines.extend(b)
        new_files[path] = '\n'.join(new_lines) + '\n'
    r2 = ref.read_document(new_files, root)
    if r2.error is not None or _phase_sequences(r2) != _phase_sequences(r):
        raise AssertionError('permutation changed the per-phase contents (harness bug)')
    return new_files, done


def _run_keep(case_files, dirs, case):
    with driver.Workspace() as ws:
        _materialise(ws, {'files': case_files, 'dirs': dirs})
        res = driver.run_inproc(ws, ['--keep', _root_arg(ws, case)])
        tree = None
        sds = res.out[:-1] if res.out.endswith('\n') else res.out
        if sds and os.path.isdir(sds) and os.path.dirname(sds) == ws.tmproot:
            tree = {}
            for sub in ('act', 'result'):
                if os.path.isdir(os.path.join(sds, sub)):
                    for k, v in driver.tree_snapshot(os.path.join(sds, sub)).items():
                        tree[sub + '/' + k] = v
        return {'exit': res.exit_code, 'ident': res.first_err_line, 'markers': ws.read_markers(),
                'sandbox_printed': bool(sds), 'tree': tree, 'exception': res.exception, 'timed_out': res.timed_out,
                'stderr': res.err[:800]}


_ACT_ECHO_RE = re.compile(r'echo (t\d+) >> \{MARKERS\}$')
_ECHO_RE = re.compile(r'^\$ echo (t\d+) >> \{MARKERS\}$')
_CAT_RE = re.compile(r'^\$ cat (\S+) >> \{MARKERS\}$')
_FILE_HEREDOC_RE = re.compile(r'^file (\S+) = <<\S+$')


def expected_markers(r):
    """The marker trace of a passing generated (exec mode) document, derived from the reference reading alone:
    phase by phase in execution order, within a phase in reading order (repeated declarations merged in file
    order, included files spliced in at their directive).  `$ echo TAG >> {MARKERS}` writes its tag,
    `$ cat F >> {MARKERS}` the body of the here-document that `file F = <<M` was given; the act phase is a sh
    script whose lines echo their tags until an `exit N` line."""
    out = []
    heredocs = {}
    for ph in ref.PHASES:
        if ph == 'act':
            for x in r.phases['act']:
                t = x['text'].strip()
                if re.match(r'^exit \d+$', t):
                    break
                m = None if t.startswith('#') else _ACT_ECHO_RE.search(t)
                if m:
                    out.append(m.group(1))
            continue
        for e in r.phases[ph]:
            first = e['lines'][0]
            m = _FILE_HEREDOC_RE.match(first)
            if m:
                heredocs[m.group(1)] = e['lines'][1:-1]
            m = _ECHO_RE.match(first)
            if m:
                out.append(m.group(1))
            m = _CAT_RE.match(first)
            if m:
                out.extend(heredocs[m.group(1)])
    return out


def check_cli_permutation(case) -> Verdict:
    files = case['files']
    root = case.get('root', ROOT)
    files2, n_swaps = permute_blocks(files, case['swaps'], root)
    r = ref.read_document(files, root)
    labels = ['swaps:%s' % (n_swaps if n_swaps < 4 else '4+'), 'incl-depth:%d' % r.max_depth,
              'planted:%s' % (case['plant']['ident'] if case.get('plant') else 'none')]
    labels += [l for l in sorted(r.labels) if l in ('repeated-phase', 'inclusion', 'included-switches-phase',
                                                     'act-in-included', 'here-doc-with-header-line')]
    labels.append(_root_label(case))
    a = _run_keep(files, case.get('dirs', []), case)
    b = _run_keep(files2, case.get('dirs', []), case)
    labels.append('ident:' + a['ident'])
    labels.append('markers:%s' % (len(a['markers']) if len(a['markers']) < 3 else '3+'))
    nontrivial = n_swaps > 0
    key = None
    if a['exception'] or a['timed_out'] or b['exception'] or b['timed_out']:
        return fail('cli-permutation/escaped-exception-or-timeout', {'original': a, 'permuted': b, 'files': files,
                                                                    'permuted_files': files2},
                    labels=labels, nontrivial=nontrivial)
    exp_ident = case['plant']['ident'] if case.get('plant') else 'PASS'
    for what in ('ident', 'exit', 'markers', 'sandbox_printed', 'tree'):
        if a[what] != b[what]:
            return fail('cli-permutation/%s-differs' % what,
                        {'what': what, 'original': a, 'permuted': b, 'files': files, 'permuted_files': files2},
                        labels=labels, nontrivial=nontrivial)
    if a['ident'] == exp_ident == 'PASS':
        # the execution is that of the reading: every phase runs exactly the instructions that the reference reader
        # attributes to it, in reading order
        want = expected_markers(r)
        labels.append('marker-trace-compared')
        if a['markers'] != want:
            return fail('cli-permutation/marker-trace-differs-from-reading',
                        {'expected_markers': want, 'observed_markers': a['markers'], 'files': files,
                         'stderr': a['stderr']}, labels=labels, nontrivial=nontrivial)
    if a['ident'] != exp_ident:
        # the generator promises an executable document: anything else is a generator (harness) problem worth
        # seeing, but it is no statement about the property
        labels.append('unexpected-ident:' + a['ident'])
        return fail('cli-permutation/generated-document-not-as-intended/%s/%s' % (exp_ident, a['ident']),
                    {'original': a, 'files': files}, labels=labels, nontrivial=nontrivial)
    return Verdict(True, nontrivial=nontrivial, labels=labels)


# ---- sub-check: the transcribed instruction table is what the program documents -----------------
def check_manual(case) -> Verdict:
    with driver.Workspace() as ws:
        r = driver.run_inproc(ws, ['help', 'instructions'])
    if r.exit_code != 0 or r.exception:
        return fail('manual-unavailable', {'exit': r.exit_code, 'err': r.err[:500], 'exc': r.exception})
    table = {}
    cur = None
    for line in r.out.split('\n'):
        m = re.match(r'^\[([a-z-]+)\]\s*$', line)
        if m:
            cur = m.group(1)
            table[cur] = set()
            continue
        m = re.match(r'^ {3,8}(\S+) {2,}\S', line)
        if m and cur and not line.lstrip().startswith('*'):
            table[cur].add(m.group(1))
    mine = {p: set(v) for p, v in ref.INSTRUCTIONS.items() if p != '*'}
    if table != mine:
        return fail('manual-instruction-table-differs',
                    {'manual': {k: sorted(v) for k, v in table.items()},
                     'transcription': {k: sorted(v) for k, v in mine.items()}})
    return Verdict(True, nontrivial=True, key='manual:instructions', labels=['manual:instructions'])


decode_doc = gen.decode_doc  # (bytes -> case) of the coverage-guided campaign


# ---- the report of a failing act phase quotes the whole act phase ------------------------------------------------------------
# "repeated declarations of a phase merged in file order" + "before any header, the act phase" + "every error report
# carries ... the text of the source lines it actually came from": when the act phase fails (it cannot be parsed /
# validated / executed) the report quotes the source of the act phase - the lines of ALL its blocks, in file order.
_ACT_LAYOUTS = {
    'one-block': ['[act]', 'L1', 'L2'],
    'before-header+block': ['L1', '[setup]', 'dir d', '[act]', 'L2'],
    'two-blocks': ['[act]', 'L1', '[assert]', 'exit-code == 0', '[act]', 'L2'],
    'three-blocks': ['L1', '[setup]', 'dir d', '[act]', 'L2', '[cleanup]', 'dir e', '[act]', 'L3'],
    # (inside [act] `including` is an ordinary source line; a file included from another phase may have an act part)
    'block+included-block': ['[act]', 'L1', '[setup]', 'including more-act.xly', 'dir d', '[act]', 'L3'],
    'blocks-with-comment-and-blank': ['[act]', 'L1', '', '[before-assert]', 'dir d', '[act]', '# comment', 'L2'],
    'second-block-last-without-newline': ['[act]', 'L1', '[setup]', 'dir d', '[act]', 'L2', 'L3'],
}
_ACT_FAILURES = {
    # the default actor takes one program line: a second one is a syntax error of the act phase
    'syntax/command-line': ([], 'SYNTAX_ERROR', 'echo-program line-%d'),
    # the interpreter cannot be started: the act phase fails when it is executed
    'hard-error/source': (['actor = source % no-such-interpreter-c07'], 'HARD_ERROR', 'source line %d'),
    # the file to interpret does not exist: the act phase fails validation
    'validation/file': (['actor = file % sh'], 'VALIDATION_ERROR', None),
}


def enum_act_blocks(tier):
    for layout in sorted(_ACT_LAYOUTS):
        for failure in sorted(_ACT_FAILURES):
            yield {'layout': layout, 'failure': failure}


def check_act_blocks(case) -> Verdict:
    conf, ident, line_form = _ACT_FAILURES[case['failure']]
    lines = []
    n = 0
    for l in _ACT_LAYOUTS[case['layout']]:
        if re.fullmatch(r'L\d', l):
            n += 1
            if line_form is None:
                # file actor: the first line names the (missing) file, the others can only be comments
                l = 'no-such-file-c07.sh arg' if n == 1 else '# act comment %d' % n
            else:
                l = line_form % n
        lines.append(l)
    # ([conf] comes last in the file: lines before any header are act phase lines)
    files = {ROOT: '\n'.join(lines + (['[conf]'] + conf if conf else [])) +
             ('' if case['layout'].endswith('without-newline') else '\n')}
    if case['layout'] == 'block+included-block':
        files['more-act.xly'] = '[act]\n' + (line_form % 9 if line_form else '# act comment 9') + '\n'
    r = ref.read_document(files, ROOT)
    if r.error is not None:
        raise AssertionError('act layout is not a document: %r' % (r.error,))
    want = [x['text'] for x in r.phases['act']]
    labels = ['act-layout:' + case['layout'], 'act-failure:' + case['failure'], 'act-lines:%d' % len(want)]
    with driver.Workspace() as ws:
        _materialise(ws, {'files': files})
        res = driver.run_inproc(ws, [ROOT])
    detail = {'files': files, 'exit': res.exit_code, 'stdout': res.out[:200], 'stderr': res.err[:1200],
              'act_phase_lines': want}
    if res.exception or res.timed_out:
        return fail('act-report/escaped-exception-or-timeout', dict(detail, exception=res.exception), labels=labels,
                    nontrivial=True)
    if res.out != ident + '\n':
        return fail('act-report/identifier/%s' % ident, detail, labels=labels, nontrivial=True)
    m = re.search(r'^Actor "[^"]+"\n\n((?:  .*\n|\n)*?)\n\n', res.err, re.M)
    if not res.err.startswith('In [act]\n') or m is None:
        return fail('act-report/not-a-report-of-the-act-phase', detail, labels=labels, nontrivial=True)
    quoted = [q[2:] if q.startswith('  ') else q for q in m.group(1).split('\n')]
    while quoted and quoted[-1].strip() == '':
        quoted.pop()
    exp = [w.rstrip() for w in want]
    while exp and exp[-1] == '':
        exp.pop()
    if [q.rstrip() for q in quoted] != exp:
        return fail('act-report/quoted-source-is-not-the-act-phase', dict(detail, quoted=quoted), labels=labels,
                    nontrivial=True)
    return Verdict(True, nontrivial=len(want) > 1, labels=labels, key='%s|%s' % (case['layout'], case['failure']))


SUBS = [
    Sub('act_blocks_report', check_act_blocks, enumerate=enum_act_blocks, exhaustive=True,
        shards={'quick': 1, 'thorough': 1}),
    Sub('manual_agrees', check_manual, enumerate=lambda tier: [{'what': 'instructions'}], exhaustive=True,
        shards={'quick': 1, 'thorough': 1}),
    Sub('api_small_exhaustive', check_api, enumerate=gen.enumerate_small, exhaustive=True),
    Sub('api_documents', check_api, strategy=gen.api_strategy, budget={'quick': 30000, 'thorough': 800000}),
    fuzz.fuzz_sub('api_fuzz', 'props.c07_document', 'check_api', 'decode_doc', 'api_documents',
                  runs={'quick': 30000, 'thorough': 1200000}, shards={'quick': 4, 'thorough': 16}, max_len=48,
                  instrument=('exactly_lib.section_document', 'exactly_lib.processing.parse'),
                  seeds=[b'\x00\x00\x0f\x42\x4a\x03\x11\x18', b'\x02\x01\x1f\x43\x4a\x00\x0f\x44\x4a\x02\x3b',
                         b'\x04\x00\x32\x33\x0f\x34\x0f\x01\x3d\x00',
                         # a chain of depth 3 with phase switches in the included files; a diamond and an indirect
                         # cycle; a root in a sub-directory given by absolute path with an error at depth 2
                         b'\x00\x00\x0f\x41\x0f\x4a\x0f\x42\x01\x11\x4a\x43\x30\x4a\x04\x0f\x02\x35',
                         b'\x00\x00\x41\x44\x42\x0f\x4a\x0f\x4a\x43\x4a\x40',
                         b'\x06\x01\x41\x0f\x4a\x1f\x42\x04\x4a\x0f\x08\x0f']),
    Sub('cli_locations', check_cli_location, strategy=gen.cli_location_strategy,
        budget={'quick': 2400, 'thorough': 50000}),
    Sub('cli_permutation', check_cli_permutation, strategy=gen.cli_permutation_strategy,
        budget={'quick': 1400, 'thorough': 30000}),
]
