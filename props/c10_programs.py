"""C10 - The action to check (and every other program) gets the denoted argv / stdin / cwd; its outcome is captured.

Every generated test case starts the probe program (vlib/probe/probe.py) through the real CLI: as the action to
check (each actor), through `run` / `$` / `%` in every phase that admits them, as a text source (`-stdout-from`,
`-stderr-from`), as `-from` of `exit-code` / `stdout` / `stderr`, as a `run` transformer.  The probe records what it
received; its exit code / stdout / stderr are configured per case.  The oracle is the reference model
vlib/ref/c10_model.py (a transcription of the built-in manual): the case denotes the argument vectors, stdin texts,
current directories, the outcome that assertions see and the verdict *by construction*.
"""
import os
import re
import shlex

from vlib import driver
from vlib.gen import c10_gen as gen
from vlib.gen import c10_render as render
from vlib.ref import c10_model as model
from vlib.runner import Sub, Verdict, fail

PROPERTY_ID = 'C10'
LEVEL = 'exploration'
RULE = ('a case = a test case that starts the probe program: [act] through each actor (command line with % / '
        'executable file / -python / $ / @ SYMBOL, file interpreter, source interpreter - configured in [conf], in '
        'exactly.suite or by --actor -, null), run / $ / % in [setup] [before-assert] [assert] [cleanup] (program '
        'symbols defined in [setup] or in the phase of use), programs as text sources (-stdout-from / -stderr-from as '
        'stdin and as contents of `file PATH = ...`), -from of exit-code / stdout / stderr, run transformers; shell '
        'command lines with quoting, command substitution and shell syntax around the command (&&, ;, #, VAR=x); '
        'generated: argument lists (fragments naked / soft / '
        'hard quoted, empty, blanks, quotes, option-like and reserved words, references to string / list / path '
        'symbols, -existing-*, :> and here-document last arguments, line continuation), stdin from every text-source '
        'kind via `stdin =` and `-stdin`, chains of def program (depth <= 3) adding arguments / stdin / '
        'transformations, cd before the processes, exit codes 0..255 (enumerated per host), stdout / stderr texts, '
        'true and near-miss claims about the outcome; non-trivial = the argv has a difficult element (empty, blank, '
        'quote, option-like, reserved word, symbol reference) or a stdin / a program chain / a transformation is '
        'involved, or the exit code is non-zero; distinct = distinct case')
ASSUMPTIONS = [
    'the probe is harmless and its outcome is fixed per case (probe cfg), so every expectation is known statically',
    'a text source that is followed by the -transformed-by of its program is written inside parentheses: without '
    'them the grammar lets the text source take the transformation (both readings are valid, so the unparenthesised '
    'form is not generated)',
    'shell command lines: the expected argv is the word list by construction over an alphabet where POSIX word '
    'splitting is unambiguous (cross-checked with shlex.split); a symbol reference inside a shell command line may be '
    'substituted or not (manual silent): both accepted; arguments appended to a shell program through @ SYMBOL become '
    'part of the command line ("passed as a single string to the operating system\'s shell"), separated by blanks: the '
    'shell divides them into words (expected words from a table in the generator)',
    'how often the program of a text source / of a run transformer is executed is only specified for `-from` '
    '("once, and only once"): elsewhere at least once when the result is used; a transformation of a program whose '
    'output is not used (run instruction, exit-code -from) may or may not be evaluated',
    'a non-zero exit code of the program of `stdout -from` / `stderr -from` is not given a meaning by the manual: '
    'the verdict of such cases is not checked',
    'when a text source fails with HARD_ERROR, which of the other parts of the same stdin were evaluated is not '
    'specified; an error in [cleanup] after an earlier failure may report either',
    'the source file of the source interpreter actor: contents = the [act] lines joined by new-line, with or without '
    'a final new-line; `\\[` and `\\\\` at line start translated as `help act` says',
    'texts contain no carriage return and no NUL; strings contain no new-line (here-documents and files do)',
    'a continuation line of an argument list never starts with "#" (it could be read as a comment line)',
    'KF-C10-1 (defect model): when the stdin of a process consists of several parts and a part is the output of a '
    'program, that output may appear earlier than it should (anywhere inside / before the text that precedes it); '
    'everything else - order of all other text, mutual order of program outputs, nothing lost or duplicated - must '
    'hold; any other deviation is a violation',
]

KF1 = 'KF-C10-1'


# ---------------------------------------------------------------------------------------------
def _materialise(ws, c, text, files):
    ws.write('t.case', text)
    for name, content in files.items():
        ws.write(name, content, subst=(name == 'exactly.suite'))
    for name, content in (('data/f1.txt', 'f1\n'), ('data/f2.txt', 'f2\n'), (render.SRC_NAME, 'source text\n')):
        if name not in files:
            ws.write(name, content, subst=False)
    act_homes = [''] + ([c['act_home'] + '/'] if c.get('act_home') else [])
    for d in act_homes:
        p = ws.write(d + render.EXE_NAME, '#!/bin/sh\nexec {PY} {PROBE} "$@"\n')
        os.chmod(p, 0o755)
        ws.write(d + render.PCOPY_NAME, "import sys\nexec(compile(open('{PROBE}').read(), '{PROBE}', 'exec'))\n")
    if c.get('act_home'):
        # a separate act-home directory: same files, the data files marked
        d = c['act_home'] + '/'
        ws.write(d + render.SRC_NAME, 'source text\n', subst=False)
        for name in ('data/f1.txt', 'data/f2.txt'):
            ws.write(d + name, model.ACT_HOME_MARK + c['files'][name], subst=False)
    for pid, cfg in c['probes'].items():
        ws.probe_cfg(pid, **cfg)


def _read(path):
    try:
        with open(path, 'rb') as f:
            return f.read().decode('utf-8', errors='replace')
    except OSError:
        return None


DIFFICULT = re.compile(r'[\s\'"]')


def _argv_features(argv):
    f = set()
    for a in argv:
        if a == '':
            f.add('empty')
        elif DIFFICULT.search(a):
            if "'" in a or '"' in a:
                f.add('quote')
            if re.search(r'\s', a):
                f.add('blank')
        if a.startswith('-') and len(a) > 1:
            f.add('option-like')
        if a in model.RESERVED_WORDS:
            f.add('reserved-word')
        if any(ord(ch) > 127 for ch in a):
            f.add('non-ascii')
        if '\n' in a:
            f.add('new-line')
    return f


def _labels(c, exp):
    labels = []
    act = c.get('act')
    m = model.Model(c)
    feats = set()

    def program_labels(p, host):
        base, layers = m.flatten(p)
        labels.append('head:%s:%s' % (host, base['head']['k'] + (':' + base['head'].get('variant', '')
                                                                  if base['head']['k'] in ('exe', 'sys') else '')))
        labels.append('chain-depth:%d' % (len(layers) - 1))
        for l in layers:
            for a in l.get('args', []):
                feats.add('arg:' + a['k'])
                if a['k'] == 'ref':
                    feats.add('arg:ref:' + m.syms[a['n']]['t'])
                if a['k'] == 'str':
                    for sty, pieces in a['frs']:
                        for kind, t in pieces:
                            if kind == 'r':
                                feats.add('arg:ref-in-string:' + m.syms[t]['t'])
                    if len(a['frs']) > 1:
                        feats.add('arg:multi-fragment')
            if l.get('last'):
                feats.add('arg:last:' + l['last']['k'])
            if l.get('cont') is not None:
                feats.add('arg:continuation')
            if l.get('stdin'):
                ts_labels(l['stdin'], '-stdin')
            for prim in l.get('tr') or []:
                labels.append('transformation:%s:%s' % (host, 'run' if prim[0] == 'run' else 'pure'))
                if prim[0] == 'run':
                    program_labels(prim[1], 'run-transformer')

    def ts_labels(ts, where):
        labels.append('stdin-source:%s:%s%s' % (where, ts['k'] + (':' + ts['chan'] if ts['k'] == 'pgm' else ''),
                                                 '+transformed' if ts.get('tr') and ts['k'] != 'pgm' else ''))
        if ts['k'] == 'pgm':
            program_labels(ts['p'], 'text-source')
        if ts['k'] == 'tsym':
            ts_labels(m.tsyms[ts['n']]['ts'], where + ':via-symbol')

    if not act:
        labels.append('actor:null(no act phase)')
    elif act['k'] == 'program':
        labels.append('actor:command line')
        program_labels(act['p'], 'act')
    elif act['k'] == 'null':
        labels.append('actor:null(%s)' % ('absent' if act.get('absent') else
                                          'explicit' if act.get('explicit_actor') else 'empty'))
    else:
        labels.append('actor:%s:%s' % (act['k'], act['variant']))
        labels.append('interpreter:%s' % act.get('interp'))
        labels.append('actor-configured-via:%s' % act.get('via', 'conf'))
    if c.get('act_home'):
        labels.append('conf:act-home-is-not-home')
    if c.get('setup_stdin'):
        ts_labels(c['setup_stdin'], 'stdin=')
    for ph in model.PHASES:
        for ins in c.get('phases', {}).get(ph, []):
            labels.append('instr:%s:%s%s' % (ph, ins['k'] + (':' + ins['what'] if ins['k'] == 'from' else ''),
                                             ':ignore-exit-code' if ins.get('ignore') else ''))
            if ins['k'] in ('run', 'from', 'filefrom'):
                program_labels(ins['p'], ins['k'])
            if ins.get('local_defs'):
                labels.append('def-program-in:' + ph)
            if ins.get('shared_symbol'):
                labels.append('program-symbol-used-twice:act+' + ph)
    for e in exp['inv']:
        for f in _argv_features(e['argv'][0]):
            feats.add('argv:' + f)
        if len(e['parts']) > 1:
            labels.append('stdin-parts:%d' % min(len(e['parts']), 4))
        if e['cwd'] != '{SDS}/act':
            labels.append('cwd:changed')
    for pid, cfg in c['probes'].items():
        ex = cfg.get('exit', 0)
        labels.append('exit:%s' % ('0' if ex == 0 else '1-127' if ex < 128 else '128-255'))
        if len(cfg.get('stdout', '')) > 10000:
            labels.append('stdout:big')
    for cl in c.get('claims', []):
        labels.append('claim:%s:%s' % (cl['what'], 'true' if cl.get('mut') is None else 'near-miss'))

    def shell_labels(o):
        if isinstance(o, dict):
            if 'words' in o and 'seps' in o:
                if o.get('pre'):
                    feats.add('shell:before-command:' + o['pre'].strip())
                if o.get('post'):
                    feats.add('shell:after-command:' + o['post'].strip())
                for w in o['words']:
                    for sty, _ in w:
                        feats.add('shell:segment:' + {'u': 'unquoted', 's': 'single-quoted', 'd': 'double-quoted',
                                                      'c': 'command-substitution'}[sty])
            for v in o.values():
                shell_labels(v)
        elif isinstance(o, list):
            for v in o:
                shell_labels(v)

    shell_labels(c)
    labels.extend(sorted(feats))
    labels.append('expected:%s' % ('unspecified' if exp['verdict'] is None else '|'.join(sorted(exp['verdict']))))
    nontrivial = bool(feats & {'argv:empty', 'argv:blank', 'argv:quote', 'argv:option-like', 'argv:reserved-word',
                               'arg:ref', 'arg:hardref', 'arg:xpath', 'argv:new-line'}) \
        or any(l.startswith(('stdin-source', 'chain-depth:1', 'chain-depth:2', 'chain-depth:3', 'transformation',
                             'exit:1', 'actor:file', 'actor:source')) for l in labels)
    return labels, nontrivial


def _self_check_shell(c):
    """the by-construction word lists of shell lines agree with POSIX word splitting (harness self check)"""
    m = model.Model(c)
    problems = []

    def check_sh(sh):
        line = render.r_shell(sh, plain_c=True)
        by_construction = m.shell_words(sh, substitute=False)
        if shlex.split(line) != by_construction:
            problems.append([line, by_construction])

    def walk(o):
        if isinstance(o, dict):
            if 'words' in o and 'seps' in o:
                check_sh(o)
            for v in o.values():
                walk(v)
        elif isinstance(o, list):
            for v in o:
                walk(v)

    walk(c)
    return problems


def check(case) -> Verdict:
    c, exp = model.expectations(case)
    text, files = render.r_case(c)
    labels, nontrivial = _labels(c, exp)
    sh_problems = _self_check_shell(c)
    if sh_problems:
        raise AssertionError('generator: shell words by construction differ from shlex.split: %r' % sh_problems[:2])

    with driver.Workspace() as ws:
        _materialise(ws, c, text, files)
        r = driver.run_inproc(ws, [ws.subst(a) for a in render.r_cli_args(c)] + ['--keep', 't.case'])
        records = {pid: ws.probe_records(pid) for pid in c['probes']}
        sandbox = None
        if r.out.endswith('\n') and r.out.count('\n') == 1 and os.path.isdir(r.out[:-1]):
            sandbox = r.out[:-1]
        result_files = None
        if sandbox:
            result_files = {n: _read(os.path.join(sandbox, 'result', fn))
                            for n, fn in (('exit', 'exit-code'), ('stdout', 'stdout'), ('stderr', 'stderr'))}
        out_files = {}
        if sandbox:
            for path in model.expectations_at(c, ws.home, sandbox)['out_files']:
                out_files[path] = _read(path)
        source_files = {}
        for pid, recs in records.items():
            for rec in recs:
                if rec['argv'] and sandbox and rec['argv'][-1].startswith(sandbox):
                    source_files[rec['argv'][-1]] = _read(rec['argv'][-1])

        def subst(s):
            s = ws.subst(s)
            return s.replace('{SDS}', sandbox) if sandbox else s

        case_text = ws.subst(text)
        home, root = ws.home, ws.root
        if sandbox:
            # transformations may act on texts that contain paths: evaluate the model with the real directories
            exp = model.expectations_at(c, home, sandbox)

    def short(s):
        return s if len(s) <= 300 else s[:150] + '...<%d chars>...' % len(s) + s[-100:]

    def unroot(s):
        return s.replace(root, '{ROOT}') if isinstance(s, str) else s

    observed_ident = r.first_err_line
    obs = {'exit_code': r.exit_code, 'identifier': observed_ident, 'stdout': short(unroot(r.out)),
           'stderr': short(unroot(r.err))}

    def bad(bucket, known=None, **detail):
        d = {'observed_run': obs, 'case_text': short(unroot(case_text)) if len(case_text) < 6000 else
             unroot(case_text[:3000]) + '...'}
        d.update(detail)
        if known:
            return Verdict(ok=False, known=known, bucket=bucket, detail=d, labels=labels, nontrivial=nontrivial)
        return fail(bucket, d, labels=labels, nontrivial=nontrivial)

    if r.exception or r.timed_out:
        return bad('escaped-exception-or-timeout', exception=r.exception, timed_out=r.timed_out)

    # ---- verdict ---------------------------------------------------------------------------
    if exp['verdict'] is not None:
        if observed_ident not in exp['verdict']:
            return bad('verdict/%s/%s' % ('|'.join(sorted(exp['verdict'])), observed_ident),
                       expected_verdict=sorted(exp['verdict']))
        if r.exit_code != driver.EXIT_IDENTIFIERS.get(observed_ident):
            return bad('exit-code-of-verdict/%s' % observed_ident)
    if sandbox is None:
        return bad('no-sandbox-reported-with---keep')

    # ---- what the processes received ---------------------------------------------------------
    known_hit = None
    expected_by_probe = {}
    for e in exp['inv']:
        expected_by_probe.setdefault(e['probe'], []).append(e)
    for pid in sorted(c['probes']):
        entries = expected_by_probe.get(pid, [])
        used = [0] * len(entries)
        unknown = pid in exp['unknown_probes']
        for rec in records[pid]:
            got = {'argv': rec['argv'], 'stdin': rec['stdin'], 'cwd': rec['cwd']}
            match = None
            match_rank = None
            near = None
            for i, e in enumerate(entries):
                alts = [[subst(a) for a in alt] for alt in e['argv']]
                if alts and alts[0] and alts[0][-1] == '{SOURCE-FILE}':
                    argv_ok = (len(got['argv']) == len(alts[0]) and got['argv'][:-1] == alts[0][:-1]
                               and got['argv'][-1] in source_files)
                else:
                    argv_ok = got['argv'] in alts
                cwd_ok = os.path.realpath(got['cwd']) == os.path.realpath(subst(e['cwd']))
                stdin_ok = got['stdin'] == subst_stdin(e, subst)
                ok = argv_ok and cwd_ok and stdin_ok
                if ok:
                    # expected invocations that look the same are interchangeable: one that must happen and is not
                    # matched yet is preferred, then an optional one, then one that may happen more than once
                    rank = (0 if used[i] == 0 and e['count'] in ('1', '1+') else 1 if used[i] == 0 else
                            2 if e['count'] != '1' else None)
                    if rank is not None:
                        if match is None or rank < match_rank:
                            match, match_rank = i, rank
                        continue
                score = (argv_ok, cwd_ok, stdin_ok)
                if near is None or sum(score) > sum(near[1]):
                    near = (i, score, alts)
            if match is not None:
                used[match] += 1
                continue
            if not entries:
                if unknown:
                    continue
                return bad('executed-but-not-expected/%s' % _host_of(c, pid), probe=pid, received=_clip(got, unroot))
            i, (argv_ok, cwd_ok, stdin_ok), alts = near
            e = entries[i]
            host = _host_of(c, pid)
            if argv_ok and cwd_ok and stdin_ok:
                if unknown:
                    continue
                return bad('executed-more-often-than-expected/%s' % host, probe=pid, received=_clip(got, unroot))
            if not argv_ok:
                return bad('argv/%s' % host, probe=pid, expected_argv=[[unroot(a) for a in alt] for alt in alts],
                           received=_clip(got, unroot))
            if not cwd_ok:
                return bad('cwd/%s' % host, probe=pid, expected_cwd=unroot(subst(e['cwd'])),
                           received=_clip(got, unroot))
            exp_stdin = subst_stdin(e, subst)
            if model.kf1_matches([[subst(t), pgm] for t, pgm in e['parts']], got['stdin']):
                known_hit = bad('stdin/%s/program-output-before-earlier-parts' % host, known=KF1, probe=pid,
                                expected_stdin=short(exp_stdin), parts=[[short(t), pgm] for t, pgm in e['parts']],
                                received=_clip(got, unroot))
                used[i] += 1
                continue
            return bad('stdin/%s' % host, probe=pid, expected_stdin=short(exp_stdin),
                       parts=[[short(t), pgm] for t, pgm in e['parts']], received=_clip(got, unroot))
        if not unknown:
            for i, e in enumerate(entries):
                if e['count'] in ('1', '1+') and used[i] == 0:
                    return bad('not-executed/%s' % _host_of(c, pid), probe=pid,
                               expected_argv=[unroot(subst(a)) for a in e['argv'][0]], n_records=len(records[pid]))

    # ---- the source file of the source interpreter actor -------------------------------------------
    act = c.get('act')
    if act and act['k'] == 'source' and act['variant'] == 'probe-is-interpreter' and records[act['probe']]:
        path = records[act['probe']][0]['argv'][-1]
        content = source_files.get(path)
        # "All lines of the act phase are part of the source code": the rendered phase = the lines + one empty line
        # before the next header / end of file; whether empty lines at the end of a phase belong to it is not said
        lines = [_act_line_translation(ws_line) for ws_line in act['lines']] + ['']
        n_min = max([i + 1 for i, l in enumerate(lines) if l.strip() != ''] or [0])
        wants = set()
        for n in range(n_min, len(lines) + 1):
            want = '\n'.join(lines[:n])
            wants.update((want, want + '\n'))
        if content is None or content not in wants:
            return bad('source-interpreter/source-file-contents', expected=sorted(wants), observed_contents=content)

    # ---- files made from the output of programs --------------------------------------------------------
    if exp['verdict'] is not None:
        for path, want in sorted(exp['out_files'].items()):
            if out_files.get(path) != want:
                return bad('file-from-program-output', path=unroot(path), expected=short(want),
                           observed_contents=None if out_files.get(path) is None else short(out_files[path]))

    # ---- the stored outcome ------------------------------------------------------------------------------
    if exp['act'] is not None and act and act['k'] != 'null' and exp['verdict'] is not None:
        want = {'exit': str(exp['act']['exit']), 'stdout': exp['act']['stdout'], 'stderr': exp['act']['stderr']}
        for name in ('exit', 'stdout', 'stderr'):
            if result_files[name] != want[name]:
                return bad('result-file/%s' % name, expected=short(want[name]),
                           observed_file=None if result_files[name] is None else short(result_files[name]))
    if known_hit is not None:
        return known_hit
    return Verdict(True, nontrivial=nontrivial, labels=labels + ['observed:' + observed_ident])


def subst_stdin(e, subst):
    return ''.join(subst(t) for t, _ in e['parts'])


def _clip(got, unroot):
    return {'argv': [unroot(a) for a in got['argv']][:30],
            'stdin': got['stdin'] if len(got['stdin']) < 400 else got['stdin'][:200] + '...<%d>' % len(got['stdin']),
            'cwd': unroot(got['cwd'])}


def _act_line_translation(line):
    s = line.lstrip(' \t')
    lead = line[:len(line) - len(s)]
    if s.startswith('\\[') or s.startswith('\\\\'):
        return lead + s[1:]
    return line


def _host_of(c, pid):
    """where the probe with this id is started (for bucket names)"""
    m = model.Model(c)
    act = c.get('act')

    def in_program(p):
        return pid in m.probes_in_program(p)

    def top(p):
        return m.flatten(p)[0]['head'].get('probe') == pid

    if act:
        if act.get('probe') == pid:
            return 'act:' + act['k']
        if act['k'] == 'program' and in_program(act['p']):
            base = m.flatten(act['p'])[0]['head']
            return ('act:' + base['k']) if top(act['p']) else 'act:inner-program'
    for ph in model.PHASES:
        for ins in c.get('phases', {}).get(ph, []):
            if ins.get('probe') == pid:
                return '%s:%s' % (ph, ins['k'])
            if ins['k'] in ('run', 'from', 'filefrom') and in_program(ins['p']):
                if top(ins['p']):
                    return '%s:%s:%s' % (ph, ins['k'], m.flatten(ins['p'])[0]['head']['k'])
                return '%s:%s:inner-program' % (ph, ins['k'])
    return 'text-source-or-symbol'


def check_exit(ec) -> Verdict:
    v = check(gen.exit_case(ec['host'], ec['code']))
    v.labels = list(v.labels) + ['host:' + ec['host']]
    v.nontrivial = True
    v.key = '%s:%d' % (ec['host'], ec['code'])
    return v


def _render(case):
    try:
        c, exp = model.expectations(case)
        text, files = render.r_case(c)
        return {'case_text': text, 'probes': {k: {kk: (vv if not isinstance(vv, str) or len(vv) < 200 else vv[:80] + '...')
                                                for kk, vv in v.items()} for k, v in c['probes'].items()}}
    except Exception as ex:  # pragma: no cover
        return {'render-error': repr(ex)}


SUBS = [
    Sub('exit_codes', check_exit, enumerate=gen.exit_cases, exhaustive=True),
    Sub('act_command_line', check, strategy=lambda tier: gen.act_command_case(),
        budget={'quick': 800, 'thorough': 24000}, render=_render),
    Sub('act_interpreters', check, strategy=lambda tier: gen.interpreter_case(),
        budget={'quick': 350, 'thorough': 9000}, render=_render),
    Sub('instructions', check, strategy=lambda tier: gen.instruction_case(),
        budget={'quick': 700, 'thorough': 24000}, render=_render),
    Sub('shell_lines', check, strategy=lambda tier: gen.shell_case(),
        budget={'quick': 350, 'thorough': 10000}, render=_render),
]
