"""C08 - Symbols: defined before use (execution order), defined once (builtins included), type-checked per
context (transitively), substituted faithfully.

A generated *symbol program* (definitions of all 13 types, uses in type-demanding contexts, in setup / act /
before-assert / assert / cleanup, phases in any file order, possibly written in several pieces, parts of it in
included files - also nested ones and ones that hold other phases - or in the suite the case belongs to) is run
through the CLI with --keep.  The reference interpreter `vlib/ref/c08_symbols.py` (a transcription of the manual,
independent of exactly_lib) decides VALIDATION_ERROR vs accepted; for accepted programs it predicts what the probes
receive (argv, stdin, C08_* environment variables), what `file uK.txt = TEXT-SOURCE` / `dir uK = FILES-SOURCE` /
`file PATH = ...` / `dir PATH` leave in the kept sandbox, what the shell command lines were, and what the act process
receives (command line actor and file interpreter actor).  On rejection nothing may have run: no marker, no probe
record, no shell output, no sandbox (not even one that is removed again).

Sub-checks: `matrix` (exhaustive: syntactic context x defined type x chain of indirection), `scope` (exhaustive:
definition phase x use phase x order x file order / split phases / included files / suite contents; duplicates; builtin
names), `values` (exhaustive: pairs of base values - empty string / list, elements with spaces, paths - combined by
splicing, inside an element, inside a string, twice), `programs` (random symbol programs with at most one fault); `symbol_cmd_scope`, `symbol_cmd`, `symbol_listing`
and the coverage-guided `symbol_listing_fuzz`: the same programs given to `exactly symbol CASE [NAME [--ref]]` - same
accept/reject decision, every definition listed with type and number of references, nothing executed.
"""
import os
import re

from vlib import driver, fuzz
from vlib.gen import c08_gen, c08_render
from vlib.ref import c08_symbols as ref
from vlib.runner import Sub, Verdict, fail

PROPERTY_ID = 'C08'
LEVEL = 'exploration'
RULE = ('cases = symbol programs: <= 8 items (thorough: <= 12 items over 11 names) (def of any of the 13 '
        'types with values that reference earlier symbols - strings also as `:> text` and here-documents, '
        'programs also as shell command lines, text sources also as -stdout-from PROGRAM, '
        'matchers/transformers also as `run PROGRAM` - or uses: file / dir / env / stdin / timeout / run / '
        'the instructions `%` and `$` / assert-phase matcher uses, act line with arguments, a shell command '
        'or a program symbol; `file PATH` / `dir PATH` / `exists ! PATH` with the symbol in the PATH '
        'argument, `-contents-of PATH`, `exit-code|stdout -from PROGRAM`, `env "NAME" = ...`) over 7 names + '
        'builtins, phases in any file order and optionally written in several pieces, ranges of items '
        'optionally moved into included files (plain / with own phase header / nested in another directory / '
        'together with the following phase) or into the sections of `exactly.suite`; random programs are '
        'valid by construction and then get at most one fault (definition moved later, use moved earlier, '
        'duplicate, builtin name, reference retargeted / undefined, definition dropped, act refers to a later'
        ' phase, item moved, a string that a strings-only context depends on made impure); plus the '
        'exhaustive (138 contexts x 13 defined types x 7 chains, depth 3-4 chains for 26 contexts - thorough:'
        ' all) matrix and the exhaustive definition-phase x use-phase x order x file-order (incl. split '
        'phases, included files, suite contents) table; the same programs are also given to `exactly symbol`;'
        ' non-trivial = the program contains at least one reference or a duplicate definition; distinct = '
        'distinct program')
ASSUMPTIONS = [
    'the per-context type demands are transcribed from the SYMBOL-REFERENCE paragraphs of `help syntax STRING|LIST|'
    'PROGRAM-ARGUMENT|TEXT-SOURCE|PATH|<logic type>`',
    'INTEGER, the FILE-NAME of a PATH, the FILE-NAMEs of FILES-SOURCE / FILES-CONDITION literals and the NAME of `env` '
    'are documented '
    'just as STRING while the program demands "strings only, transitively" there (its error messages say so); the '
    'check calibrates the reading on the direct case (a list referenced directly) and then demands the *same* '
    'reading at every depth of indirection, as the property statement requires ("transitively")',
    'a naked token that is exactly one reference in TEXT-SOURCE position is read as the SYMBOL-REFERENCE form '
    '(text-source or string), not as a RICH-STRING',
    'paths are compared as pathlib.PurePosixPath renders them (repeated and trailing slashes removed)',
    'arguments validated by value, not by type - INTEGER that does not evaluate to a Python int, invalid REGEX, '
    'FILE-NAME of a file list that is empty / absolute / contains ".." / ":" / ";" - are outside the property: for '
    'programs that contain one the check accepts VALIDATION_ERROR as well as acceptance (and HARD_ERROR when the '
    'invalid REGEX contains a path of the sandbox or of the home directory: such a REGEX is compiled at execution)',
    'values whose semantics are outside the property (filter transformers, OS_PATH_SEP, arguments '
    'appended to a shell command line) are not predicted (replace / strip / char-case are: the REGEX and the '
    'replacement are strings with references); observations that depend on them are skipped (label '
    'value-unknown); the generators never append arguments to a shell command line (ref.normalise)',
    'how often a program inside a value runs is checked only where the manual fixes it: not for `env NAME = '
    '-stdout-from ...` (one run per environment, C11), `stdin = ...` of [setup] (produced at the instruction or when '
    'the action starts), transformations of a program whose output nobody reads (label invocations-unknown)',
    'here-documents are not generated as arguments inside [act] (its lines belong to the actor: an empty line of the '
    'here-document is dropped there - C10)',
    'current directory = act directory in every phase (no cd is generated), so -rel-cd paths have one value',
    'a path symbol whose relativity is not among the "Accepted relativities" of the instruction it is used in (`file`, '
    '`dir`: act, tmp, cd) - the manual does not say what that means: VALIDATION_ERROR and acceptance both pass',
    '`exactly symbol`: the manual fixes what is reported (every user defined symbol, its type, its number of '
    'references; for NAME the definition, with --ref the references), not the layout: a listing line is read as '
    'TYPE (N) NAME, the definition report must name the phase of the definition ("In [PHASE]"), the resolved value '
    'of string / list symbols that are built without paths must appear as the program prints such values ("String of '
    'N characters" + the text, "List of N elements" + numbered elements), --ref prints one "In [PHASE]" block per '
    'reference; arguments validated by value are not validated by `symbol` ("the case is not executed")',
]

_READING = {}
_FAKE_SDS = '/SDS'
_USE_NAME = re.compile(r'^u[sbac][0-9]+(\.txt)?$')  # what `file uK.txt = ...` / `dir uK = ...` make in the act directory


def _calibration_case(ctx):
    g = c08_gen
    items = {p: [] for p in ref.ITEM_PHASES}
    items['setup'].append(g._def('list', 'L', [g.S('1')]))
    x = g.R('L')
    if ctx == 'int':
        items['setup'].append(g._def('integer-matcher', 'Z', {'c': 'cmp', 'o': '==', 'i': g.S(x)}))
    elif ctx == 'pathpfx':
        items['setup'].append(g._def('path', 'Z', {'rel': None, 'name': g.S(x, '/n')}))
    elif ctx == 'pathcomp':
        items['setup'].append(g._def('path', 'Z', {'rel': 'tmp', 'name': g.S('n/', x)}))
    elif ctx == 'envname':
        items['setup'].append({'k': 'env', 's': {'c': 'str', 's': g.S('v'), 't': None}, 'name': g.S('n', x, q='s')})
    elif ctx == 'fname':
        items['setup'].append(g._def('files-source', 'Z', {'c': 'set', 'e': [{'k': 'file', 'n': g.S('f1', x),
                                                                              's': None}]}))
    return {'order': g.CANONICAL_ORDER, 'act': None, 'items': items}


def reading():
    """How the tree under test reads the contexts the manual documents only as STRING: does it accept a list that is
    referenced *directly*?  (strict = no).  The property demands that the answer does not depend on indirection."""
    key = driver.REPO_SRC
    if key not in _READING:
        rd = {}
        for ctx in ref.STRICT_CONTEXTS:
            with driver.Workspace() as ws:
                ws.write_files(c08_render.render_files(_calibration_case(ctx)))
                r = driver.run_inproc(ws, ['t.case'])
            ident = r.out.strip()
            if ident == 'VALIDATION_ERROR':
                rd[ctx] = 'strict'
            elif ident == 'PASS':
                rd[ctx] = 'lax'
            else:
                raise RuntimeError('calibration of context %s: unexpected outcome %r %r' % (ctx, r.out, r.err[:300]))
        _READING[key] = rd
    return _READING[key]


def _json_safe(x):
    if x is ref.UNKNOWN:
        return '<unknown>'
    if isinstance(x, dict):
        return {k: _json_safe(v) for k, v in x.items()}
    if isinstance(x, (list, tuple)):
        return [_json_safe(v) for v in x]
    return x


def _phase_pos(case, phase):
    return case['order'].index(phase)


def _order_labels(case, val):
    """Classes where file order and execution order of the phases disagree about 'before'."""
    labels = []
    err = val.error
    if err and err['kind'] == 'undefined-defined-later':
        use_pos = _phase_pos(case, err['phase'])
        def_phases = [ph for ph in ref.ITEM_PHASES for it in case['items'].get(ph, [])
                      if it['k'] == 'def' and it['n'] == err['name']]
        if any(ph == err['phase'] for ph in def_phases):
            labels.append('forward-ref:same-phase')
        if any(ph != err['phase'] for ph in def_phases):
            labels.append('forward-ref:later-phase')
        if any(_phase_pos(case, ph) < use_pos for ph in def_phases if ph != err['phase']):
            labels.append('forward-ref:defined-textually-earlier')
    return labels


def _feature_labels(case):
    """Which of the syntactic forms occur in the case (for the class distribution only)."""
    found = set()

    def walk(x):
        if isinstance(x, dict):
            if x.get('q') == 'd':
                found.add('form:here-document')
            elif x.get('q') == 't':
                found.add('form:text-until-eol')
            c = x.get('c')
            if c == 'pgm':
                found.add('form:stdout-from-program')
            elif c == 'shell':
                found.add('form:shell-command-line')
            elif c == 'run':
                found.add('form:run-program-in-matcher-or-transformer')
            k = x.get('k')
            if k in ('env', 'stdin', 'timeout', 'dir', 'file', 'run', 'assert', 'fileat', 'dirat', 'nexists', 'from'):
                found.add('instr:' + ('bare-%-or-$' if (k == 'run' and x.get('bare')) else k))
            for key in sorted(x):
                walk(x[key])
        elif isinstance(x, list):
            for y in x:
                walk(y)

    walk(case.get('items'))
    walk(case.get('act'))
    return sorted(found)


def _make_source_files(ws, case, val, rd):
    """The files that -contents-of reads (those inside the home directory: their paths do not depend on the sandbox)"""
    if val.error is not None:
        return
    roots = {'home': ws.home, 'act-home': ws.home, 'here': ws.home, 'act': _FAKE_SDS + '/act',
             'tmp': _FAKE_SDS + '/tmp', 'result': _FAKE_SDS + '/result', 'cd': _FAKE_SDS + '/act'}
    pre = ref.evaluate(case, roots, rd)
    if 'source-file' in pre.soft:
        return
    for rel, text in sorted(pre.sources.items()):
        ws.write(rel, text, subst=False)


def check(case) -> Verdict:
    case = ref.normalise(case)
    rd = reading()
    text = c08_render.render(case)
    val = ref.validate(case, rd)
    n_refs = len(val.cells)
    nontrivial = n_refs > 0 or (val.error is not None and val.error['kind'].startswith('duplicate'))
    labels = []
    if case.get('tag'):
        labels.append('enum:' + case['tag'].split('/')[0])
    if case.get('fault'):
        labels.append('fault:' + case['fault'])
    labels.append('act:' + ('none' if case.get('act') is None else
                            'probe-file-actor' if c08_render.file_actor(case['act']) else case['act']['c']))
    labels.append('file-order:' + ('canonical' if list(case['order']) == ref.EXEC_ORDER else
                                   'split' if len(case['order']) > len(ref.EXEC_ORDER) else 'permuted'))
    here_dirs = {}
    files = c08_render.render_files(case, here_dirs)
    if len([fn for fn in files if fn.endswith('.xly')]):
        labels.append('layout:included-files')
        labels.extend(sorted(set('layout:include-' + sp.get('m', 'plain') for sp in case.get('inc') or [])))
    if c08_render.SUITE_FILE in files:
        labels.append('layout:suite-contents')
    labels.extend(sorted(val.features))
    labels.extend(_feature_labels(case))
    labels.extend(_order_labels(case, val))
    for ctx, found, ok in val.cells:
        labels.append('cell-%s:%s' % ('ok' if ok else 'bad', ctx))
    if case.get('tag', '').startswith('matrix') and val.cells:
        ctx, found, ok = val.cells[-1]
        labels.append('matrix:%s:%s:%s' % (ctx, found, 'ok' if ok else 'bad'))
    if val.error:
        labels.append('err:' + val.error['kind'])
    stops = [ph for ph in ref.ITEM_PHASES for it in case['items'].get(ph, []) if it['k'] == 'stop']
    if stops:
        labels.append('stop-in:' + stops[0])
    if case.get('tag', '').startswith('matrix'):
        labels.append('mctx:%s:%s' % (case['tag'].split('/')[1], 'rejected' if val.error else 'accepted'))

    with driver.Workspace() as ws:
        ws.write_files(files)
        _make_source_files(ws, case, val, rd)
        for name, stdout in sorted(ref.PROBE_STDOUT.items()):
            if stdout:
                ws.probe_cfg(name, stdout=stdout)
        r = driver.run_inproc(ws, ['--keep', 't.case'])
        markers = ws.read_markers()
        probe_files = sorted(fn for fn in os.listdir(ws.obs)
                             if not fn.startswith('_') and fn != 'markers' and not fn.endswith('.cfg'))
        observed_events = {fn: [{'argv': rec['argv'], 'stdin': rec['stdin'],
                                 'env': {k: v for k, v in rec['env'].items() if k.startswith(ref.ENV_PREFIX)}}
                                for rec in ws.probe_records(fn)]
                           for fn in probe_files}
        observed_shell = {}
        for fn in sorted(os.listdir(ws.obs)):
            if fn.startswith('_sh'):
                with open(os.path.join(ws.obs, fn), 'rb') as f:
                    observed_shell[fn[1:]] = f.read().decode('utf-8', errors='replace')
        ident = r.first_err_line
        sds = None
        if r.out.endswith('\n') and r.out.count('\n') == 1 and os.path.isdir(r.out[:-1]):
            sds = r.out[:-1]
        roots = {'home': ws.home, 'act-home': ws.home, 'here': ws.home,
                 'act': os.path.join(sds or '/SDS', 'act'), 'tmp': os.path.join(sds or '/SDS', 'tmp'),
                 'result': os.path.join(sds or '/SDS', 'result'), 'cd': os.path.join(sds or '/SDS', 'act')}
        out = None
        if val.error is None:
            out = ref.evaluate(case, roots, rd, here_dirs=here_dirs)
        observed_files = {}
        observed_dirs = {}
        observed_abs = {}
        act_listing = []
        if sds is not None and out is not None:
            act_dir = os.path.join(sds, 'act')
            act_listing = sorted(fn for fn in os.listdir(act_dir) if _USE_NAME.match(fn))
            for fn in out.files:
                p = os.path.join(act_dir, fn)
                try:
                    with open(p, 'rb') as f:
                        observed_files[fn] = f.read().decode('utf-8', errors='replace')
                except OSError as ex:
                    observed_files[fn] = '<missing: %s>' % type(ex).__name__
            for dn in out.dirs:
                p = os.path.join(act_dir, dn)
                observed_dirs[dn] = driver.tree_snapshot(p) if os.path.isdir(p) else '<missing>'
            for p in out.abs_files:
                try:
                    with open(p, 'rb') as f:
                        observed_abs[p] = f.read().decode('utf-8', errors='replace')
                except OSError as ex:
                    observed_abs[p] = '<missing: %s>' % type(ex).__name__
            for p in out.abs_dirs:
                observed_abs[p] = '<dir>' if os.path.isdir(p) else '<missing>'

    detail = {'case_text': text, 'identifier': ident, 'exit': r.exit_code, 'stdout': r.out[:300],
              'stderr': r.err[:900], 'markers': markers, 'sandboxes': r.sandboxes, 'created_dirs': r.created_dirs,
              'first_error_by_reference': val.error, 'reading': rd}

    def bad(bucket, **extra):
        d = dict(detail)
        d.update(_json_safe(extra))
        return fail(bucket, d, labels=labels, nontrivial=nontrivial)

    if r.exception or r.timed_out:
        return bad('exception-or-timeout', exception=r.exception)

    soft = sorted(set(out.soft)) if out is not None else []
    executed = 'PASS'
    if out is not None and out.stop is not None:
        # an instruction that fails when it is executed: FAIL / HARD_ERROR; [cleanup] is executed all the same
        executed = out.stop['ident']
        needs = ref.cleanup_needs(case, out.table) & set(out.skipped_defs)
        labels.append('stop:cleanup-%s-a-skipped-definition' % ('needs' if needs else 'does-not-need'))
    if val.error is not None:
        expect = {'VALIDATION_ERROR'}
        labels.append('verdict:rejected')
    elif soft:
        expect = {'VALIDATION_ERROR', executed}
        if 'regex-invalid-sandbox-path' in soft or 'source-file' in soft:
            expect.add('HARD_ERROR')  # cannot be known before the sandbox exists / a file that is not there
        labels.append('verdict:either(value-validated-argument)')
        labels.extend('soft:' + s for s in soft)
    else:
        expect = {executed}
        labels.append('verdict:accepted' if executed == 'PASS' else 'verdict:accepted-and-stopped')

    m_kf2 = re.search(r'Name not in symbol table: "(\w+)"', r.err)
    if (ident == 'INTERNAL_ERROR' and out is not None and m_kf2 and 'In [cleanup]' in r.err
            and (out.stop is not None or 'HARD_ERROR' in expect)):
        # defect model KF-C08-2: the execution-time symbol table holds only the definitions that were *executed*; after
        # a failing instruction the rest up to [cleanup] is skipped, [cleanup] runs, and the first cleanup instruction
        # that resolves a symbol whose definition was skipped crashes with KeyError (INTERNAL_ERROR).  The model
        # predicts: the error is reported in [cleanup] and names a symbol that (a) the reference says is defined, (b)
        # whose definition is not executed (it follows the failing instruction - where that is known: `stop` item -
        # else: it is outside [cleanup] and an execution-time failure is possible), (c) that a cleanup instruction
        # resolves, directly or through other symbols.
        name = m_kf2.group(1)
        not_executed = (set(out.skipped_defs) if out.stop is not None else
                        set(n for _t, n, ph in ref.definitions(case) if ph != 'cleanup'))
        if name in not_executed and name in ref.cleanup_needs(case, out.table):
            d = dict(detail)
            d['defect_model'] = ('definition of %s is not executed (an earlier instruction fails), [cleanup] resolves it'
                                 % name)
            return Verdict(ok=False, known='KF-C08-2', bucket='known/cleanup-needs-skipped-definition/INTERNAL_ERROR',
                           detail=d, labels=labels + ['known:KF-C08-2'], nontrivial=nontrivial)
    if ident not in expect:
        cls = 'rejected' if val.error is not None else ('either' if soft else 'accepted')
        kind = val.error['kind'] if val.error else 'none'
        ctx = val.error.get('ctx', '-') if val.error else '-'
        return bad('verdict/%s/%s/%s/%s' % (cls, kind, ctx, ident), expected=sorted(expect), soft=soft)
    if r.exit_code != driver.EXIT_IDENTIFIERS.get(ident):
        return bad('exit-code/%s' % ident)

    if ident == 'VALIDATION_ERROR' and 'source-file' in soft:
        # a missing source file in the sandbox is found after [setup]: not a symbol matter
        return Verdict(True, nontrivial=nontrivial, labels=labels, sample={'case_text': text, 'identifier': ident})
    if ident == 'VALIDATION_ERROR':
        # "reported as VALIDATION_ERROR before anything executes"
        if (markers or any(observed_events.values()) or observed_shell or r.sandboxes or r.created_dirs
                or r.out != ''):
            return bad('rejected-but-something-executed', observed_events=observed_events,
                       observed_shell=observed_shell)
        return Verdict(True, nontrivial=nontrivial, labels=labels,
                       sample={'case_text': text, 'identifier': ident, 'first_error': val.error})

    if ident == 'HARD_ERROR' and (out.stop is None or soft):
        # an argument that is validated by value at execution (with a `stop` too: which of the two it was is not known)
        return Verdict(True, nontrivial=nontrivial, labels=labels + ['verdict:value-error-at-execution'],
                       sample={'case_text': text, 'identifier': ident})
    # ---- accepted: everything ran (up to a `stop`), values as the reference says ----------------------
    if sds is None:
        return bad('accepted/no-sandbox-reported')
    n_suite = c08_render._suite_counts(case)

    def mismatch(o):
        """-> None | (bucket, extra): first difference between the observations and the outcome o"""
        exp_markers = [c08_render.MARK_FIRST, c08_render.MARK_LAST]
        if o.stop is not None:
            # the markers are the first / last instruction of [setup] / [cleanup] *of the case file*: the contents
            # of the suite come before ([cleanup]: after) them
            in_su = c08_render.in_suite(case, n_suite, o.stop['phase'], o.stop['index'])
            if o.stop['phase'] == 'cleanup' and not in_su:
                exp_markers = [c08_render.MARK_FIRST]
            elif o.stop['phase'] == 'setup' and in_su:
                exp_markers = [c08_render.MARK_LAST]
        if (o.cleanup_cut is not None and not c08_render.in_suite(case, n_suite, 'cleanup', o.cleanup_cut)
                and c08_render.MARK_LAST in exp_markers):
            exp_markers.remove(c08_render.MARK_LAST)
        if markers != exp_markers:
            return 'accepted/not-every-phase-ran', dict(expected_markers=exp_markers)
        # files / directories of instructions that are not executed are not there
        for fn in sorted(set(observed_files) - set(o.files)):
            if not observed_files[fn].startswith('<missing'):
                return 'value/file-of-skipped-instruction', dict(file=fn, observed=observed_files[fn])
        for dn in sorted(set(observed_dirs) - set(o.dirs)):
            if observed_dirs[dn] != '<missing>':
                return 'value/dir-of-skipped-instruction', dict(dir=dn)
        for p in sorted(set(observed_abs) - set(o.abs_files) - set(o.abs_dirs)):
            if not observed_abs[p].startswith('<missing'):
                return 'value/path-of-skipped-instruction', dict(path=p)
        if sorted(fn for fn in act_listing if fn not in o.files and fn not in o.dirs):
            return 'value/unexpected-file-in-act-dir', dict(listing=act_listing, expected=sorted(set(o.files) | set(o.dirs)))
        for fn, exp in sorted(o.files.items()):
            if exp is ref.UNKNOWN:
                labels.append('value-unknown')
                if observed_files[fn].startswith('<missing'):
                    return 'accepted/file-missing', dict(file=fn)
                continue
            if observed_files[fn] != exp:
                return 'value/file-contents', dict(file=fn, expected=exp, observed=observed_files[fn])
        for dn, exp in sorted(o.dirs.items()):
            obs = observed_dirs[dn]
            if exp is ref.UNKNOWN:
                labels.append('value-unknown')
                continue
            if obs == '<missing>':
                return 'accepted/dir-missing', dict(dir=dn)
            exp_cmp = {k: v for k, v in exp.items()}
            for k, v in exp.items():
                if v[0] == 'f' and v[1] is ref.UNKNOWN:
                    labels.append('value-unknown')
                    if k in obs and obs[k][0] == 'f':
                        exp_cmp[k] = obs[k]
            if obs != exp_cmp:
                return 'value/dir-contents', dict(dir=dn, expected=exp_cmp, observed=obs)
        for p, exp in sorted(o.abs_files.items()):
            if exp is ref.UNKNOWN:
                labels.append('value-unknown')
                if observed_abs[p].startswith('<missing'):
                    return 'accepted/file-at-path-missing', dict(path=p)
            elif observed_abs[p] != exp:
                return 'value/file-at-path', dict(path=p, expected=exp, observed=observed_abs[p])
        for p in o.abs_dirs:
            if observed_abs[p] != '<dir>':
                return 'value/dir-at-path', dict(path=p, observed=observed_abs[p])
        if o.unknown_probes:
            labels.append('invocations-unknown')
        for name in sorted((set(o.events) | set(observed_events)) - o.unknown_probes):
            exp_l = o.events.get(name, [])
            obs_l = observed_events.get(name, [])
            if len(exp_l) != len(obs_l):
                return 'value/probe-invocations', dict(probe=name, expected=exp_l, observed=obs_l)
            for e, ob in zip(exp_l, obs_l):
                if e['argv'] != ob['argv']:
                    return ('value/probe-argv' + ('-act' if name == 'act' else ''),
                            dict(probe=name, expected=e['argv'], observed=ob['argv']))
                if e['stdin'] is ref.UNKNOWN:
                    labels.append('value-unknown')
                elif e['stdin'] != ob['stdin']:
                    return 'value/probe-stdin', dict(probe=name, expected=e['stdin'], observed=ob['stdin'])
                if o.unknown_env:
                    labels.append('value-unknown')
                    continue
                if sorted(e['env']) != sorted(ob['env']):
                    return 'value/probe-env-names', dict(probe=name, expected=e['env'], observed=ob['env'])
                for k, v in sorted(e['env'].items()):
                    if v is ref.UNKNOWN:
                        labels.append('value-unknown')
                    elif v != ob['env'][k]:
                        return 'value/probe-env', dict(probe=name, var=k, expected=v, observed=ob['env'][k])
        for name in sorted((set(o.shell) | set(observed_shell)) - o.unknown_probes):
            exp = o.shell.get(name, '')
            if exp is ref.UNKNOWN:
                labels.append('value-unknown')
            elif exp != observed_shell.get(name, ''):
                return 'value/shell-command-line', dict(output=name, expected=exp, observed=observed_shell.get(name, ''))
        return None

    diff = mismatch(out)
    if diff is not None:
        cut = (ref.first_cleanup_item_needing(case, out.table, set(out.skipped_defs))
               if (out.stop is not None and out.stop['phase'] != 'cleanup') else None)
        if cut is not None and mismatch(ref.evaluate(case, roots, rd, cleanup_cut=cut, here_dirs=here_dirs)) is None:
            # defect model KF-C08-2, second form: the crash of the cleanup instruction is not reported (the earlier
            # failure is), but [cleanup] ends there: the observations equal those of the case with [cleanup] given up
            # at the first instruction that resolves a symbol whose definition was skipped
            d = dict(detail)
            d['defect_model'] = ('[cleanup] is given up at its item %d, the first one that resolves a symbol whose '
                                 'definition was not executed (%s); the failure is not reported'
                                 % (cut, sorted(out.skipped_defs)))
            return Verdict(ok=False, known='KF-C08-2', bucket='known/cleanup-needs-skipped-definition/silent',
                           detail=d, labels=labels + ['known:KF-C08-2'], nontrivial=nontrivial)
        return bad(diff[0], **diff[1])
    n_obs = (len(out.files) + len(out.dirs) + sum(len(v) for v in out.events.values()) + len(out.shell)
             + len(out.abs_files) + len(out.abs_dirs))
    labels.append('observations:%s' % (n_obs if n_obs < 4 else '4+'))
    return Verdict(True, nontrivial=nontrivial, labels=labels,
                   sample={'case_text': text, 'identifier': ident,
                           'files': _json_safe(out.files), 'events': _json_safe(out.events),
                           'shell': _json_safe(out.shell)})


_LISTING_LINE = re.compile(r'^(\S+)\s+\((\d+)\)\s+(\S+)$')


def _nothing_ran(ws, r):
    """-> description of what was executed / created although nothing may be, or None"""
    if ws.read_markers():
        return 'markers'
    for fn in sorted(os.listdir(ws.obs)):
        if fn in ('_stdout', '_stderr', 'markers') or fn.endswith('.cfg'):
            continue
        return 'observation file ' + fn
    if r.sandboxes or r.created_dirs:
        return 'sandbox'
    return None


def check_symbol_listing(case) -> Verdict:
    """`exactly symbol CASE` only (the cheap part of check_symbol_cmd: the target of the coverage-guided campaign)"""
    return check_symbol_cmd(case, individual=False)


def decode_program(data: bytes):
    """bytes -> symbol program, through the generator of `programs` (the bytes select among its alternatives)"""
    if len(data) < 6:
        return None
    return c08_gen.program_from_bytes(data)


def check_symbol_cmd(case, individual=True) -> Verdict:
    """`exactly symbol CASE` and `exactly symbol CASE NAME [--ref]` against the reference: same accept / reject
    decision as running the case, every definition listed with its type and its number of references, the reported
    definition is the right one (phase, resolved value of strings and lists), and nothing is executed."""
    case = ref.normalise(case)
    rd = reading()
    files = c08_render.render_files(case)
    text = c08_render.render(case)
    val = ref.validate(case, rd)
    defs = ref.definitions(case)
    nontrivial = len(defs) > 0
    labels = ['symbols-defined:%s' % (len(defs) if len(defs) < 5 else '5+')]
    if case.get('tag'):
        labels.append('enum:' + case['tag'].split('/')[0])
    if case.get('fault'):
        labels.append('fault:' + case['fault'])
    if any(fn.endswith('.xly') for fn in files):
        labels.append('layout:included-files')
    if c08_render.SUITE_FILE in files:
        labels.append('layout:suite-contents')
    if val.error:
        labels.append('err:' + val.error['kind'])
    detail = {'case_text': text, 'first_error_by_reference': val.error, 'reading': rd}

    def bad(bucket, **extra):
        d = dict(detail)
        d.update(_json_safe(extra))
        return fail('symbol-cmd/' + bucket, d, labels=labels, nontrivial=nontrivial)

    soft = []
    out = None
    if val.error is None:
        roots = {'home': '/HOME', 'act-home': '/HOME', 'here': '/HOME', 'act': _FAKE_SDS + '/act',
                 'tmp': _FAKE_SDS + '/tmp', 'result': _FAKE_SDS + '/result', 'cd': _FAKE_SDS + '/act'}
        out = ref.evaluate(case, roots, rd)
        soft = sorted(set(out.soft))
    with driver.Workspace() as ws:
        ws.write_files(files)
        _make_source_files(ws, case, val, rd)
        r = driver.run_inproc(ws, ['symbol', 't.case'])
        detail.update({'exit': r.exit_code, 'stdout': r.out[:600], 'stderr': r.err[:600]})
        if r.exception or r.timed_out:
            return bad('exception-or-timeout', exception=r.exception)
        ran = _nothing_ran(ws, r)
        if ran:
            return bad('something-executed', what=ran)
        ident = r.first_err_line if r.exit_code != 0 else 'OK'
        if val.error is not None:
            expect = {'VALIDATION_ERROR'}
        elif soft:
            expect = {'OK', 'VALIDATION_ERROR'}
        else:
            expect = {'OK'}
        if ident not in expect:
            return bad('verdict/%s/%s' % ('rejected:' + val.error['kind'] if val.error else 'accepted', ident),
                       expected=sorted(expect), soft=soft)
        if ident != 'OK':
            if r.exit_code != driver.EXIT_IDENTIFIERS.get(ident) or r.out != '':
                return bad('rejected/exit-code-or-stdout')
            labels.append('verdict:rejected')
            return Verdict(True, nontrivial=nontrivial, labels=labels,
                           sample={'case_text': text, 'identifier': ident})
        labels.append('verdict:listed')
        counts = ref.reference_counts(case)
        exp_lines = sorted([t, counts.get(n, 0), n] for t, n, _ph in defs)
        obs_lines = []
        for line in r.out.splitlines():
            m = _LISTING_LINE.match(line.strip())
            if not m:
                return bad('listing/unreadable-line', line=line)
            obs_lines.append([m.group(1), int(m.group(2)), m.group(3)])
        if sorted([t, n] for t, _c, n in obs_lines) != sorted([t, n] for t, _c, n in exp_lines):
            return bad('listing/symbols-and-types', expected=exp_lines, observed=sorted(obs_lines))
        if sorted(obs_lines) != exp_lines:
            return bad('listing/reference-counts', expected=exp_lines, observed=sorted(obs_lines))
        if [n for _t, _c, n in obs_lines] == [n for _t, n, _ph in defs]:
            labels.append('listing-order:execution-order')
        # the individual reports
        targets = [(t, n, ph) for t, n, ph in defs] if individual else []
        b = sorted(n for n in counts if n in ref.BUILTIN_TYPES)
        if b and individual:
            targets.append((ref.BUILTIN_TYPES[b[0]], b[0], None))
        for t, n, ph in targets:
            r1 = driver.run_inproc(ws, ['symbol', 't.case', n])
            r2 = driver.run_inproc(ws, ['symbol', 't.case', n, '--ref'])
            for rr in (r1, r2):
                if rr.exception or rr.timed_out or rr.exit_code != 0:
                    return bad('individual/failed', name=n, exit=rr.exit_code, out=rr.out[:400], err=rr.err[:400],
                               exception=rr.exception)
                ran = _nothing_ran(ws, rr)
                if ran:
                    return bad('individual/something-executed', what=ran, name=n)
            lines = r1.out.splitlines()
            m = _LISTING_LINE.match(lines[0].strip()) if lines else None
            if not m or [m.group(1), int(m.group(2)), m.group(3)] != [t, counts.get(n, 0), n]:
                return bad('individual/head-line', name=n, expected=[t, counts.get(n, 0), n], out=r1.out[:400])
            if ph is not None and ('In [%s]' % ph) not in lines:
                return bad('individual/phase-of-definition', name=n, expected=ph, out=r1.out[:600])
            n_blocks = sum(1 for l in r2.out.splitlines() if l.startswith('In ['))
            if n_blocks != counts.get(n, 0):
                return bad('individual/number-of-reported-references', name=n, expected=counts.get(n, 0),
                           out=r2.out[:900])
            if ph is not None and t in ('string', 'list') and ref.path_free(n, out.table):
                v = out.table[n].value
                if v is ref.UNKNOWN:
                    labels.append('value-unknown')
                    continue
                labels.append('value-compared:' + t)
                if t == 'string':
                    head = 'String of %d character%s' % (len(v), '' if len(v) == 1 else 's')
                    ok_v = head in lines and (v == '' or r1.out.endswith('\n' + v + '\n'))
                else:
                    head = 'List of %d element%s' % (len(v), '' if len(v) == 1 else 's')
                    ok_v = head in lines
                    tail = r1.out[r1.out.index(head) + len(head):] if ok_v else ''
                    pos = 0
                    for k, el in enumerate(v):
                        at = tail.find('%d  %s' % (k + 1, el), pos)
                        if at < 0:
                            ok_v = False
                            break
                        pos = at + 1
                if not ok_v:
                    return bad('individual/value/' + t, name=n, expected=v, out=r1.out[:900])
    return Verdict(True, nontrivial=nontrivial, labels=labels,
                   sample={'case_text': text, 'listing': exp_lines})


def render_case(case):
    return {'case_text': c08_render.render(ref.normalise(case))}


def _programs(tier):
    if tier == 'thorough':
        return c08_gen.programs(max_items=12, names=tuple(c08_gen.MORE_NAMES))
    return c08_gen.programs()


SUBS = [
    Sub('matrix', check, enumerate=c08_gen.matrix_cases, exhaustive=True, render=render_case),
    Sub('scope', check, enumerate=c08_gen.scope_cases, exhaustive=True, render=render_case),
    Sub('values', check, enumerate=c08_gen.values_cases, exhaustive=True, render=render_case),
    Sub('programs', check, strategy=lambda tier: _programs(tier), budget={'quick': 4000, 'thorough': 160000},
        render=render_case),
    Sub('symbol_cmd_scope', check_symbol_cmd, enumerate=c08_gen.scope_cases, exhaustive=True, render=render_case),
    Sub('symbol_cmd', check_symbol_cmd, strategy=lambda tier: _programs(tier),
        budget={'quick': 1500, 'thorough': 30000}, render=render_case),
    Sub('symbol_listing', check_symbol_listing, strategy=lambda tier: _programs(tier),
        budget={'quick': 500, 'thorough': 20000}, render=render_case),
    fuzz.fuzz_sub('symbol_listing_fuzz', 'props.c08_symbols', 'check_symbol_listing', 'decode_program',
                  'symbol_listing', runs={'quick': 2400, 'thorough': 128000}, shards={'quick': 4, 'thorough': 16},
                  max_len=200,
                  instrument=('exactly_lib.execution.impl.symbol_validation',
                              'exactly_lib.execution.partial_execution.impl.symbol_validation',
                              'exactly_lib.symbol', 'exactly_lib.util.symbol_table',
                              'exactly_lib.type_val_deps.sym_ref', 'exactly_lib.type_val_deps.types',
                              'exactly_lib.impls.instructions.multi_phase.define_symbol',
                              'exactly_lib.impls.types.string_', 'exactly_lib.impls.types.path',
                              'exactly_lib.impls.types.list_', 'exactly_lib.impls.types.program'),
                  seeds=[bytes([0] * 12), bytes([7, 1, 2, 3, 4, 0, 5, 9, 2, 0, 1, 3, 2, 2, 1, 0, 4, 4, 1, 7, 3, 1]),
                         bytes(range(3, 160, 5))]),
]
