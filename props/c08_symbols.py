"""C08 - Symbols: defined before use (execution order), defined once (builtins included), type-checked per
context (transitively), substituted faithfully.

A generated *symbol program* (definitions of all 13 types, uses in type-demanding contexts, in setup / act /
before-assert / assert / cleanup, phases in any file order, possibly written in several pieces) is run through the
CLI with --keep.  The reference interpreter `vlib/ref/c08_symbols.py` (a transcription of the manual, independent of
exactly_lib) decides VALIDATION_ERROR vs accepted; for accepted programs it predicts what the probes receive (argv,
stdin, C08_* environment variables), what `file uK.txt = TEXT-SOURCE` / `dir uK = FILES-SOURCE` leave in the kept
sandbox, what the shell command lines were, and what the act process receives (command line actor and file
interpreter actor).  On rejection nothing may have run: no marker, no probe record, no shell output, no sandbox.

Sub-checks: `matrix` (exhaustive: syntactic context x defined type x chain of indirection), `scope` (exhaustive:
definition phase x use phase x order x file order / split phases; duplicates; builtin names), `programs` (random
symbol programs with at most one fault).
"""
import os

from vlib import driver
from vlib.gen import c08_gen, c08_render
from vlib.ref import c08_symbols as ref
from vlib.runner import Sub, Verdict, fail

PROPERTY_ID = 'C08'
LEVEL = 'exploration'
RULE = ('cases = symbol programs: <= 8 items (def of any of the 13 types with values that reference earlier symbols - '
        'strings also as `:> text` and here-documents, programs also as shell command lines, text sources also as '
        '-stdout-from PROGRAM, matchers/transformers also as `run PROGRAM` - or uses: file / dir / env / stdin / timeout '
        '/ run / the instructions `%` and `$` / assert-phase matcher uses, act line with arguments, a shell command '
        'or a program symbol) over 7 names + builtins, phases in any file order and optionally written in several '
        'pieces; random programs are valid by construction and then get at most one fault (definition moved later, '
        'use moved earlier, duplicate, builtin name, reference retargeted / undefined, definition dropped, act refers '
        'to a later phase, item moved, a string that a strings-only context depends on made impure); plus the '
        'exhaustive (114 contexts x 13 defined types x 7 chains) matrix and the exhaustive definition-phase x '
        'use-phase x order x file-order (incl. split phases) table; non-trivial = the program contains at least one '
        'reference or a duplicate definition; distinct = distinct program')
ASSUMPTIONS = [
    'the per-context type demands are transcribed from the SYMBOL-REFERENCE paragraphs of `help syntax STRING|LIST|'
    'PROGRAM-ARGUMENT|TEXT-SOURCE|PATH|<logic type>`',
    'INTEGER, the FILE-NAME of a PATH and the FILE-NAMEs of FILES-SOURCE / FILES-CONDITION literals are documented '
    'just as STRING while the program demands "strings only, transitively" there (its error messages say so); the '
    'check calibrates the reading on the direct case (a list referenced directly) and then demands the *same* '
    'reading at every depth of indirection, as the property statement requires ("transitively")',
    'a naked token that is exactly one reference in TEXT-SOURCE position is read as the SYMBOL-REFERENCE form '
    '(text-source or string), not as a RICH-STRING',
    'paths are compared as pathlib.PurePosixPath renders them (repeated and trailing slashes removed)',
    'arguments validated by value, not by type - INTEGER that does not evaluate to a Python int, invalid REGEX, '
    'FILE-NAME of a file list that is empty / absolute / contains ".." / ":" / ";" - are outside the property: for '
    'programs that contain one the check accepts VALIDATION_ERROR as well as acceptance (and HARD_ERROR when the '
    'invalid REGEX contains a sandbox path, which cannot be known before the sandbox exists)',
    'values whose semantics are outside the property (filter/replace/strip transformers, OS_PATH_SEP, arguments '
    'appended to a shell command line) are not predicted; observations that depend on them are skipped (label '
    'value-unknown); the generators never append arguments to a shell command line (ref.normalise)',
    'how often a program inside a value runs is checked only where the manual fixes it: not for `env NAME = '
    '-stdout-from ...` (one run per environment, C11), `stdin = ...` of [setup] (produced at the instruction or when '
    'the action starts), transformations of a program whose output nobody reads (label invocations-unknown)',
    'here-documents are not generated as arguments inside [act] (its lines belong to the actor: an empty line of the '
    'here-document is dropped there - C10)',
    'current directory = act directory in every phase (no cd is generated), so -rel-cd paths have one value',
]

_READING = {}


def _calibration_case(ctx):
    g = c08_gen
    items = {p: [] for p in ref.ITEM_PHASES}
    items['setup'].append(g._def('list', 'L', [g.S('1')]))
    x = g.R('L')
    if ctx == 'int':
        items['setup'].append(g._def('integer-matcher', 'Z', {'c': 'cmp', 'o': '==', 'i': g.S(x)}))
    elif ctx == 'pathpfx':
        items['setup'].append(g._def('path', 'Z', {'rel': None, 'name': g.S(x, '/n')}))
    elif ctx == 'pathcomp':
        items['setup'].append(g._def('path', 'Z', {'rel': 'tmp', 'name': g.S('n/', x)}))
    elif ctx == 'fname':
        items['setup'].append(g._def('files-source', 'Z', {'c': 'set', 'e': [{'k': 'file', 'n': g.S('f1', x),
                                                                              's': None}]}))
    return {'order': g.CANONICAL_ORDER, 'act': None, 'items': items}


def reading():
    """How the tree under test reads the contexts the manual documents only as STRING: does it accept a list that is
    referenced *directly*?  (strict = no).  The property demands that the answer does not depend on indirection."""
    key = driver.REPO_SRC
    if key not in _READING:
        rd = {}
        for ctx in ref.STRICT_CONTEXTS:
            with driver.Workspace() as ws:
                ws.write('t.case', c08_render.render(_calibration_case(ctx)))
                r = driver.run_inproc(ws, ['t.case'])
            ident = r.out.strip()
            if ident == 'VALIDATION_ERROR':
                rd[ctx] = 'strict'
            elif ident == 'PASS':
                rd[ctx] = 'lax'
            else:
                raise RuntimeError('calibration of context %s: unexpected outcome %r %r' % (ctx, r.out, r.err[:300]))
        _READING[key] = rd
    return _READING[key]


def _json_safe(x):
    if x is ref.UNKNOWN:
        return '<unknown>'
    if isinstance(x, dict):
        return {k: _json_safe(v) for k, v in x.items()}
    if isinstance(x, (list, tuple)):
        return [_json_safe(v) for v in x]
    return x


def _phase_pos(case, phase):
    return case['order'].index(phase)


def _order_labels(case, val):
    """Classes where file order and execution order of the phases disagree about 'before'."""
    labels = []
    err = val.error
    if err and err['kind'] == 'undefined-defined-later':
        use_pos = _phase_pos(case, err['phase'])
        def_phases = [ph for ph in ref.ITEM_PHASES for it in case['items'].get(ph, [])
                      if it['k'] == 'def' and it['n'] == err['name']]
        if any(ph == err['phase'] for ph in def_phases):
            labels.append('forward-ref:same-phase')
        if any(ph != err['phase'] for ph in def_phases):
            labels.append('forward-ref:later-phase')
        if any(_phase_pos(case, ph) < use_pos for ph in def_phases if ph != err['phase']):
            labels.append('forward-ref:defined-textually-earlier')
    return labels


def _feature_labels(case):
    """Which of the syntactic forms occur in the case (for the class distribution only)."""
    found = set()

    def walk(x):
        if isinstance(x, dict):
            if x.get('q') == 'd':
                found.add('form:here-document')
            elif x.get('q') == 't':
                found.add('form:text-until-eol')
            c = x.get('c')
            if c == 'pgm':
                found.add('form:stdout-from-program')
            elif c == 'shell':
                found.add('form:shell-command-line')
            elif c == 'run':
                found.add('form:run-program-in-matcher-or-transformer')
            k = x.get('k')
            if k in ('env', 'stdin', 'timeout', 'dir', 'file', 'run', 'assert'):
                found.add('instr:' + ('bare-%-or-$' if (k == 'run' and x.get('bare')) else k))
            for key in sorted(x):
                walk(x[key])
        elif isinstance(x, list):
            for y in x:
                walk(y)

    walk(case.get('items'))
    walk(case.get('act'))
    return sorted(found)


def check(case) -> Verdict:
    case = ref.normalise(case)
    rd = reading()
    text = c08_render.render(case)
    val = ref.validate(case, rd)
    n_refs = len(val.cells)
    nontrivial = n_refs > 0 or (val.error is not None and val.error['kind'].startswith('duplicate'))
    labels = []
    if case.get('tag'):
        labels.append('enum:' + case['tag'].split('/')[0])
    if case.get('fault'):
        labels.append('fault:' + case['fault'])
    labels.append('act:' + ('none' if case.get('act') is None else
                            'probe-file-actor' if c08_render.file_actor(case['act']) else case['act']['c']))
    labels.append('file-order:' + ('canonical' if list(case['order']) == ref.EXEC_ORDER else
                                   'split' if len(case['order']) > len(ref.EXEC_ORDER) else 'permuted'))
    labels.extend(sorted(val.features))
    labels.extend(_feature_labels(case))
    labels.extend(_order_labels(case, val))
    for ctx, found, ok in val.cells:
        labels.append('cell-%s:%s' % ('ok' if ok else 'bad', ctx))
    if case.get('tag', '').startswith('matrix') and val.cells:
        ctx, found, ok = val.cells[-1]
        labels.append('matrix:%s:%s:%s' % (ctx, found, 'ok' if ok else 'bad'))
    if val.error:
        labels.append('err:' + val.error['kind'])

    with driver.Workspace() as ws:
        ws.write('t.case', text)
        for name, stdout in sorted(ref.PROBE_STDOUT.items()):
            if stdout:
                ws.probe_cfg(name, stdout=stdout)
        r = driver.run_inproc(ws, ['--keep', 't.case'])
        markers = ws.read_markers()
        probe_files = sorted(fn for fn in os.listdir(ws.obs)
                             if not fn.startswith('_') and fn != 'markers' and not fn.endswith('.cfg'))
        observed_events = {fn: [{'argv': rec['argv'], 'stdin': rec['stdin'],
                                 'env': {k: v for k, v in rec['env'].items() if k.startswith(ref.ENV_PREFIX)}}
                                for rec in ws.probe_records(fn)]
                           for fn in probe_files}
        observed_shell = {}
        for fn in sorted(os.listdir(ws.obs)):
            if fn.startswith('_sh'):
                with open(os.path.join(ws.obs, fn), 'rb') as f:
                    observed_shell[fn[1:]] = f.read().decode('utf-8', errors='replace')
        ident = r.first_err_line
        sds = None
        if r.out.endswith('\n') and r.out.count('\n') == 1 and os.path.isdir(r.out[:-1]):
            sds = r.out[:-1]
        roots = {'home': ws.home, 'act-home': ws.home, 'here': ws.home,
                 'act': os.path.join(sds or '/SDS', 'act'), 'tmp': os.path.join(sds or '/SDS', 'tmp'),
                 'result': os.path.join(sds or '/SDS', 'result'), 'cd': os.path.join(sds or '/SDS', 'act')}
        out = None
        if val.error is None:
            out = ref.evaluate(case, roots, rd)
        observed_files = {}
        observed_dirs = {}
        if sds is not None and out is not None:
            act_dir = os.path.join(sds, 'act')
            for fn in out.files:
                p = os.path.join(act_dir, fn)
                try:
                    with open(p, 'rb') as f:
                        observed_files[fn] = f.read().decode('utf-8', errors='replace')
                except OSError as ex:
                    observed_files[fn] = '<missing: %s>' % type(ex).__name__
            for dn in out.dirs:
                p = os.path.join(act_dir, dn)
                observed_dirs[dn] = driver.tree_snapshot(p) if os.path.isdir(p) else '<missing>'

    detail = {'case_text': text, 'identifier': ident, 'exit': r.exit_code, 'stdout': r.out[:300],
              'stderr': r.err[:900], 'markers': markers, 'sandboxes': r.sandboxes,
              'first_error_by_reference': val.error, 'reading': rd}

    def bad(bucket, **extra):
        d = dict(detail)
        d.update(_json_safe(extra))
        return fail(bucket, d, labels=labels, nontrivial=nontrivial)

    if r.exception or r.timed_out:
        return bad('exception-or-timeout', exception=r.exception)

    soft = sorted(set(out.soft)) if out is not None else []
    if val.error is not None:
        expect = {'VALIDATION_ERROR'}
        labels.append('verdict:rejected')
    elif soft:
        expect = {'VALIDATION_ERROR', 'PASS'}
        if 'regex-invalid-sandbox-path' in soft:
            expect.add('HARD_ERROR')  # cannot be known before the sandbox exists
        labels.append('verdict:either(value-validated-argument)')
        labels.extend('soft:' + s for s in soft)
    else:
        expect = {'PASS'}
        labels.append('verdict:accepted')

    if ident not in expect:
        cls = 'rejected' if val.error is not None else ('either' if soft else 'accepted')
        kind = val.error['kind'] if val.error else 'none'
        ctx = val.error.get('ctx', '-') if val.error else '-'
        return bad('verdict/%s/%s/%s/%s' % (cls, kind, ctx, ident), expected=sorted(expect), soft=soft)
    if r.exit_code != driver.EXIT_IDENTIFIERS.get(ident):
        return bad('exit-code/%s' % ident)

    if ident == 'VALIDATION_ERROR':
        # "reported as VALIDATION_ERROR before anything executes"
        if markers or any(observed_events.values()) or observed_shell or r.sandboxes or r.out != '':
            return bad('rejected-but-something-executed', observed_events=observed_events,
                       observed_shell=observed_shell)
        return Verdict(True, nontrivial=nontrivial, labels=labels,
                       sample={'case_text': text, 'identifier': ident, 'first_error': val.error})

    if ident == 'HARD_ERROR':
        return Verdict(True, nontrivial=nontrivial, labels=labels + ['verdict:value-error-at-execution'],
                       sample={'case_text': text, 'identifier': ident})
    # ---- accepted: everything ran, values as the reference says -------------------------------------
    if sds is None:
        return bad('accepted/no-sandbox-reported')
    if markers != [c08_render.MARK_FIRST, c08_render.MARK_LAST]:
        return bad('accepted/not-every-phase-ran')
    for fn, exp in sorted(out.files.items()):
        if exp is ref.UNKNOWN:
            labels.append('value-unknown')
            if observed_files[fn].startswith('<missing'):
                return bad('accepted/file-missing', file=fn)
            continue
        if observed_files[fn] != exp:
            return bad('value/file-contents', file=fn, expected=exp, observed=observed_files[fn])
    for dn, exp in sorted(out.dirs.items()):
        obs = observed_dirs[dn]
        if exp is ref.UNKNOWN:
            labels.append('value-unknown')
            continue
        if obs == '<missing>':
            return bad('accepted/dir-missing', dir=dn)
        exp_cmp = {k: v for k, v in exp.items()}
        for k, v in exp.items():
            if v[0] == 'f' and v[1] is ref.UNKNOWN:
                labels.append('value-unknown')
                if k in obs and obs[k][0] == 'f':
                    exp_cmp[k] = obs[k]
        if obs != exp_cmp:
            return bad('value/dir-contents', dir=dn, expected=exp_cmp, observed=obs)
    if out.unknown_probes:
        labels.append('invocations-unknown')
    for name in sorted((set(out.events) | set(observed_events)) - out.unknown_probes):
        exp_l = out.events.get(name, [])
        obs_l = observed_events.get(name, [])
        if len(exp_l) != len(obs_l):
            return bad('value/probe-invocations', probe=name, expected=exp_l, observed=obs_l)
        for e, o in zip(exp_l, obs_l):
            if e['argv'] != o['argv']:
                return bad('value/probe-argv' + ('-act' if name == 'act' else ''), probe=name,
                           expected=e['argv'], observed=o['argv'])
            if e['stdin'] is ref.UNKNOWN:
                labels.append('value-unknown')
            elif e['stdin'] != o['stdin']:
                return bad('value/probe-stdin', probe=name, expected=e['stdin'], observed=o['stdin'])
            if sorted(e['env']) != sorted(o['env']):
                return bad('value/probe-env-names', probe=name, expected=e['env'], observed=o['env'])
            for k, v in sorted(e['env'].items()):
                if v is ref.UNKNOWN:
                    labels.append('value-unknown')
                elif v != o['env'][k]:
                    return bad('value/probe-env', probe=name, var=k, expected=v, observed=o['env'][k])
    for name in sorted((set(out.shell) | set(observed_shell)) - out.unknown_probes):
        exp = out.shell.get(name, '')
        if exp is ref.UNKNOWN:
            labels.append('value-unknown')
        elif exp != observed_shell.get(name, ''):
            return bad('value/shell-command-line', output=name, expected=exp, observed=observed_shell.get(name, ''))
    n_obs = (len(out.files) + len(out.dirs) + sum(len(v) for v in out.events.values()) + len(out.shell))
    labels.append('observations:%s' % (n_obs if n_obs < 4 else '4+'))
    return Verdict(True, nontrivial=nontrivial, labels=labels,
                   sample={'case_text': text, 'identifier': ident,
                           'files': _json_safe(out.files), 'events': _json_safe(out.events),
                           'shell': _json_safe(out.shell)})


def render_case(case):
    return {'case_text': c08_render.render(ref.normalise(case))}


SUBS = [
    Sub('matrix', check, enumerate=c08_gen.matrix_cases, exhaustive=True, render=render_case),
    Sub('scope', check, enumerate=c08_gen.scope_cases, exhaustive=True, render=render_case),
    Sub('programs', check, strategy=lambda tier: c08_gen.programs(), budget={'quick': 4000, 'thorough': 150000},
        render=render_case),
]
