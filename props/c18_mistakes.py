"""C18 - Mistakes in a test case are reported as such, never as internal errors.

Valid cases come from the grammar vlib/gen/c18_grammar.py (every instruction of every phase, every type), mistakes
from the operators of vlib/gen/c18_mutate.py (token deletion / duplication / transposition / replacement from the DSL
dictionary, line operators, header mutilation, quote imbalance, character insertion / deletion, truncation at any
character, wrong-type arguments, ill-formed / extreme INTEGER, REGEX, replacement, GLOB and range vocabularies,
references to symbols of the wrong type).  Everything is run in-process through MainProgram.execute.

Oracle (property statement + `exactly help case spec`): the run terminates, no exception escapes, stdout is exactly
one identifier of the documented table and the exit code is the one the table gives for it, the identifier is not
INTERNAL_ERROR and no Python traceback of the program is printed; a report with exit code 65 names a location
(file, line, source) unless it is about the act phase, and every location any report names is true: the file is a
file of the case, the line exists, the quoted source is that line (and the following ones) of that file.
For a *targeted* mistake (one ill-formed value / one reference of the wrong type put into an instruction that is
not a definition) more is demanded: the case must be rejected (exit 65, or HARD_ERROR when the instruction runs) and
the location must be the first line of that very instruction.
"""
import os
import random
import re
import signal

from hypothesis import strategies as st

from vlib import driver, fuzz
from vlib.gen import c18_grammar as G
from vlib.gen import c18_mutate as M
from vlib.ref import c18_report as R
from vlib.runner import Sub, Verdict, fail

PROPERTY_ID = 'C18'
LEVEL = 'exploration'
RULE = ('a case = a grammatical test case (token list; all instructions / types / phases, optional included file, '
        'permuted phases) + 1..4 mutants, each 1..3 mutation ops; a mutant is non-trivial when its text differs from '
        'the parent and Exactly ran on it; distinct = distinct mutated text; labels: op, outcome, parent outcome, '
        '"changed" = outcome differs from the parent\'s.  bad_values: small cases built around one instruction that '
        'holds an INTEGER / REGEX / replacement / GLOB / range / symbol reference, one targeted replacement per '
        'mutant.  truncate_every_char: every prefix of a fixed corpus of cases.  byte_cases / atheris_campaign: byte '
        'strings decoded into grammar choices + ops (coverage guided in the thorough tier).')
ASSUMPTIONS = [
    'a line is what "\\n" (after universal-newline reading) ends; line numbers in reports count those lines',
    'an ill-formed value inside a `def` is only required to be reported if and where the symbol is used (an unused '
    'definition is not validated, cf. C03); targeted demands are made for non-definition instructions only',
    'a targeted mistake in a case whose parent is SKIPPED may be SKIPPED (the manual: "the test case is not '
    'executed"); when the parent already ends in HARD_ERROR the identical HARD_ERROR is accepted (the instruction '
    'with the mistake may never run)',
    'reports about the act phase quote the act phase lines without a line number; each must be a line of the case',
    'INTEGER / REGEX / replacement validity is judged by Python itself (eval / re), as the manual defines them by '
    '"Python syntax"; `True` (a Python int) and extreme values are not required to be rejected',
    'a reference to a data-type symbol (string / list / path) in place of another symbol is not required to be '
    'rejected (conversions exist); only logic-type symbols in the wrong place are',
    'hang = no result within 20 s and again within 60 s (generated cases run for ~30 ms)',
]

IDENTS_COMPLETE = ('PASS', 'FAIL', 'XFAIL', 'XPASS')
LOGIC_TYPES = {'integer-matcher', 'line-matcher', 'file-matcher', 'files-matcher', 'files-condition', 'files-source',
               'text-source', 'text-matcher', 'text-transformer', 'program'}
NAME_TYPE = {v: G.SYM_TYPE.get(k, k) for k, v in G.SYM.items()}


# ---- running ------------------------------------------------------------------------------------------------------------
def _materialise(ws, files):
    for k, v in G.HOME_FILES.items():
        ws.write(k, v)
    for e in G.EXECUTABLE:
        os.chmod(os.path.join(ws.home, e), 0o755)
    for k, v in files.items():
        ws.write(k, v)


def observe(files):
    """-> dict(exit, out, err, exception, timed_out, root)"""
    if signal.getsignal(signal.SIGALRM) is None:
        # inside a libFuzzer campaign SIGALRM belongs to a handler Python does not know; the driver restores the
        # handler it found, which must be one Python can name
        signal.signal(signal.SIGALRM, signal.SIG_IGN)
    for attempt, timeout in enumerate((20.0, 60.0)):
        with driver.Workspace() as ws:
            _materialise(ws, files)
            r = driver.run_inproc(ws, ['t.case'], timeout_s=timeout)
            root = ws.root
        if not r.timed_out:
            break
    return {'exit': r.exit_code, 'out': r.out, 'err': r.err.replace(root, '<WS>'), 'exception': r.exception,
            'timed_out': r.timed_out}


def _short(obs):
    return {'exit': obs['exit'], 'out': obs['out'][:200], 'err': obs['err'][:3000],
            'exception': obs['exception'], 'timed_out': obs['timed_out']}


def ident_of(obs):
    out = obs['out']
    if out.endswith('\n') and out.count('\n') == 1 and out[:-1] in R.TABLE:
        return out[:-1]
    return None


# ---- defect models (genuine defects of the unchanged tree, see the final report) ---------------------------------------
def classify_internal(files, tb, err=None):
    """-> 'KF-C18-n' when the INTERNAL_ERROR is exactly what a modelled defect predicts for this text, else None"""
    if tb is None:
        return None
    inner = tb['innermost_exactly']
    texts = list(files.values())
    if tb['type'] == 'ValueError' and tb['message'] in ('embedded null byte', 'embedded null character') \
            and any('\x00' in t for t in texts):
        # KF-C18-4: a NUL character in an argument that becomes a file name / program argument / environment value
        # reaches the OS interface unchecked.  Model: the text contains NUL and the exception is the one (type and
        # message) with which CPython's OS interface refuses a string that contains NUL.
        return 'KF-C18-4'
    m = re.search(r'Name not in symbol table: "([^"]+)"', err or '')
    if m and inner == ('exactly_lib/util/symbol_table.py', 'lookup') and tb['type'] == 'KeyError' \
            and err.startswith('In [cleanup]'):
        return 'KF-C18-5' if _is_kf5(files, m.group(1)) else None
    return None


def _is_kf5(files, name):
    """KF-C18-5: an instruction of an earlier phase fails (HARD_ERROR / FAIL), the `def`s after it are never executed,
    [cleanup] is run all the same and one of its instructions refers to such a symbol.
    Model (the report is about [cleanup] - checked by the caller): the same case *without the contents of [cleanup]* ends in a failure (not an error of exit code 65,
    not INTERNAL_ERROR) of a phase before [cleanup], and the missing name is defined by a `def` that is executed
    after the place of that failure (later phase, or same phase and later line) and before [cleanup]."""
    text = files['t.case']
    lines = R.file_lines(text)
    phases = R.phase_of_lines(text)
    order = R.PHASE_ORDER
    def_re = re.compile(r'^\s*def\s+\S+\s+%s\s*=' % re.escape(name))
    inc_re = re.compile(r'^\s*including\s')
    inc_defines = any(def_re.match(l) for f, t in files.items() if f != 't.case' for l in R.file_lines(t))
    def_places = [(order.index(ph), i + 1) for i, (l, ph) in enumerate(zip(lines, phases))
                  if ph not in (None, 'cleanup') and (def_re.match(l) or (inc_defines and inc_re.match(l)))]
    if not def_places:
        return False
    without = dict(files)
    without['t.case'] = '\n'.join('' if ph == 'cleanup' else l for l, ph in zip(lines, phases)) + '\n'
    obs = observe(without)
    ident = ident_of(obs)
    if ident not in ('HARD_ERROR', 'FAIL', 'XFAIL') or obs['exception'] or obs['timed_out']:
        return False
    rep = R.parse_report(obs['err'])
    if rep['phase'] not in order or rep['phase'] == 'cleanup':
        return False
    if rep['actor'] is not None or not rep['chain']:
        fail_place = (order.index(rep['phase']), float('inf'))  # the act phase as a whole
    else:
        first = rep['chain'][0]  # the line of t.case (an `including` line when the failure is in an included file)
        fail_place = (order.index(rep['phase']), first[1])
        if len(rep['chain']) > 1:
            # failure inside the included file: the definitions of that file after it are skipped too
            return any(p >= fail_place for p in def_places)
    return any(p > fail_place for p in def_places)


# ---- the generic oracle -------------------------------------------------------------------------------------------------
def generic_problem(files, obs):
    """-> None | (bucket, detail dict, known id | None)"""
    if obs['timed_out']:
        return 'hang', {'what': 'no result within 20 s and again within 60 s'}, None
    if obs['exception']:
        tb = R.traceback_summary(obs['exception'])
        typ = obs['exception'].split(':', 1)[0]
        inner = tb['innermost_exactly'] if tb else None
        return ('escaped-exception/%s/%s' % (typ, '%s:%s' % inner if inner else '?'),
                {'what': 'an exception escaped from MainProgram.execute'}, None)
    ident = ident_of(obs)
    if ident is None:
        return 'stdout-is-not-one-identifier-line', {'what': 'stdout must be one line: an exit identifier'}, None
    if obs['exit'] != R.TABLE[ident]:
        return ('exit-code-vs-identifier/%s/%s' % (ident, obs['exit']),
                {'what': 'exit code differs from the documented one', 'documented': R.TABLE[ident]}, None)
    tb = R.traceback_summary(obs['err'])
    if ident == 'INTERNAL_ERROR' or (tb and tb['innermost_exactly']):
        known = classify_internal(files, tb, obs['err'])
        inner = tb['innermost_exactly'] if tb else None
        return ('internal-error/%s/%s' % (tb['type'] if tb else '?', '%s:%s' % inner if inner else '?'),
                {'what': 'INTERNAL_ERROR / traceback of the program for a mistake in the text of the case',
                 'traceback': tb}, known)
    if ident == 'PASS' and obs['err'] != '':
        return 'pass-with-stderr', {'what': 'PASS but something was printed on stderr'}, None
    rep = R.parse_report(obs['err'])
    if rep['actor'] is not None:
        probs = R.check_actor_source(rep, files)
        if probs:
            return 'wrong-location/act/' + ident, {'what': probs, 'report': rep}, None
        return None
    if rep['chain']:
        probs = R.check_location(rep, files)
        if probs:
            return 'wrong-location/' + ident, {'what': probs, 'report': rep}, None
    elif obs['exit'] == 65:
        return ('no-location/%s/%s' % (ident, rep['phase']),
                {'what': 'exit code 65 without a (file, line, source) location', 'report': rep}, None)
    return None


def _fail(bucket, detail, files, obs, labels, key, known=None, extra=None):
    d = {'bucket': bucket}
    d.update(detail)
    d['observed'] = _short(obs)
    d['case_text'] = files.get('t.case')
    if G.INC_NAME in files:
        d['included_file_text'] = files[G.INC_NAME]
    if extra:
        d.update(extra)
    if known:
        return Verdict(ok=False, known=known, bucket=bucket, detail=d, labels=labels + ['known:' + known],
                       nontrivial=True, key=key)
    return fail(bucket, d, labels=labels, nontrivial=True, key=key)


def _outcome_label(obs):
    if obs['timed_out']:
        return 'TIMEOUT'
    if obs['exception']:
        return 'EXCEPTION'
    return ident_of(obs) or 'OTHER'


def _err_category(obs):
    """the category line of a report ("Syntax error", ...) - a label"""
    rep = R.parse_report(obs['err'])
    for l in rep['rest']:
        if l.strip():
            if l.startswith(' ') or len(l) > 60:
                return 'message'
            return re.sub(r'[`"\':(].*', '', l).strip()[:28] or 'message'
    return 'none'


# ---- strict oracle for targeted mistakes -----------------------------------------------------------------------------------
def _strip_quotes(tok):
    if len(tok) >= 2 and tok[0] == tok[-1] and tok[0] in '\'"':
        return tok[1:-1]
    return tok


def targeted_demand(doc, f, info):
    """-> None (no demand beyond the generic oracle) | dict(why=..., idents=accepted identifiers (optional))"""
    elems = doc['elems'] if f == 0 else doc['inc']
    if info.get('elem') is None:
        return None
    elem = elems[info['elem']]
    if info['op'] == 'badhdr':
        return {'why': 'the line %r begins with `[` but is not a phase header' % info['token'],
                'idents': ('SYNTAX_ERROR',)}
    if elem['name'] in M.NOT_INSTRUCTION_ELEMENTS or elem['ph'] == 'act':
        return None
    if info['op'] == 'badinstr':
        return {'why': 'there is no instruction %r' % info['token'], 'idents': ('SYNTAX_ERROR',)}
    if elem['name'] == 'def':
        return None
    if info['op'] == 'wrongref':
        old_type = info['kind'].split(':', 1)[1]
        new_type = NAME_TYPE.get(info['new_name'])  # None: UNDEFINED / INC
        if info['new_name'] == 'INC':
            return None
        if new_type in ('string', 'list', 'path'):
            return None
        if new_type == old_type:
            return None
        if old_type in ('string', 'list', 'path') and new_type == 'text-source':
            return None  # the grammar writes @[S]@ also where a TEXT-SOURCE is expected
        return {'why': 'reference to %s (%s) where a %s is required' % (info['new_name'], new_type or 'undefined',
                                                                        old_type)}
    if info['op'] != 'badval':
        return None
    kind, eff = info['kind'], info['effective']
    if info['literal_ctx']:
        eff = info['token']
    if kind == 'int':
        if info['prev'] == '=' and elem['name'] == 'def':
            return None
        c = R.int_class(eff)
        if c == 'int':
            return None
        return {'why': 'INTEGER %r: %s' % (eff, c)}
    if kind == 'range':
        if not R.range_invalid(eff):
            return None
        return {'why': 'LINE-NUMBER-RANGE %r is ill-formed' % eff}
    if kind == 'regex':
        if not R.regex_invalid(eff) or not R.regex_invalid(eff, True):
            return None
        return {'why': 'REGEX %r does not compile' % eff}
    if kind == 'repl':
        if info['prev_kind'] != 'regex' or '@[' in info['prev']:
            return None
        rx = _strip_quotes(info['prev'])
        if not R.template_invalid(eff, rx):
            return None
        return {'why': 'replacement %r is refused by Python for the pattern %r' % (eff, rx)}
    return None


def strict_problem(doc, f, info, demand, files, obs, parent_obs):
    """-> None | (bucket, detail, known)"""
    ident = ident_of(obs)
    p_ident = ident_of(parent_obs)
    fname = 't.case' if f == 0 else G.INC_NAME
    want_line = info['elem_line']
    detail = {'mistake': demand['why'], 'mutated_token': info['token'], 'replaced': info['old'],
              'file': fname, 'instruction_first_line': want_line, 'parent_outcome': p_ident}
    kind = info['kind'].split(':')[0]
    if ident in demand.get('idents', ('SYNTAX_ERROR', 'VALIDATION_ERROR', 'HARD_ERROR')):
        if p_ident == 'HARD_ERROR' and ident == 'HARD_ERROR' and obs['err'] == parent_obs['err']:
            return None  # the parent stops before the instruction runs
        rep = R.parse_report(obs['err'])
        if not rep['chain']:
            return 'targeted-no-location/%s/%s' % (kind, ident), dict(detail, what='report without location'), None
        last = rep['chain'][-1]
        got_file = os.path.normpath(last[0]) if last[0] else 't.case'
        if (got_file, last[1]) != (fname, want_line):
            return ('targeted-wrong-line/%s/%s' % (kind, ident),
                    dict(detail, what='the report does not point at the instruction that holds the mistake',
                         reported=[got_file, last[1]]), None)
        return None
    if ident == 'SKIPPED' and p_ident == 'SKIPPED' and 'idents' not in demand:
        return None
    if ident == 'INTERNAL_ERROR':
        return None  # the generic oracle has reported / classified it
    if ident in IDENTS_COMPLETE or ident == 'SKIPPED' or 'idents' in demand:
        return ('targeted-mistake-accepted/%s/%s' % (kind, ident),
                dict(detail, what='the mistake is silently accepted'), None)
    return None


# ---- the check of one document with its mutants -------------------------------------------------------------------------------
def check_doc(doc, muts, strict, tier_chars):
    labels = []
    parent_files = M.parent_texts(doc)
    for t in parent_files.values():
        if M.gate(t):
            return Verdict(True, labels=['gate-refused-parent'])
    parent_obs = observe(parent_files)
    p_label = _outcome_label(parent_obs)
    labels.append('parent:' + p_label)
    pkey = 'parent|' + '|'.join(parent_files[k] for k in sorted(parent_files))
    # the parent is grammatical: it must not be a mistake, and the generic oracle holds for it too
    prob = generic_problem(parent_files, parent_obs)
    if prob:
        return _fail('parent/' + prob[0], prob[1], parent_files, parent_obs, labels, pkey, known=prob[2])
    if parent_obs['exit'] == 65:
        return _fail('parent/grammatical-case-rejected/' + p_label,
                     {'what': 'a case of the grammar (valid by the manual) is reported as a mistake - generator '
                              'error or a defect outside C18'}, parent_files, parent_obs, labels, pkey)
    nontrivial = False
    key_parts = []
    known_hits = []
    for mutant in muts:
        files, infos = M.mutate(doc, mutant, tier_chars)
        opname = '+'.join(op['op'] for op in mutant) if len(mutant) <= 2 else 'multi'
        if files == parent_files:
            labels.append('identity-mutant')
            continue
        refused = [g for g in (M.gate(t) for t in files.values()) if g]
        if refused:
            labels.append('gate-refused:' + refused[0])
            continue
        obs = observe(files)
        nontrivial = True
        key = '|'.join(files[k] for k in sorted(files))
        key_parts.append(key)
        o_label = _outcome_label(obs)
        labels += ['op:' + opname, 'out:' + o_label]
        if len(mutant) > 1:
            labels += ['opm:' + op['op'] for op in mutant]
        changed = (obs['exit'], obs['out'], obs['err']) != (parent_obs['exit'], parent_obs['out'], parent_obs['err'])
        labels.append('changed' if changed else 'same-as-parent')
        if obs['exit'] == 65:
            labels.append('cat:' + _err_category(obs))
            rep = R.parse_report(obs['err'])
            labels.append('loc:' + ('act' if rep['actor'] else 'included' if len(rep['chain']) > 1 else
                                    'line' if rep['chain'] else 'none'))
        if G.INC_NAME in files and files[G.INC_NAME] != parent_files.get(G.INC_NAME):
            labels.append('in-included-file')
        extra = {'mutant_ops': mutant, 'parent_outcome': p_label, 'parent_text': parent_files['t.case']}
        prob = generic_problem(files, obs)
        if prob and not prob[2]:
            return _fail(prob[0], prob[1], files, obs, labels, key, extra=extra)
        if prob:
            # a modelled defect: reported as known at the end, the other mutants are still examined
            labels.append('known:' + prob[2])
            known_hits.append((prob, files, obs, key, extra))
        if len(mutant) == 1 and infos and infos[0][1].get('elem') is not None:
            f, info = infos[0]
            elems = doc['elems'] if f == 0 else doc['inc']
            flat, owner = G.flatten(elems)
            info = dict(info, elem_line=M.line_of_token(flat, owner.index(info['elem'])))
            kind = info['kind'].split(':')[0]
            labels.append('target:%s/%s' % (kind, info['op']))
            labels.append('instr:' + elems[info['elem']]['name'])
            demand = targeted_demand(doc, f, info) if strict else None
            if demand:
                labels += ['demand:' + kind, 'demand-out:' + o_label]
                sp = strict_problem(doc, f, info, demand, files, obs, parent_obs)
                if sp and not sp[2]:
                    return _fail(sp[0], sp[1], files, obs, labels, key, extra=extra)
                if sp:
                    labels.append('known:' + sp[2])
                    known_hits.append((sp, files, obs, key, extra))
            elif strict:
                labels.append('no-demand:' + kind)
    if known_hits:
        (b, d, k), kfiles, kobs, kkey, kextra = known_hits[0]
        return _fail(b, d, kfiles, kobs, labels, kkey, known=k, extra=kextra)
    return Verdict(True, nontrivial=nontrivial, key='\x00'.join(key_parts) if key_parts else None, labels=labels)


def check_generic(case) -> Verdict:
    return check_doc(case['doc'], case['muts'], strict=True, tier_chars=case.get('chars'))


# ---- strategies -----------------------------------------------------------------------------------------------------------
_GENERIC_WEIGHTS = {'del': 4, 'dup': 2, 'swap': 3, 'rep': 5, 'ins': 3, 'join': 2, 'split': 2, 'delline': 2, 'dupline': 1,
                    'swapline': 1, 'moveline': 1, 'hdr': 2, 'hdrins': 1, 'quote': 4, 'charins': 3, 'chardel': 2,
                    'wrongkind': 2, 'badany': 3, 'trunc': 3, 'layout': 1}


def strategy_generic(tier):
    generic = M.op_strategy(M.GENERIC_OPS, _GENERIC_WEIGHTS)
    targeted = M.op_strategy(M.TARGETED_OPS)
    mutant = st.one_of(st.lists(generic, min_size=1, max_size=1),
                       st.lists(generic, min_size=1, max_size=1),
                       st.lists(generic, min_size=2, max_size=3),
                       st.lists(targeted, min_size=1, max_size=1))
    return st.fixed_dictionaries({
        'doc': G.documents(),
        'muts': st.lists(mutant, min_size=1, max_size=4),
        'chars': st.just(M.CHARS_QUICK if tier == 'quick' else None),
    })


_FOCI = ['int', 'int', 'regex', 'regex', 'repl', 'repl', 'range', 'glob', 'ref', 'ref', 'structure']


def strategy_bad_values(tier):
    def for_focus(focus):
        if focus == 'structure':
            ops = M.op_strategy(['badhdr', 'badinstr'])
            focus = None
        elif focus == 'ref':
            ops = M.op_strategy(['wrongref'])
        elif focus == 'glob':
            ops = M.op_strategy(['extreme', 'badval'])
        else:
            ops = M.op_strategy(['badval', 'badval', 'badval', 'extreme'])
        return st.fixed_dictionaries({
            'doc': G.documents(focus),
            'muts': st.lists(st.lists(ops, min_size=1, max_size=1), min_size=1, max_size=4),
            'chars': st.none(),
        })

    return st.sampled_from(_FOCI).flatmap(for_focus)


# ---- truncation at every character of a fixed corpus ---------------------------------------------------------------------------
def corpus_doc(seed, focus=None):
    rng = random.Random(seed)
    return G.build_document_g(G.ChoiceG(lambda k: rng.randrange(k), focus))


def enum_truncations(tier):
    try:
        base = int(os.environ.get('VERIF_SEED', '1') or '1')
    except ValueError:
        base = 1
    n_docs = 10 if tier == 'quick' else 160
    chunk = 24
    for d in range(n_docs):
        seed = base * 100003 + d
        focus = [None, 'int', 'regex', 'repl', 'range', 'ref', None, 'glob'][d % 8]
        doc = corpus_doc(seed, focus)
        files = M.parent_texts(doc)
        for name in sorted(files):
            n = len(files[name])
            for start in range(0, n, chunk):
                yield {'seed': seed, 'focus': focus, 'file': name, 'from': start, 'to': min(n, start + chunk)}


def check_truncations(case) -> Verdict:
    doc = corpus_doc(case['seed'], case['focus'])
    parent = M.parent_texts(doc)
    labels = []
    keys = []
    for cut in range(case['from'], case['to']):
        files = dict(parent)
        files[case['file']] = parent[case['file']][:cut]
        if any(M.gate(t) for t in files.values()):
            labels.append('gate-refused')
            continue
        obs = observe(files)
        labels.append('out:' + _outcome_label(obs))
        if obs['exit'] == 65:
            labels.append('cat:' + _err_category(obs))
        key = '%d|%s|%s|%d' % (case['seed'], case['focus'], case['file'], cut)
        keys.append(key)
        prob = generic_problem(files, obs)
        if prob:
            return _fail('truncation/' + prob[0], prob[1], files, obs, labels, key, known=prob[2],
                         extra={'cut_at': cut, 'of_file': case['file'], 'full_text': parent[case['file']]})
    return Verdict(True, nontrivial=bool(keys), key='\x00'.join(keys) or None, labels=labels)


# ---- byte strings decoded into grammar choices and ops; the coverage-guided campaign (vlib/fuzz.py) ----------------------------
_BYTE_OPS = M.GENERIC_OPS + M.TARGETED_OPS
_BYTE_FOCI = [None, None, None, 'int', 'regex', 'repl', 'range', 'glob', 'ref']


def decode_bytes(data: bytes):
    """bytes -> case {'doc', 'muts': [one mutant of 1..3 ops], 'chars'}: byte 0 selects the focus of the grammar,
    byte 1 the number of ops, then 7 bytes per op (fixed width), the rest drives the grammar productions.  Bytes
    only ever *select* productions / ops / vocabulary entries."""
    nxt = G.byte_choices(data)
    focus = _BYTE_FOCI[nxt(len(_BYTE_FOCI))]
    n_ops = [1, 1, 1, 2, 2, 3][nxt(6)]
    ops = [M.choice_op(nxt, _BYTE_OPS) for _ in range(n_ops)]
    doc = G.build_document_g(G.ChoiceG(nxt, focus))
    if M.mutate(doc, ops)[0] == M.parent_texts(doc):
        # no eligible position for the selected ops: a deletion is always possible
        ops = [{'op': 'del', 'f': 0, 'p': ops[0]['p'], 'q': 0, 'w': 0}]
    return {'doc': doc, 'muts': [ops], 'chars': None}


def check_lean(case) -> Verdict:
    """the generic oracle on the mutants only (the parent is not run): what the campaign and lean_mutants use"""
    doc = case['doc']
    parent_files = M.parent_texts(doc)
    labels, keys, known_hits = [], [], []
    for mutant in case['muts']:
        files, infos = M.mutate(doc, mutant, case.get('chars'))
        opname = '+'.join(op['op'] for op in mutant) if len(mutant) <= 2 else 'multi'
        if files == parent_files:
            labels.append('identity-mutant')
            continue
        refused = [g for g in (M.gate(t) for t in files.values()) if g]
        if refused:
            labels.append('gate-refused:' + refused[0])
            continue
        obs = observe(files)
        key = '|'.join(files[k] for k in sorted(files))
        keys.append(key)
        labels += ['op:' + opname, 'out:' + _outcome_label(obs)]
        if obs['exit'] == 65:
            labels.append('cat:' + _err_category(obs))
        prob = generic_problem(files, obs)
        if prob and not prob[2]:
            return _fail(prob[0], prob[1], files, obs, labels, key, extra={'mutant_ops': mutant})
        if prob:
            labels.append('known:' + prob[2])
            known_hits.append((prob, files, obs, key, {'mutant_ops': mutant}))
    if known_hits:
        (b, d, k), kfiles, kobs, kkey, kextra = known_hits[0]
        return _fail(b, d, kfiles, kobs, labels, kkey, known=k, extra=kextra)
    return Verdict(True, nontrivial=bool(keys), key='\x00'.join(keys) or None, labels=labels)


def strategy_lean(tier):
    return st.binary(min_size=0, max_size=300).map(decode_bytes)


def _render_case(case):
    files = M.parent_texts(case['doc'])
    out = {'parent': files['t.case'], 'mutants': []}
    for mutant in case['muts'][:2]:
        f, _ = M.mutate(case['doc'], mutant, case.get('chars'))
        out['mutants'].append({'ops': [op['op'] for op in mutant], 'text': f['t.case']})
    return out


def _seed(focus, n_ops, ops, tail=b''):
    b = bytes([_BYTE_FOCI.index(focus), [1, 1, 1, 2, 2, 3].index(n_ops)])
    for name, p, q, w in ops:
        b += bytes([_BYTE_OPS.index(name), 0, p >> 8, p & 255, q, w >> 8, w & 255])
    return b + tail


_CAMPAIGN_SEEDS = [
    b'',
    _seed(None, 1, [('del', 7, 0, 0)], bytes(range(1, 60))),
    _seed('int', 1, [('badval', 3, 1, 0)], bytes([3, 1, 4, 1, 5, 9, 2, 6, 5, 3, 5, 8, 9, 7, 9])),
    _seed('regex', 1, [('badval', 1, 1, 2)], bytes([2, 7, 1, 8, 2, 8, 1, 8, 2, 8, 4, 5, 9, 0, 4, 5])),
    _seed('repl', 1, [('badval', 1, 1, 1)], bytes([1, 4, 1, 4, 2, 1, 3, 5, 6, 2, 3, 7, 3, 0, 9, 5])),
    _seed('ref', 1, [('wrongref', 5, 1, 9)], bytes([1, 7, 3, 2, 0, 5, 0, 8, 0, 7, 5, 6, 8, 8, 7, 7])),
    _seed(None, 2, [('quote', 9, 3, 1), ('trunc', 40, 2, 0)], bytes([5] * 30)),
    _seed(None, 1, [('badhdr', 2, 0, 3)], bytes([9, 8, 7, 6, 5, 4, 3, 2, 1] * 4)),
    _seed('glob', 1, [('extreme', 0, 1, 7)], bytes([6, 6, 2, 6, 0, 7, 0, 0, 4, 0, 1, 2, 2, 1])),
]

SUBS = [
    Sub('mutated_cases', check_generic, strategy=strategy_generic, budget={'quick': 1600, 'thorough': 48000},
        render=_render_case),
    Sub('bad_values', check_generic, strategy=strategy_bad_values, budget={'quick': 1300, 'thorough': 30000},
        render=_render_case),
    Sub('truncate_every_char', check_truncations, enumerate=enum_truncations, exhaustive=False),
    Sub('lean_mutants', check_lean, strategy=strategy_lean, budget={'quick': 600, 'thorough': 20000},
        render=_render_case),
    fuzz.fuzz_sub('coverage_campaign', 'props.c18_mistakes', 'check_lean', 'decode_bytes', 'lean_mutants',
                  runs={'quick': 800, 'thorough': 100000}, shards={'quick': 4, 'thorough': 16}, max_len=300,
                  instrument=('exactly_lib.section_document', 'exactly_lib.impls', 'exactly_lib.processing',
                              'exactly_lib.type_val_deps', 'exactly_lib.symbol', 'exactly_lib.execution',
                              'exactly_lib.util.str_', 'exactly_lib.util.parse', 'exactly_lib.util.cli_syntax'),
                  seeds=_CAMPAIGN_SEEDS, timeout_s=3000),
]
