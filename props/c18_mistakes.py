"""C18 - Mistakes in a test case are reported as such, never as internal errors.

Valid cases come from the grammar vlib/gen/c18_grammar.py (every instruction of every phase, every type), mistakes
from the operators of vlib/gen/c18_mutate.py (token deletion / duplication / transposition / replacement from the DSL
dictionary, line operators, header mutilation, quote imbalance, character insertion / deletion, truncation at any
character, wrong-type arguments, ill-formed / extreme vocabularies for every syntax element that has a form: INTEGER
(one expression per exception class eval() can raise, non-int values, values beyond Python's int -> str / float
limits), REGEX, replacement, GLOB, LINE-NUMBER-RANGE, timeout, env NAME, SYMBOL-NAME, relativity options,
here-document start / end marker, words of closed sets (status, file type, true/false, act/!act, char-case),
values that depend on a sandbox / home directory (validated late), references to symbols of the wrong type).
vlib/gen/c18_corpus.py holds one hand-written text per kind of mistake the statement names (with the outcome the
manual demands) and the regression cases; G.DEEP_CONSTRUCTS valid texts with one construct nested 20 .. 3000 deep.
Everything is run in-process through MainProgram.execute.

Oracle (property statement + `exactly help case spec`): the run terminates, no exception escapes, stdout is exactly
one identifier of the documented table and the exit code is the one the table gives for it, the identifier is not
INTERNAL_ERROR and no Python traceback of the program is printed; a report with exit code 65 names a location
(file, line, source) unless it is about the act phase, and every location any report names is true: the file is a
file of the case, the line exists, the quoted source is that line (and the following ones) of that file.
For a *targeted* mistake (one ill-formed value / one reference of the wrong type put into an instruction that is
not a definition) more is demanded: the case must be rejected (exit 65, or HARD_ERROR when the instruction runs) and
the location must be the first line of that very instruction.  Mistakes of form (symbol name, word of a closed set,
here-document never ended) are demanded to be rejected also inside definitions.
An INTERNAL_ERROR / escaped exception is bucketed by (exception type, innermost exactly_lib frame); a bucket is
either a violation or - when the observation is exactly what a listed defect predicts for this text - a known finding.
"""
import os
import random
import re
import signal

from hypothesis import strategies as st

from vlib import driver, fuzz
from vlib.gen import c18_corpus as K
from vlib.gen import c18_grammar as G
from vlib.gen import c18_mutate as M
from vlib.ref import c18_report as R
from vlib.runner import Sub, Verdict, fail

PROPERTY_ID = 'C18'
LEVEL = 'exploration'
RULE = ('a case = a grammatical test case (token list; all instructions / types / phases, optional included file, '
        'permuted phases) + 1..4 mutants, each 1..3 mutation ops; a mutant is non-trivial when its text differs from '
        'the parent and Exactly ran on it; distinct = distinct mutated text; labels: op, outcome, parent outcome, '
        '"changed" = outcome differs from the parent\'s.  bad_values: small cases built around one instruction that '
        'holds an INTEGER / REGEX / replacement / GLOB / range / symbol reference, one targeted replacement per '
        'mutant, directed at the vocabulary of the focus (int regex repl range glob ref structure path tmo name enum '
        'marker heredoc envname rel).  truncate_every_char: every prefix of 16 (quick) / 400 (thorough) generated '
        'cases and of the hand-written texts.  literal_texts: the hand-written corpus with the outcome the manual '
        'demands + the regression cases.  deep_nesting: valid texts, one construct nested N deep (only the first '
        'sentence of the property applies: documented outcome, no uncaught exception).  lean_mutants / '
        'coverage_campaign: byte strings decoded into grammar choices + ops (coverage guided by atheris).')
ASSUMPTIONS = [
    'a line is what "\\n" (after universal-newline reading) ends; line numbers in reports count those lines',
    'an ill-formed value inside a `def` is only required to be reported if and where the symbol is used (an unused '
    'definition is not validated, cf. C03); targeted demands are made for non-definition instructions only',
    'a targeted mistake in a case whose parent is SKIPPED may be SKIPPED (the manual: "the test case is not '
    'executed"); when the parent already ends in HARD_ERROR the identical HARD_ERROR is accepted (the instruction '
    'with the mistake may never run)',
    'reports about the act phase quote the act phase lines without a line number; each must be a line of the case',
    'INTEGER / REGEX / replacement validity is judged by Python itself (eval / re), as the manual defines them by '
    '"Python syntax"; `True` (a Python int) and extreme values are not required to be rejected',
    'a reference to a data-type symbol (string / list / path) in place of another symbol is not required to be '
    'rejected (conversions exist); only logic-type symbols in the wrong place are',
    'hang = no result within 20 s and again within 60 s (generated cases run for ~30 ms)',
    'an instruction that lacks its last argument may take the next line as its continuation (KF-C07-1): "missing '
    'argument" is demanded to be a SYNTAX_ERROR only at the end of the file',
    'an ill-formed value that depends on a sandbox directory (@[EXACTLY_ACT]@ ...) is validated when its instruction '
    'runs: if the parent already fails before it, the identical failure is accepted',
    'deep nesting of a valid construct may hit an implementation limit: SYNTAX_ERROR / VALIDATION_ERROR / HARD_ERROR / '
    'INTERNAL_ERROR are accepted for it (labelled), an uncaught exception or a hang is not',
    'a SYMBOL-NAME is demanded to be rejected only if it holds an ASCII character that is neither alphanumeric nor '
    '"_"; a word of a closed set only if no word of the set equals it ignoring case',
]

IDENTS_COMPLETE = ('PASS', 'FAIL', 'XFAIL', 'XPASS')
LOGIC_TYPES = {'integer-matcher', 'line-matcher', 'file-matcher', 'files-matcher', 'files-condition', 'files-source',
               'text-source', 'text-matcher', 'text-transformer', 'program'}
NAME_TYPE = {v: G.SYM_TYPE.get(k, k) for k, v in G.SYM.items()}


# ---- running ------------------------------------------------------------------------------------------------------------
def _materialise(ws, files):
    for k, v in G.HOME_FILES.items():
        ws.write(k, v)
    for e in G.EXECUTABLE:
        os.chmod(os.path.join(ws.home, e), 0o755)
    for k, v in files.items():
        ws.write(k, v)


KF5_MARKER = 'kf5-marker.txt'


def observe(files):
    """-> dict(exit, out, err, exception, timed_out, marker: was the file KF5_MARKER made in the home directory)"""
    if signal.getsignal(signal.SIGALRM) is None:
        # inside a libFuzzer campaign SIGALRM belongs to a handler Python does not know; the driver restores the
        # handler it found, which must be one Python can name
        signal.signal(signal.SIGALRM, signal.SIG_IGN)
    for attempt, timeout in enumerate((20.0, 60.0)):
        with driver.Workspace() as ws:
            _materialise(ws, files)
            r = driver.run_inproc(ws, ['t.case'], timeout_s=timeout)
            root = ws.root
            marker = os.path.exists(os.path.join(ws.home, KF5_MARKER))
        if not r.timed_out:
            break
    # (the name of the sandbox directory is random: two runs of the same text must give the same report)
    err = re.sub(r'<WS>/tmproot/exactly-[A-Za-z0-9_]{8}', '<WS>/tmproot/<SDS>', r.err.replace(root, '<WS>'))
    return {'exit': r.exit_code, 'out': r.out, 'err': err, 'exception': r.exception,
            'timed_out': r.timed_out, 'marker': marker}


def _short(obs):
    return {'exit': obs['exit'], 'out': obs['out'][:200], 'err': obs['err'][:3000],
            'exception': obs['exception'], 'timed_out': obs['timed_out']}


def ident_of(obs):
    out = obs['out']
    if out.endswith('\n') and out.count('\n') == 1 and out[:-1] in R.TABLE:
        return out[:-1]
    return None


# ---- defect models (genuine defects of the unchanged tree, see the final report) ---------------------------------------
def classify_internal(files, tb, err=None):
    """-> 'KF-C18-n' when the INTERNAL_ERROR is exactly what a modelled defect predicts for this text, else None"""
    texts = list(files.values())
    has_nul = any('\x00' in t for t in texts)
    if tb is None:
        if has_nul and re.search(r'(^|\n)Exception:\nembedded null (byte|character)\n', err or ''):
            return 'KF-C18-4'  # the same, reported by the last-resort handler of the processor (`including`)
        return None
    inner = tb['innermost_exactly']
    if tb['type'] == 'ValueError' and tb['message'] in ('embedded null byte', 'embedded null character') and has_nul:
        # KF-C18-4: a NUL character in an argument that becomes a file name / program argument / environment value
        # reaches the OS interface unchecked.  Model: the text contains NUL and the exception is the one (type and
        # message) with which CPython's OS interface refuses a string that contains NUL.
        return 'KF-C18-4'
    m = re.search(r'Name not in symbol table: "([^"]+)"', err or '')
    if m and inner == ('exactly_lib/util/symbol_table.py', 'lookup') and tb['type'] == 'KeyError' \
            and err.startswith('In [cleanup]'):
        return 'KF-C18-5' if _is_kf5(files, m.group(1)) else None
    if tb['type'] == 'ValueError' and tb['message'].startswith('Exceeds the limit (4300 digits) for integer string conv') \
            and inner == ('exactly_lib/impls/types/integer/parse_integer.py', 'validator_for_non_negative'):
        # KF-C18-8 (second face): a negative int beyond Python's int -> str limit is put into the message of the
        # validator of non-negative integers (depth options, timeout).  Model: the text holds an INTEGER -10**N, N >= 4300.
        if any(w.strip('\'"').startswith('-') and _power_of_ten(w.strip('\'"')) >= 4300 for t in texts for w in t.split()):
            return 'KF-C18-8'
        return None
    return None


def classify_escaped(files, obs, depth=0):
    """-> 'KF-C18-n' when the escaped exception is exactly what a modelled defect predicts for this text"""
    tb = R.traceback_summary(obs['exception'])
    typ = obs['exception'].split(':', 1)[0]
    inner = tb['innermost_exactly'] if tb else None
    texts = list(files.values())
    in_report_printing = bool(tb) and any(f == ('exactly_lib/common/result_reporting.py', 'print_major_blocks')
                                          for f in tb['frames'])
    if typ == 'ValueError' and 'Exceeds the limit (4300 digits) for integer string conversion' in obs['exception'] \
            and in_report_printing and ident_of(obs) in ('FAIL', 'XFAIL', 'HARD_ERROR', 'XPASS'):
        # KF-C18-8: the verdict is computed and printed, then the explanation of the failure is rendered with str() of
        # an int beyond Python's int -> str limit: ValueError escapes from the report printer.
        # Model: the text contains an INTEGER of the vocabulary whose value is beyond that limit.
        # (10**4299 has 4300 digits and is printed, 10**4300 has 4301)
        if any(_power_of_ten(w.strip('\'"')) >= 4300 for t in texts for w in t.split()):
            return 'KF-C18-8'
    if typ == 'RecursionError' and in_report_printing and ident_of(obs) in ('FAIL', 'XFAIL', 'HARD_ERROR', 'XPASS'):
        # KF-C18-11: the verdict is computed and printed, then the explanation of it - as deep as the expression /
        # the path it explains - is rendered recursively: RecursionError escapes from the report printer.
        # Model: the text holds a construct that is nested / repeated at least 100 times.
        if max([depth] + [_repetition(t) for t in texts]) >= 100:
            return 'KF-C18-11'
    return None


def _power_of_ten(word):
    """N when the word is [-]10**N (the only form of huge integers in the vocabulary), else -1"""
    m = re.fullmatch(r'-?10\*\*(\d{1,6})', word)
    return int(m.group(1)) if m else -1


def _repetition(text):
    """the largest number of times one word is repeated in a row / one of ( / occurs in a word"""
    best, run, prev = 0, 0, None
    for w in text.split():
        run = run + 1 if w == prev else 1
        prev = w
        best = max(best, run, w.count('/'), w.count('('))
    return best


def _is_kf5(files, name):
    """KF-C18-5: an instruction of an earlier phase fails (HARD_ERROR / FAIL), the `def`s after it are never executed,
    [cleanup] is run all the same and one of its instructions refers to such a symbol.
    Model (the report is about [cleanup] - checked by the caller): the same case *without the contents of [cleanup]* ends in a failure (not an error of exit code 65,
    not INTERNAL_ERROR) of a phase before [cleanup], and the missing name is defined by a `def` that is executed
    after the place of that failure (later phase, or same phase and later line) and before [cleanup]."""
    text = files['t.case']
    lines = R.file_lines(text)
    phases = R.phase_of_lines(text)
    order = R.PHASE_ORDER
    def_re = re.compile(r'^\s*def\s+\S+\s+%s\s*=' % re.escape(name))
    inc_re = re.compile(r'^\s*including\s')
    inc_defines = any(def_re.match(l) for f, t in files.items() if f != 't.case' for l in R.file_lines(t))
    def_places = [(order.index(ph), i + 1) for i, (l, ph) in enumerate(zip(lines, phases))
                  if ph not in (None, 'cleanup') and (def_re.match(l) or (inc_defines and inc_re.match(l)))]
    if not def_places:
        return False
    without = dict(files)
    without['t.case'] = '\n'.join('' if ph == 'cleanup' else l for l, ph in zip(lines, phases)) + '\n'
    obs = observe(without)
    ident = ident_of(obs)
    if obs['exception'] and not obs['timed_out'] and ident in ('HARD_ERROR', 'FAIL', 'XFAIL') \
            and classify_escaped(without, obs) in ('KF-C18-8', 'KF-C18-11'):
        # the earlier failure is reported by its verdict only: its explanation is lost to another known finding
        # (the report printer gives up on a huge number / a deep structure), so the place of the failure is not
        # printed.  Second model: an instruction put directly behind every `def` of the name is never executed.
        probed = []
        for l, ph in zip(lines, phases):
            probed.append('' if ph == 'cleanup' else l)
            if ph not in (None, 'cleanup') and def_re.match(l):
                probed.append('$ echo reached > {HOME}/' + KF5_MARKER)
        obs2 = observe(dict(files, **{'t.case': '\n'.join(probed) + '\n'}))
        return (not obs2['timed_out'] and not obs2['marker'] and ident_of(obs2) == ident
                and not inc_defines)
    if obs['exception'] or obs['timed_out']:
        return False
    if ident == 'INTERNAL_ERROR':
        # the earlier failure may itself be the known finding about NUL characters
        if classify_internal(without, R.traceback_summary(obs['err']), obs['err']) != 'KF-C18-4':
            return False
    elif ident not in ('HARD_ERROR', 'FAIL', 'XFAIL'):
        return False
    rep = R.parse_report(obs['err'])
    if rep['phase'] not in order or rep['phase'] == 'cleanup':
        return False
    if rep['actor'] is not None or not rep['chain']:
        fail_place = (order.index(rep['phase']), float('inf'))  # the act phase as a whole
    else:
        first = rep['chain'][0]  # the line of t.case (an `including` line when the failure is in an included file)
        fail_place = (order.index(rep['phase']), first[1])
        if len(rep['chain']) > 1:
            # failure inside the included file: the definitions of that file after it are skipped too
            return any(p >= fail_place for p in def_places)
    return any(p > fail_place for p in def_places)


# ---- the generic oracle -------------------------------------------------------------------------------------------------
def generic_problem(files, obs):
    """-> None | (bucket, detail dict, known id | None)"""
    if obs['timed_out']:
        return 'hang', {'what': 'no result within 20 s and again within 60 s'}, None
    if obs['exception']:
        tb = R.traceback_summary(obs['exception'])
        typ = obs['exception'].split(':', 1)[0]
        inner = tb['innermost_exactly'] if tb else None
        return ('escaped-exception/%s/%s' % (typ, '%s:%s' % inner if inner else '?'),
                {'what': 'an exception escaped from MainProgram.execute'}, classify_escaped(files, obs))
    ident = ident_of(obs)
    if ident is None:
        return 'stdout-is-not-one-identifier-line', {'what': 'stdout must be one line: an exit identifier'}, None
    if obs['exit'] != R.TABLE[ident]:
        return ('exit-code-vs-identifier/%s/%s' % (ident, obs['exit']),
                {'what': 'exit code differs from the documented one', 'documented': R.TABLE[ident]}, None)
    tb = R.traceback_summary(obs['err'])
    if ident == 'INTERNAL_ERROR' or (tb and tb['innermost_exactly']):
        known = classify_internal(files, tb, obs['err'])
        inner = tb['innermost_exactly'] if tb else None
        return ('internal-error/%s/%s' % (tb['type'] if tb else '?', '%s:%s' % inner if inner else '?'),
                {'what': 'INTERNAL_ERROR / traceback of the program for a mistake in the text of the case',
                 'traceback': tb}, known)
    if ident == 'PASS' and obs['err'] != '':
        return 'pass-with-stderr', {'what': 'PASS but something was printed on stderr'}, None
    rep = R.parse_report(obs['err'])
    if rep['actor'] is not None:
        probs = R.check_actor_source(rep, files)
        if probs:
            return 'wrong-location/act/' + ident, {'what': probs, 'report': rep}, None
        return None
    if rep['chain']:
        probs = R.check_location(rep, files)
        if probs:
            return 'wrong-location/' + ident, {'what': probs, 'report': rep}, None
    elif obs['exit'] == 65:
        return ('no-location/%s/%s' % (ident, rep['phase']),
                {'what': 'exit code 65 without a (file, line, source) location', 'report': rep}, None)
    return None


def _fail(bucket, detail, files, obs, labels, key, known=None, extra=None):
    d = {'bucket': bucket}
    d.update(detail)
    d['observed'] = _short(obs)
    d['case_text'] = files.get('t.case')
    if G.INC_NAME in files:
        d['included_file_text'] = files[G.INC_NAME]
    if extra:
        d.update(extra)
    if known:
        return Verdict(ok=False, known=known, bucket=bucket, detail=d, labels=labels + ['known:' + known],
                       nontrivial=True, key=key)
    return fail(bucket, d, labels=labels, nontrivial=True, key=key)


def _outcome_label(obs):
    if obs['timed_out']:
        return 'TIMEOUT'
    if obs['exception']:
        return 'EXCEPTION'
    return ident_of(obs) or 'OTHER'


def _err_category(obs):
    """the category line of a report ("Syntax error", ...) - a label"""
    rep = R.parse_report(obs['err'])
    for l in rep['rest']:
        if l.strip():
            if l.startswith(' ') or len(l) > 60:
                return 'message'
            return re.sub(r'[`"\':(].*', '', l).strip()[:28] or 'message'
    return 'none'


# ---- strict oracle for targeted mistakes -----------------------------------------------------------------------------------
def _strip_quotes(tok):
    if len(tok) >= 2 and tok[0] == tok[-1] and tok[0] in '\'"':
        return tok[1:-1]
    return tok


def targeted_demand(doc, f, info):
    """-> None (no demand beyond the generic oracle) | dict(why=..., idents=accepted identifiers (optional))"""
    elems = doc['elems'] if f == 0 else doc['inc']
    if info.get('elem') is None:
        return None
    elem = elems[info['elem']]
    if info['op'] == 'badhdr':
        return {'why': 'the line %r begins with `[` but is not a phase header' % info['token'],
                'idents': ('SYNTAX_ERROR',)}
    if elem['name'] in M.NOT_INSTRUCTION_ELEMENTS or elem['ph'] == 'act':
        return None
    if info['op'] == 'badinstr':
        return {'why': 'there is no instruction %r' % info['token'], 'idents': ('SYNTAX_ERROR',)}
    if info['op'] == 'badval':
        # mistakes of form: rejected when the text is read, wherever they stand (also in a definition never used)
        kind, eff = info['kind'], info['effective']
        if kind == 'name' and re.search(r'[^\w]', eff, re.ASCII if eff.isascii() else 0):
            return {'why': 'SYMBOL-NAME %r is not "a combination of alphanumeric characters and underscores"' % eff,
                    'idents': ('SYNTAX_ERROR', 'VALIDATION_ERROR')}
        if kind.startswith('enum:'):
            allowed = M.ENUM_SETS[kind.split(':')[1]]
            if eff not in allowed and eff.lower() not in [a.lower() for a in allowed]:
                return {'why': '%r is none of %s' % (eff, '|'.join(allowed)), 'idents': ('SYNTAX_ERROR', 'VALIDATION_ERROR')}
        if kind == 'marker':
            return {'why': 'the here-document is never ended: no line equals its marker %r (that line is now %r)'
                           % (info['old'], eff), 'idents': ('SYNTAX_ERROR',), 'unless_line_equals': info['old']}
    if elem['name'] == 'def':
        return None
    if info['op'] == 'wrongref':
        old_type = info['kind'].split(':', 1)[1]
        new_type = NAME_TYPE.get(info['new_name'])  # None: UNDEFINED / INC
        if info['new_name'] == 'INC':
            return None
        if new_type in ('string', 'list', 'path'):
            return None
        if new_type == old_type:
            return None
        if old_type in ('string', 'list', 'path') and new_type == 'text-source':
            return None  # the grammar writes @[S]@ also where a TEXT-SOURCE is expected
        return {'why': 'reference to %s (%s) where a %s is required' % (info['new_name'], new_type or 'undefined',
                                                                        old_type)}
    if info['op'] != 'badval':
        return None
    kind, eff = info['kind'], info['effective']
    if info['literal_ctx']:
        eff = info['token']
    if kind in ('int', 'tmo'):
        if info['prev'] == '=' and elem['name'] == 'def':
            return None
        c = R.int_class(eff)
        if c == 'int':
            return None
        return {'why': 'INTEGER %r: %s' % (eff, c)}
    if kind == 'range':
        if not R.range_invalid(eff):
            return None
        return {'why': 'LINE-NUMBER-RANGE %r is ill-formed' % eff}
    if kind == 'regex':
        if not R.regex_invalid(eff) or not R.regex_invalid(eff, True):
            return None
        return {'why': 'REGEX %r does not compile' % eff}
    if kind == 'repl':
        if info['prev_kind'] != 'regex' or '@[' in info['prev']:
            return None
        rx = _strip_quotes(info['prev'])
        if not R.template_invalid(eff, rx):
            return None
        return {'why': 'replacement %r is refused by Python for the pattern %r' % (eff, rx)}
    return None


# a value that refers to a directory of the test case (home or sandbox) is validated when its instruction runs
_LATE = re.compile(r'@\[EXACTLY_(ACT|TMP|RESULT|HOME|ACT_HOME)\]@')


def strict_problem(doc, f, info, demand, files, obs, parent_obs):
    """-> None | (bucket, detail, known)"""
    ident = ident_of(obs)
    p_ident = ident_of(parent_obs)
    fname = 't.case' if f == 0 else G.INC_NAME
    want_line = info['elem_line']
    if 'unless_line_equals' in demand and demand['unless_line_equals'] in R.file_lines(files[fname]):
        return None  # another line of the file ends the here-document
    detail = {'mistake': demand['why'], 'mutated_token': info['token'], 'replaced': info['old'],
              'file': fname, 'instruction_first_line': want_line, 'parent_outcome': p_ident}
    kind = info['kind'].split(':')[0]
    if ident in demand.get('idents', ('SYNTAX_ERROR', 'VALIDATION_ERROR', 'HARD_ERROR')):
        if p_ident == 'HARD_ERROR' and ident == 'HARD_ERROR' and obs['err'] == parent_obs['err']:
            return None  # the parent stops before the instruction runs
        rep = R.parse_report(obs['err'])
        if not rep['chain'] and rep['actor'] is not None and ident == 'HARD_ERROR' and info.get('elem_name') == 'stdin' \
                and _LATE.search(info['token']):
            # the contents of stdin are produced when the act phase reads them: a value of `stdin = ...` that depends
            # on the sandbox is validated then, and the report is the one of the act phase ("Stdin set in [setup]")
            return None
        if not rep['chain']:
            return 'targeted-no-location/%s/%s' % (kind, ident), dict(detail, what='report without location'), None
        last = rep['chain'][-1]
        got_file = os.path.normpath(last[0]) if last[0] else 't.case'
        if (got_file, last[1]) != (fname, want_line):
            return ('targeted-wrong-line/%s/%s' % (kind, ident),
                    dict(detail, what='the report does not point at the instruction that holds the mistake',
                         reported=[got_file, last[1]]), None)
        return None
    if ident == 'SKIPPED' and p_ident == 'SKIPPED' and 'idents' not in demand:
        return None
    if _LATE.search(info['token']) and p_ident in ('FAIL', 'XFAIL', 'HARD_ERROR') and 'idents' not in demand and \
            (obs['exit'], obs['out'], obs['err']) == (parent_obs['exit'], parent_obs['out'], parent_obs['err']):
        # a value that depends on a directory of the test case is validated when its instruction runs ("at the
        # latest as HARD_ERROR when the instruction runs"); the parent fails before that, the mutant fails identically
        return None
    if _LATE.search(info['token']) and info.get('elem_name') == 'stdin' and info.get('n_stdin', 0) > 1 and \
            (obs['exit'], obs['out'], obs['err']) == (parent_obs['exit'], parent_obs['out'], parent_obs['err']):
        # the contents of stdin are produced when the act phase reads them; a `stdin` that a later `stdin` replaces
        # is like a definition that is never used: its value is never produced
        return None
    if ident == 'INTERNAL_ERROR':
        return None  # the generic oracle has reported / classified it
    if ident in IDENTS_COMPLETE or ident == 'SKIPPED' or 'idents' in demand:
        return ('targeted-mistake-accepted/%s/%s' % (kind, ident),
                dict(detail, what='the mistake is silently accepted'), None)
    return None


# ---- the check of one document with its mutants -------------------------------------------------------------------------------
def check_doc(doc, muts, strict, tier_chars):
    labels = []
    parent_files = M.parent_texts(doc)
    for t in parent_files.values():
        if M.gate(t):
            return Verdict(True, labels=['gate-refused-parent'])
    parent_obs = observe(parent_files)
    p_label = _outcome_label(parent_obs)
    labels.append('parent:' + p_label)
    pkey = 'parent|' + '|'.join(parent_files[k] for k in sorted(parent_files))
    # the parent is grammatical: it must not be a mistake, and the generic oracle holds for it too
    prob = generic_problem(parent_files, parent_obs)
    if prob:
        return _fail('parent/' + prob[0], prob[1], parent_files, parent_obs, labels, pkey, known=prob[2])
    if parent_obs['exit'] == 65:
        return _fail('parent/grammatical-case-rejected/' + p_label,
                     {'what': 'a case of the grammar (valid by the manual) is reported as a mistake - generator '
                              'error or a defect outside C18'}, parent_files, parent_obs, labels, pkey)
    nontrivial = False
    key_parts = []
    known_hits = []
    for mutant in muts:
        files, infos = M.mutate(doc, mutant, tier_chars)
        opname = '+'.join(op['op'] for op in mutant) if len(mutant) <= 2 else 'multi'
        if files == parent_files:
            labels.append('identity-mutant')
            continue
        refused = [g for g in (M.gate(t) for t in files.values()) if g]
        if refused:
            labels.append('gate-refused:' + refused[0])
            continue
        obs = observe(files)
        nontrivial = True
        key = '|'.join(files[k] for k in sorted(files))
        key_parts.append(key)
        o_label = _outcome_label(obs)
        labels += ['op:' + opname, 'out:' + o_label]
        if len(mutant) > 1:
            labels += ['opm:' + op['op'] for op in mutant]
        changed = (obs['exit'], obs['out'], obs['err']) != (parent_obs['exit'], parent_obs['out'], parent_obs['err'])
        labels.append('changed' if changed else 'same-as-parent')
        if obs['exit'] == 65:
            labels.append('cat:' + _err_category(obs))
            rep = R.parse_report(obs['err'])
            labels.append('loc:' + ('act' if rep['actor'] else 'included' if len(rep['chain']) > 1 else
                                    'line' if rep['chain'] else 'none'))
        if G.INC_NAME in files and files[G.INC_NAME] != parent_files.get(G.INC_NAME):
            labels.append('in-included-file')
        extra = {'mutant_ops': mutant, 'parent_outcome': p_label, 'parent_text': parent_files['t.case']}
        prob = generic_problem(files, obs)
        if prob and not prob[2]:
            return _fail(prob[0], prob[1], files, obs, labels, key, extra=extra)
        if prob:
            # a modelled defect: reported as known at the end, the other mutants are still examined
            labels.append('known:' + prob[2])
            known_hits.append((prob, files, obs, key, extra))
        if len(mutant) == 1 and infos and infos[0][1].get('elem') is not None:
            f, info = infos[0]
            elems = doc['elems'] if f == 0 else doc['inc']
            flat, owner = G.flatten(elems)
            info = dict(info, elem_line=M.line_of_token(flat, owner.index(info['elem'])),
                        elem_name=elems[info['elem']]['name'],
                        n_stdin=sum(1 for e in doc['elems'] + (doc['inc'] or []) if e['name'] == 'stdin'))
            kind = info['kind'].split(':')[0]
            labels.append('target:%s/%s' % (kind, info['op']))
            labels.append('instr:' + elems[info['elem']]['name'])
            demand = targeted_demand(doc, f, info) if strict else None
            if demand:
                labels += ['demand:' + kind, 'demand-out:' + o_label]
                sp = strict_problem(doc, f, info, demand, files, obs, parent_obs)
                if sp and not sp[2]:
                    return _fail(sp[0], sp[1], files, obs, labels, key, extra=extra)
                if sp:
                    labels.append('known:' + sp[2])
                    known_hits.append((sp, files, obs, key, extra))
            elif strict:
                labels.append('no-demand:' + kind)
    if known_hits:
        (b, d, k), kfiles, kobs, kkey, kextra = known_hits[0]
        return _fail(b, d, kfiles, kobs, labels, kkey, known=k, extra=kextra)
    return Verdict(True, nontrivial=nontrivial, key='\x00'.join(key_parts) if key_parts else None, labels=labels)


def check_generic(case) -> Verdict:
    return check_doc(case['doc'], case['muts'], strict=True, tier_chars=case.get('chars'))


# ---- strategies -----------------------------------------------------------------------------------------------------------
_GENERIC_WEIGHTS = {'del': 4, 'dup': 2, 'swap': 3, 'rep': 5, 'ins': 3, 'join': 2, 'split': 2, 'delline': 2, 'dupline': 1,
                    'swapline': 1, 'moveline': 1, 'hdr': 2, 'hdrins': 1, 'quote': 4, 'charins': 3, 'chardel': 2,
                    'wrongkind': 2, 'badany': 3, 'trunc': 3, 'layout': 1}


def strategy_generic(tier):
    generic = M.op_strategy(M.GENERIC_OPS, _GENERIC_WEIGHTS)
    targeted = M.op_strategy(M.TARGETED_OPS)
    mutant = st.one_of(st.lists(generic, min_size=1, max_size=1),
                       st.lists(generic, min_size=1, max_size=1),
                       st.lists(generic, min_size=2, max_size=3),
                       st.lists(targeted, min_size=1, max_size=1))
    return st.fixed_dictionaries({
        'doc': G.documents(),
        'muts': st.lists(mutant, min_size=1, max_size=4),
        'chars': st.just(M.CHARS_QUICK if tier == 'quick' else None),
    })


_FOCI = ['int', 'int', 'regex', 'regex', 'repl', 'repl', 'range', 'glob', 'glob', 'ref', 'ref', 'structure',
         'path', 'path', 'tmo', 'name', 'enum', 'marker', 'heredoc', 'envname', 'rel', 'act', 'act']


def strategy_bad_values(tier):
    def for_focus(focus):
        if focus == 'structure':
            ops = M.op_strategy(['badhdr', 'badinstr', 'actbad'])
            focus = None
        elif focus == 'act':
            ops = M.op_strategy(['actbad'])
            focus = None
        elif focus == 'ref':
            ops = M.op_strategy(['wrongref'])
        elif not M.BAD[focus]:
            ops = M.op_strategy(['extreme']).map(lambda op: dict(op, k=focus))
        elif focus in ('tmo', 'name', 'enum', 'marker'):
            ops = M.op_strategy(['badval', 'extreme']).map(lambda op: dict(op, k=focus))
        else:
            ops = M.op_strategy(['badval', 'badval', 'badval', 'extreme']).map(lambda op: dict(op, k=focus))
        return st.fixed_dictionaries({
            'doc': G.documents(focus),
            'muts': st.lists(st.lists(ops, min_size=1, max_size=1), min_size=1, max_size=4),
            'chars': st.none(),
        })

    return st.sampled_from(_FOCI).flatmap(for_focus)


# ---- truncation at every character of a fixed corpus ---------------------------------------------------------------------------
def corpus_doc(seed, focus=None):
    rng = random.Random(seed)
    return G.build_document_g(G.ChoiceG(lambda k: rng.randrange(k), focus))


_TRUNC_FOCI = [None, 'int', 'regex', 'repl', 'range', 'ref', None, 'glob', 'path', 'tmo', None, 'name', 'enum', 'marker',
               'heredoc', 'envname', 'rel', None]


def enum_truncations(tier):
    try:
        base = int(os.environ.get('VERIF_SEED', '1') or '1')
    except ValueError:
        base = 1
    n_docs = 16 if tier == 'quick' else 400
    chunk = 24
    for d in range(n_docs):
        seed = base * 100003 + d
        focus = _TRUNC_FOCI[d % len(_TRUNC_FOCI)]
        doc = corpus_doc(seed, focus)
        files = M.parent_texts(doc)
        for name in sorted(files):
            n = len(files[name])
            for start in range(0, n, chunk):
                yield {'seed': seed, 'focus': focus, 'file': name, 'from': start, 'to': min(n, start + chunk)}
    # the hand-written texts (each holds one mistake / one unusual value): all of them in the thorough tier, one
    # in eight (chosen by the seed) in the quick tier
    for i, e in enumerate(K.entries()):
        if tier == 'quick' and i % 8 != base % 8:
            continue
        n = min(len(e['files']['t.case']), 400)
        for start in range(0, n, chunk):
            yield {'corpus': e['name'], 'file': 't.case', 'from': start, 'to': min(n, start + chunk)}


def check_truncations(case) -> Verdict:
    if 'corpus' in case:
        parent = [e for e in K.entries() if e['name'] == case['corpus']][0]['files']
        ident = 'corpus:' + case['corpus']
    else:
        parent = M.parent_texts(corpus_doc(case['seed'], case['focus']))
        ident = '%d|%s' % (case['seed'], case['focus'])
    labels = []
    keys = []
    for cut in range(case['from'], case['to']):
        files = dict(parent)
        files[case['file']] = parent[case['file']][:cut]
        if any(M.gate(t) for t in files.values()):
            labels.append('gate-refused')
            continue
        obs = observe(files)
        labels.append('out:' + _outcome_label(obs))
        if obs['exit'] == 65:
            labels.append('cat:' + _err_category(obs))
        key = '%s|%s|%d' % (ident, case['file'], cut)
        keys.append(key)
        prob = generic_problem(files, obs)
        if prob:
            return _fail('truncation/' + prob[0], prob[1], files, obs, labels, key, known=prob[2],
                         extra={'cut_at': cut, 'of_file': case['file'], 'full_text': parent[case['file']]})
    return Verdict(True, nontrivial=bool(keys), key='\x00'.join(keys) or None, labels=labels)


# ---- hand-written texts (vlib/gen/c18_corpus.py) and the regression cases ------------------------------------------------------
_EXPECT = {'SYNTAX': ('SYNTAX_ERROR',), 'VALIDATION': ('VALIDATION_ERROR',), 'REJECT': ('SYNTAX_ERROR', 'VALIDATION_ERROR'),
           'REJECT|HARD': ('SYNTAX_ERROR', 'VALIDATION_ERROR', 'HARD_ERROR'), 'ACCESS': ('FILE_ACCESS_ERROR',)}


def enum_literal(tier):
    for e in K.entries():
        yield e


def check_literal(case) -> Verdict:
    """case = {'name', 'files': {name: text}, 'expect': key of _EXPECT | None, 'line': int | None}"""
    files = case['files']
    labels = ['literal:' + (case.get('expect') or 'generic')]
    obs = observe(files)
    labels.append('out:' + _outcome_label(obs))
    key = 'literal|' + case.get('name', '') + '|' + '|'.join(files[k] for k in sorted(files))
    prob = generic_problem(files, obs)
    if prob:
        return _fail('literal/' + prob[0], prob[1], files, obs, labels, key, known=prob[2], extra={'name': case.get('name')})
    want = _EXPECT.get(case.get('expect'))
    ident = ident_of(obs)
    if want and ident not in want:
        return _fail('literal/expected-%s/%s' % (case['expect'], ident),
                     {'what': 'the mistake %r must be reported as one of %s' % (case.get('name'), '/'.join(want))},
                     files, obs, labels, key)
    if want and case.get('line'):
        rep = R.parse_report(obs['err'])
        got = rep['chain'][0][1] if rep['chain'] else None
        if got != case['line']:
            return _fail('literal/wrong-line/%s' % ident,
                         {'what': 'the report of %r must point at line %d of t.case' % (case.get('name'), case['line']),
                          'reported_line': got}, files, obs, labels, key)
    return Verdict(True, nontrivial=True, key=key, labels=labels)


# ---- deep nesting: valid texts, only the generic first sentence of the property applies -------------------------------------
def enum_deep(tier):
    for name in sorted(G.DEEP_CONSTRUCTS):
        for n in G.DEEP_DEPTHS[tier]:
            yield {'construct': name, 'depth': n}


def check_deep(case) -> Verdict:
    """the text is valid whatever the depth: Exactly must terminate with a documented outcome and without an
    uncaught exception; an implementation limit may show as SYNTAX_ERROR / VALIDATION_ERROR / HARD_ERROR /
    INTERNAL_ERROR (labelled), the location of a report must be true"""
    text = G.DEEP_CONSTRUCTS[case['construct']](case['depth'])
    files = {'t.case': text}
    labels = ['deep:' + case['construct']]
    obs = observe(files)
    o = _outcome_label(obs)
    labels += ['out:' + o, 'deep-out:%s@%d' % (o, case['depth'])]
    key = 'deep|%s|%d' % (case['construct'], case['depth'])
    brief = {'construct': case['construct'], 'depth': case['depth'], 'text_head': text[:300]}

    def failed(bucket, what, known=None):
        d = {'bucket': bucket, 'what': what, 'observed': _short(obs)}
        d.update(brief)
        if known:
            return Verdict(ok=False, known=known, bucket=bucket, detail=d, labels=labels + ['known:' + known],
                           nontrivial=True, key=key)
        return fail(bucket, d, labels=labels, nontrivial=True, key=key)

    if obs['timed_out']:
        return failed('deep/hang', 'no result within 20 s and again within 60 s')
    if obs['exception']:
        tb = R.traceback_summary(obs['exception'])
        typ = obs['exception'].split(':', 1)[0]
        inner = tb['innermost_exactly'] if tb else None
        known = classify_escaped(files, obs, case['depth'])
        return failed('deep/escaped-exception/%s/%s' % (typ, '%s:%s' % inner if inner else '?'),
                      'an exception escaped from MainProgram.execute', known)
    ident = ident_of(obs)
    if ident is None:
        return failed('deep/stdout-is-not-one-identifier-line', 'stdout must be one line: an exit identifier')
    if obs['exit'] != R.TABLE[ident]:
        return failed('deep/exit-code-vs-identifier/%s/%s' % (ident, obs['exit']), 'exit code differs from the documented one')
    if ident != 'INTERNAL_ERROR':
        rep = R.parse_report(obs['err'])
        if rep['actor'] is None and rep['chain']:
            probs = R.check_location(rep, files)
            if probs:
                return failed('deep/wrong-location/' + ident, probs)
    return Verdict(True, nontrivial=True, key=key, labels=labels)


# ---- byte strings decoded into grammar choices and ops; the coverage-guided campaign (vlib/fuzz.py) ----------------------------
_BYTE_OPS = M.GENERIC_OPS + M.TARGETED_OPS
_BYTE_FOCI = [None, None, None, 'int', 'regex', 'repl', 'range', 'glob', 'ref', 'path', 'tmo', 'name', 'enum', 'marker',
              'heredoc', 'envname', 'rel']


def decode_bytes(data: bytes):
    """bytes -> case {'doc', 'muts': [one mutant of 1..3 ops], 'chars'}: byte 0 selects the focus of the grammar,
    byte 1 the number of ops, then 7 bytes per op (fixed width), the rest drives the grammar productions.  Bytes
    only ever *select* productions / ops / vocabulary entries."""
    nxt = G.byte_choices(data)
    focus = _BYTE_FOCI[nxt(len(_BYTE_FOCI))]
    n_ops = [1, 1, 1, 2, 2, 3][nxt(6)]
    ops = [M.choice_op(nxt, _BYTE_OPS) for _ in range(n_ops)]
    if focus in M.EXTREME:
        ops = [dict(op, k=focus) if op['op'] in ('badval', 'extreme') else op for op in ops]
    doc = G.build_document_g(G.ChoiceG(nxt, focus))
    if M.mutate(doc, ops)[0] == M.parent_texts(doc):
        # no eligible position for the selected ops: a deletion is always possible
        ops = [{'op': 'del', 'f': 0, 'p': ops[0]['p'], 'q': 0, 'w': 0}]
    return {'doc': doc, 'muts': [ops], 'chars': None}


def check_lean(case) -> Verdict:
    """the generic oracle on the mutants only (the parent is not run): what the campaign and lean_mutants use"""
    doc = case['doc']
    parent_files = M.parent_texts(doc)
    labels, keys, known_hits = [], [], []
    for mutant in case['muts']:
        files, infos = M.mutate(doc, mutant, case.get('chars'))
        opname = '+'.join(op['op'] for op in mutant) if len(mutant) <= 2 else 'multi'
        if files == parent_files:
            labels.append('identity-mutant')
            continue
        refused = [g for g in (M.gate(t) for t in files.values()) if g]
        if refused:
            labels.append('gate-refused:' + refused[0])
            continue
        obs = observe(files)
        key = '|'.join(files[k] for k in sorted(files))
        keys.append(key)
        labels += ['op:' + opname, 'out:' + _outcome_label(obs)]
        if obs['exit'] == 65:
            labels.append('cat:' + _err_category(obs))
        prob = generic_problem(files, obs)
        if prob and not prob[2]:
            return _fail(prob[0], prob[1], files, obs, labels, key, extra={'mutant_ops': mutant})
        if prob:
            labels.append('known:' + prob[2])
            known_hits.append((prob, files, obs, key, {'mutant_ops': mutant}))
    if known_hits:
        (b, d, k), kfiles, kobs, kkey, kextra = known_hits[0]
        return _fail(b, d, kfiles, kobs, labels, kkey, known=k, extra=kextra)
    return Verdict(True, nontrivial=bool(keys), key='\x00'.join(keys) or None, labels=labels)


def strategy_lean(tier):
    return st.binary(min_size=0, max_size=300).map(decode_bytes)


def _render_case(case):
    files = M.parent_texts(case['doc'])
    out = {'parent': files['t.case'], 'mutants': []}
    for mutant in case['muts'][:2]:
        f, _ = M.mutate(case['doc'], mutant, case.get('chars'))
        out['mutants'].append({'ops': [op['op'] for op in mutant], 'text': f['t.case']})
    return out


def _seed(focus, n_ops, ops, tail=b''):
    b = bytes([_BYTE_FOCI.index(focus), [1, 1, 1, 2, 2, 3].index(n_ops)])
    for name, p, q, w in ops:
        b += bytes([_BYTE_OPS.index(name), 0, p >> 8, p & 255, q, w >> 8, w & 255])
    return b + tail


_CAMPAIGN_SEEDS = [
    b'',
    _seed(None, 1, [('del', 7, 0, 0)], bytes(range(1, 60))),
    _seed('int', 1, [('badval', 3, 1, 0)], bytes([3, 1, 4, 1, 5, 9, 2, 6, 5, 3, 5, 8, 9, 7, 9])),
    _seed('regex', 1, [('badval', 1, 1, 2)], bytes([2, 7, 1, 8, 2, 8, 1, 8, 2, 8, 4, 5, 9, 0, 4, 5])),
    _seed('repl', 1, [('badval', 1, 1, 1)], bytes([1, 4, 1, 4, 2, 1, 3, 5, 6, 2, 3, 7, 3, 0, 9, 5])),
    _seed('ref', 1, [('wrongref', 5, 1, 9)], bytes([1, 7, 3, 2, 0, 5, 0, 8, 0, 7, 5, 6, 8, 8, 7, 7])),
    _seed(None, 2, [('quote', 9, 3, 1), ('trunc', 40, 2, 0)], bytes([5] * 30)),
    _seed(None, 1, [('badhdr', 2, 0, 3)], bytes([9, 8, 7, 6, 5, 4, 3, 2, 1] * 4)),
    _seed('glob', 1, [('extreme', 0, 1, 7)], bytes([6, 6, 2, 6, 0, 7, 0, 0, 4, 0, 1, 2, 2, 1])),
    _seed('path', 1, [('extreme', 3, 1, 11)], bytes([2, 4, 6, 8, 1, 3, 5, 7, 9, 0, 2, 4, 6, 8])),
    _seed('tmo', 1, [('extreme', 0, 2, 5)], bytes([1, 1, 2, 3, 5, 8, 13, 21, 34, 55, 89, 144])),
    _seed('name', 1, [('badval', 0, 0, 3)], bytes([3, 3, 3, 1, 1, 1, 2, 2, 2, 0, 0, 0])),
    _seed('enum', 1, [('badval', 2, 1, 4)], bytes([7, 1, 7, 2, 7, 3, 7, 4, 7, 5, 7, 6])),
    _seed('marker', 1, [('badval', 1, 1, 0)], bytes([4, 0, 4, 1, 4, 2, 4, 3, 4, 4, 4, 5])),
    _seed('rel', 1, [('extreme', 4, 3, 16)], bytes([9, 9, 8, 8, 7, 7, 6, 6, 5, 5, 4, 4])),
]

SUBS = [
    Sub('mutated_cases', check_generic, strategy=strategy_generic, budget={'quick': 1600, 'thorough': 48000},
        render=_render_case),
    Sub('bad_values', check_generic, strategy=strategy_bad_values, budget={'quick': 1300, 'thorough': 30000},
        render=_render_case),
    Sub('truncate_every_char', check_truncations, enumerate=enum_truncations, exhaustive=False),
    Sub('literal_texts', check_literal, enumerate=enum_literal, exhaustive=False),
    Sub('deep_nesting', check_deep, enumerate=enum_deep, exhaustive=False),
    Sub('lean_mutants', check_lean, strategy=strategy_lean, budget={'quick': 600, 'thorough': 20000},
        render=_render_case),
    fuzz.fuzz_sub('coverage_campaign', 'props.c18_mistakes', 'check_lean', 'decode_bytes', 'lean_mutants',
                  runs={'quick': 800, 'thorough': 100000}, shards={'quick': 4, 'thorough': 16}, max_len=300,
                  instrument=('exactly_lib.section_document', 'exactly_lib.impls', 'exactly_lib.processing',
                              'exactly_lib.type_val_deps', 'exactly_lib.symbol', 'exactly_lib.execution',
                              'exactly_lib.util.str_', 'exactly_lib.util.parse', 'exactly_lib.util.cli_syntax'),
                  seeds=_CAMPAIGN_SEEDS, timeout_s=3000),
]
