"""C18 coverage-guided campaign: `python -m props.c18_fuzz FINDINGS.jsonl RUNS SEED`  (one OS process; started by
props/c18_mistakes.py:check_campaign).  libFuzzer (atheris) mutates byte strings; `decode_bytes` turns a byte string
into grammar choices + mutation ops (structured, harmless by construction); the oracle is the same `check_generic`
as everywhere else.  A finding never stops the campaign: it is appended to FINDINGS.jsonl (smallest input per
bucket); FINDINGS.jsonl.stats carries the counts.  Bounded by -runs, seeded by -seed: no time limits.
"""
import collections
import json
import os
import signal
import sys

INSTRUMENTED = ['exactly_lib.section_document', 'exactly_lib.impls', 'exactly_lib.processing',
                'exactly_lib.type_val_deps', 'exactly_lib.symbol', 'exactly_lib.execution', 'exactly_lib.util.str_',
                'exactly_lib.util.parse', 'exactly_lib.util.cli_syntax']


def main():
    findings_path, runs, seed = sys.argv[1], int(sys.argv[2]), int(sys.argv[3])
    import atheris
    from vlib import driver
    with atheris.instrument_imports(include=INSTRUMENTED, enable_loader_override=False):
        driver._import_exactly()
        driver.new_main_program()
        import exactly_lib.impls.types.integer.evaluate_integer  # noqa
        import exactly_lib.impls.types.string_transformer.impl.replace.impl  # noqa
    from props import c18_mistakes as C

    stats = {'executions': 0, 'labels': collections.Counter(), 'harness_errors': []}
    best = {}
    state = {'first': True}

    def write_stats():
        with open(findings_path + '.stats.tmp', 'w') as f:
            json.dump({'executions': stats['executions'], 'labels': dict(stats['labels']),
                       'harness_errors': stats['harness_errors'][:5]}, f)
        os.replace(findings_path + '.stats.tmp', findings_path + '.stats')

    def one(data):
        if state['first']:
            # libFuzzer owns SIGALRM / ITIMER_REAL for its own time-out; the driver needs both (and restores what it
            # found, which must be something Python knows)
            signal.signal(signal.SIGALRM, signal.SIG_IGN)
            signal.setitimer(signal.ITIMER_REAL, 0)
            state['first'] = False
        stats['executions'] += 1
        try:
            v = C.check_generic(C.decode_bytes(bytes(data)))
        except Exception as ex:  # a harness error must be visible, not a crash of the fuzzer
            stats['harness_errors'].append('%s: %s' % (type(ex).__name__, ex))
            write_stats()
            return
        for l in v.labels:
            stats['labels'][l] += 1
        if not v.ok and not v.inconclusive:
            cur = best.get(v.bucket)
            if cur is None or len(data) < cur:
                best[v.bucket] = len(data)
                with open(findings_path, 'a') as f:
                    f.write(json.dumps({'hex': bytes(data).hex(), 'bucket': v.bucket, 'known': v.known,
                                        'detail': v.detail}, default=str) + '\n')
        if stats['executions'] % 20 == 0 or stats['executions'] >= runs - 3:
            write_stats()

    corpus = os.path.join(os.path.dirname(findings_path), 'corpus')
    os.makedirs(corpus, exist_ok=True)
    argv = [sys.argv[0], '-runs=%d' % runs, '-seed=%d' % seed, '-max_len=300', '-len_control=0', '-timeout=300',
            '-rss_limit_mb=4000', '-print_final_stats=1', '-verbosity=1', corpus]
    atheris.Setup(argv, one)
    write_stats()
    atheris.Fuzz()


if __name__ == '__main__':
    main()
