"""C12 - Paths resolve under their relativity root; home directories are write-protected.

Every case is a small test case made of symbol definitions (`def path`, chains via `-rel SYM`, `@[SYM]@/x`,
`@[SYM]@`, string symbols inside the FILE-NAME, a path symbol routed through a string symbol), `cd`, and *uses* of
PATHs at the instruction arguments the manual documents: destinations (file / dir / copy DESTINATION, creating and
modifying forms) and reading arguments (copy SOURCE, -contents-of, dir-contents-of, -existing-file|dir|path, the
executable of a PROGRAM, stdin / -stdin, the executable of [act], cd, exists, contents, dir-contents), in setup /
before-assert / assert / cleanup (and [act]).

Observation: the case runs with --keep.  Every root directory (home, act-home, act, tmp, result, every directory
the case may `cd` to, the directory of the case file and of an included file, a directory outside everything) holds
the same small tree whose file contents name their own location, so *what was read* and *where something was made*
identifies the root and the suffix that were really used.  The whole sandbox (act, tmp, result), the home area and
the outside area are compared with the tree the reference model (vlib/ref/c12_paths.py) predicts; rendered paths
(`@[P]@` inside a file, a shell line, a probe argument, `% echo -existing-path P`) are compared as strings.

Oracle (from the manual, see vlib/ref/c12_paths.py): (A) path = documented root + suffix, -rel-cd at time of use;
(B) destination arguments: an option the argument does not list => SYNTAX_ERROR, a symbol whose relativity it does
not list (however long the chain) => VALIDATION_ERROR, nothing executed; reading arguments: a listed relativity is
accepted and resolved, an unlisted one is either rejected before execution or resolved correctly; (C) home area and
the area outside byte-identical after every case (also after rejected ones).
"""
import os

from hypothesis import strategies as st

from vlib import driver
from vlib.gen import c12_gen as gen
from vlib.ref import c12_paths as ref
from vlib.runner import Sub, Verdict, fail

PROPERTY_ID = 'C12'
LEVEL = 'exploration'
RULE = ('cases = [conf] home/act-home redirection (also from an included file) x instructions: def path with every '
        'relativity incl. -rel-here in (nested) included files, chains through -rel SYM / @[SYM]@/x / @[SYM]@ / a '
        'string symbol over a path symbol, the builtin path symbols, string symbols (also defined via other string '
        'symbols) and ./ // x/../ decorations in the FILE-NAME, three quoting styles, cd, uses at 7 destination forms '
        '(file = / empty / +=, dir / = / +=, copy DESTINATION incl. RELATIVITY only and none) and 13 reading arguments '
        '(copy SOURCE, cd, -contents-of, dir-contents-of, -existing-file|dir|path, program path, stdin, -stdin of a '
        'program, exists, contents, dir-contents, [act] executable and argument; also inside text-source / program / '
        'files-source symbols) in setup / before-assert / assert / cleanup (+ [act]). Enumerated: dest_matrix and '
        'read_matrix = argument x phase x (default | every option | chain over every base relativity x every '
        'combination of link kinds up to depth 3 (quick, deep chains thinned) / 4 (thorough) x 4 ways of using the last '
        'symbol, suffix shapes rotating); cd_matrix = argument x phase x (-rel-cd / default-cd symbol, alone or as base '
        'of a chain) defined before 1-2 cd then used. Random (paths): up to 16 instructions valid by construction '
        'against the reference model, one case in three ends with one irregular use (unaccepted option, symbol chain '
        'of depth 1-4 with an unaccepted relativity, absolute FILE-NAME + RELATIVITY, absolute destination, leading '
        'path symbol + RELATIVITY, -rel-here outside def, path symbol through a string symbol). Non-trivial = a use '
        'whose value comes through >= 1 symbol or a non-default relativity; distinct = distinct case')
ASSUMPTIONS = [
    'the "Accepted relativities" tables were transcribed by hand from the help pages; sub-check manual_agrees '
    'compares the transcription with the help text of the tree under test',
    'a READING argument given a relativity (option, -rel-here, or symbol) that its help page does not list: the '
    'property restricts only arguments that designate a file or directory to create or modify, so rejection before '
    'execution and acceptance with the correct resolution are both accepted (a listed relativity must be accepted; '
    'destination arguments stay strict)',
    'FILES-SOURCE `dir-contents-of PATH` has no relativity table in the manual and TEXT-SOURCE `-contents-of` lists '
    'no -rel-result although the phase decides: for these cells acceptance with correct resolution and rejection '
    'are both accepted',
    'a FILE-NAME that contains a string symbol whose value refers to a path symbol: a destination must reject it '
    '(the path symbol is "routed through" a definition); for a reading argument the manual is silent - resolution as '
    'written and rejection are both accepted',
    'invalid usage "absolute FILE-NAME together with a RELATIVITY": accepted outcomes are a rejection before '
    'execution (SYNTAX_ERROR / VALIDATION_ERROR) or the literal reading root + FILE-NAME (below the root; a missing '
    'file there gives VALIDATION_ERROR / HARD_ERROR); escaping the root is the defect KF-C12-1',
    'an absolute FILE-NAME without RELATIVITY given to a destination argument is expected to be rejected like a '
    'path symbol with an absolute value (property text; "Exactly prevents modification of the contents of these '
    'directories" in `help concept "home directory structure"`): acceptance is reported as KF-C12-2',
    '`stdin = -contents-of PATH`: the manual does not say whether the file is read when the instruction is executed '
    'or when [act] starts (the implementation does the latter); the instruction is generated as the last one of '
    '[setup] so that both readings agree',
    'rendered paths are compared after dropping "." and empty components (".." is kept)',
    'file modes and time stamps are not compared; `cd` goes to sandbox directories only (except as the last '
    'instruction of an enumerated case)',
]

IDENT_EXIT = {'PASS': 0, 'SYNTAX_ERROR': 65, 'VALIDATION_ERROR': 65, 'HARD_ERROR': 128, 'FAIL': 32,
              'INTERNAL_ERROR': 129, 'FILE_ACCESS_ERROR': 65}
STD_RESULT = ('result/stdout', 'result/stderr', 'result/exit-code')


# ---- rendering ---------------------------------------------------------------------------------------------------
def render_expr(e):
    tok = ''
    if e.get('lead') is not None:
        tok += '@[%s]@' % e['lead']
    refs = e.get('lead') is not None
    for t, v in e['name']:
        if t == 'l':
            tok += v
        else:
            tok += '@[%s]@' % v
            refs = True
    q = e.get('q', 0)
    if q == 0 and (' ' in tok):
        q = 1
    if q == 2 and refs:
        q = 1
    if tok:
        tok = tok if q == 0 else ('"%s"' % tok if q == 1 else "'%s'" % tok)
    rel = e.get('rel')
    opt = '' if rel is None else ('-rel ' + rel[4:] if rel.startswith('sym:') else ref.OPTION[rel])
    return ' '.join(x for x in (opt, tok) if x)


def _matcher_text(s):
    """-> (text that ends the line, lines that follow)"""
    if "'" in s or '\n' in s:
        if not s.endswith('\n') or 'EOF' in s.split('\n') or '@[' in s:
            raise ref.Broken('content cannot be written as a string: %r' % s)
        return '<<EOF', s[:-1].split('\n') + ['EOF']
    return "'%s'" % s, []


def render(case, info):
    """-> dict rel file name (below the home area) -> text"""
    files = {}
    ph_lines = {p: [] for p in ['conf', 'setup', 'act', 'before-assert', 'assert', 'cleanup']}
    conf = case['conf']
    conf_lines = []
    up = '../' if conf.get('cinc') else ''  # the settings are relative to the file that contains them
    if ref.HOME_CONF_TEXT[conf['home']]:
        conf_lines.append('home = ' + up + ref.HOME_CONF_TEXT[conf['home']])
    if ref.ACT_HOME_CONF_TEXT[conf['act_home']]:
        conf_lines.append('act-home = ' + up + ref.ACT_HOME_CONF_TEXT[conf['act_home']])
    if conf.get('cinc') and conf_lines:
        files[ref.CASE_DIR + '/inc/conf.xly'] = '\n'.join(conf_lines) + '\n'
        ph_lines['conf'].append('including inc/conf.xly')
    else:
        ph_lines['conf'].extend(conf_lines)
    ph_lines['setup'].append('$ cp -R {ROOT}/fix/. ..')
    act = case['act']
    if act['k'] == 'plain':
        ph_lines['act'].append('$ true')
    elif act['k'] == 'cat':
        ph_lines['act'].append('$ cat')
    elif act['k'] == 'exe':
        ph_lines['act'].append(render_expr(act['expr']))
    elif act['k'] == 'file':
        ph_lines['conf'].append('actor = file % sh')
        ph_lines['act'].append(render_expr(act['expr']))
    elif act['k'] == 'interp':
        ph_lines['conf'].append('actor = file ' + render_expr(act['expr']))
        ph_lines['act'].append('x1')
    else:
        ph_lines['act'].append('% echo -existing-path ' + render_expr(act['expr']))
    for i, op in enumerate(case['ops']):
        L = ph_lines[op['ph']]
        k = op['k']
        if k == 'defstr':
            L.append('def string %s = "%s%s"' % (op['name'], '@[%s]@' % (op.get('pref') or op.get('sref'))
                                                 if (op.get('pref') or op.get('sref')) else '', op['val']))
        elif k == 'def':
            line = 'def path %s = %s' % (op['name'], render_expr(op['expr']))
            inc = int(op.get('inc') or 0)
            if inc == 1:
                fn = 'inc/d%d.xly' % i
                files[ref.CASE_DIR + '/' + fn] = line + '\n'
                L.append('including ' + fn)
            elif inc == 2:
                # included from an included file, one directory further down
                files[ref.CASE_DIR + '/inc/i%d.xly' % i] = 'including deep/d%d.xly\n' % i
                files[ref.CASE_DIR + '/inc/deep/d%d.xly' % i] = line + '\n'
                L.append('including inc/i%d.xly' % i)
            else:
                L.append(line)
        elif k == 'cd':
            L.append('cd ' + render_expr(op['expr']))
            L.append('$ pwd > {OBS}/cwd%d' % i)
        elif k == 'render':
            refs = ['@[%s]@' % s for s in op['syms']]
            if op['how'] == 'file':
                L.append('file -rel-tmp o/%d = <<EOF' % i)
                L.extend(refs)
                L.append('EOF')
            elif op['how'] == 'sh':
                L.append("$ printf '%%s\\n' %s > {OBS}/r%d" % (' '.join("'%s'" % x for x in refs), i))
            else:
                L.append('%% {PY} {PROBE} {OBS}/r%d %s' % (i, ' '.join(refs)))
        elif k == 'file':
            e = render_expr(op['expr'])
            L.append({'new': "file %s = 'N%d'" % (e, i), 'empty': 'file ' + e,
                      'append': "file %s += 'N%d'" % (e, i)}[op['form']])
        elif k == 'dir':
            e = render_expr(op['expr'])
            if op['form'] == 'new':
                L.append('dir ' + e)
            else:
                L.append('dir %s %s {' % (e, '=' if op['form'] == 'with' else '+='))
                L.append("  file n%d = 'N%d'" % (i, i))
                L.append('}')
        elif k == 'copy':
            L.append(' '.join(x for x in ('copy', render_expr(op['src']),
                                          render_expr(op['dst']) if op.get('dst') is not None else '') if x))
        elif k == 'defx':
            e = render_expr(op['expr'])
            L.append('def %s %s = %s' % (ref.X_TYPE[op['type']], op['name'],
                                         {'ts': '-contents-of ' + e, 'pg': e, 'fs': 'dir-contents-of ' + e}[op['type']]))
        elif k == 'usex':
            typ = op['type']
            L.append({'ts': 'file -rel-tmp o/%d = @[%s]@', 'pg': 'file -rel-tmp o/%d = -stdout-from @ %s',
                      'fs': 'dir -rel-tmp o/%d = @[%s]@'}[typ] % (i, op['name']))
        elif k == 'read':
            site, e = op['site'], render_expr(op['expr'])
            if site == 'contents_of':
                L.append('file -rel-tmp o/%d = -contents-of %s' % (i, e))
            elif site == 'stdin':
                L.append('stdin = -contents-of %s' % e)
            elif site == 'pgm_stdin':
                L.append('file -rel-tmp o/%d = -stdout-from %% cat' % i)
                L.append('    -stdin -contents-of %s' % e)
            elif site == 'dir_contents_of':
                L.append('dir -rel-tmp o/%d = dir-contents-of %s' % (i, e))
            elif site == 'existing':
                opt = {'f': '-existing-file', 'd': '-existing-dir', 'p': '-existing-path'}[op.get('etype', 'p')]
                L.append('file -rel-tmp o/%d = -stdout-from %% echo %s %s' % (i, opt, e))
            elif site == 'exe':
                L.append('file -rel-tmp o/%d = -stdout-from %s' % (i, e))
            else:
                # (no model value: the literal reading of an invalid usage names a missing file)
                kind, what = info.get(i, ('d', ('tag', 'unknown')) if site == 'dir-contents' else ('f', 'unknown'))
                if site == 'contents':
                    txt, more = _matcher_text(what)
                    L.append('contents %s : equals %s' % (e, txt))
                    L.extend(more)
                elif site == 'exists':
                    if kind == 'f':
                        txt, more = _matcher_text(what)
                        if more:
                            L.append('exists %s : ( type file && contents equals %s' % (e, txt))
                            L.extend(more)
                            L.append(')')
                        else:
                            L.append('exists %s : ( type file && contents equals %s )' % (e, txt))
                    elif what[0] == 'tag':
                        L.append('exists %s : ( type dir && dir-contents -selection name %s num-files == 1 )'
                                 % (e, what[1]))
                    else:
                        L.append('exists %s : ( type dir && dir-contents num-files == %d )' % (e, what[1]))
                elif site == 'dir-contents':
                    if what[0] == 'tag':
                        L.append('dir-contents %s : -selection name %s num-files == 1' % (e, what[1]))
                    else:
                        L.append('dir-contents %s : num-files == %d' % (e, what[1]))
                else:
                    raise ref.Broken('unknown site ' + site)
        else:
            raise ref.Broken('unknown op ' + k)
    lines = []
    for p in ['conf', 'setup', 'act', 'before-assert', 'assert', 'cleanup']:
        if ph_lines[p]:
            lines.append('[%s]' % p)
            lines.extend(ph_lines[p])
            lines.append('')
    files[ref.CASE_DIR + '/t.case'] = '\n'.join(lines) + '\n'
    return files


def render_for_evidence(case):
    try:
        sim = ref.simulate(case, 'bug')
        return {'case': case, 'text': render(case, sim.state.info)}
    except Exception:
        return case


# ---- materialisation -----------------------------------------------------------------------------------------------
_FIXTURE = None


def write_fixture(ws):
    global _FIXTURE
    if _FIXTURE is None:
        _FIXTURE = sorted(ref.fixture().items())
    roots = {'H': ws.home, 'X': os.path.join(ws.root, 'absarea'), 'SB': os.path.join(ws.root, 'fix')}
    for r in roots.values():
        os.makedirs(r, exist_ok=True)
    for (area, rel), e in _FIXTURE:
        p = os.path.join(roots[area], rel)
        if e[0] == 'd':
            os.makedirs(p, exist_ok=True)
        else:
            os.makedirs(os.path.dirname(p), exist_ok=True)
            with open(p, 'w', encoding='utf-8', newline='') as f:
                f.write(e[1])
            if ref.is_exe(rel):
                os.chmod(p, 0o755)


# ---- comparison ------------------------------------------------------------------------------------------------------
def _norm_lines(text):
    return [ref.lexnorm(l) for l in text.split('\n') if l != '']


class Observation:
    pass


def observe(ws, r, snap_before):
    o = Observation()
    o.exit = r.exit_code
    o.out = r.out
    o.err = r.err
    o.ident = r.first_err_line
    o.exception = r.exception
    o.created = list(r.created_dirs) or list(r.sandboxes if not r.out else [])
    o.sb = None
    if r.out.endswith('\n') and r.out.count('\n') == 1 and os.path.isdir(r.out[:-1]):
        o.sb = r.out[:-1]
    o.home_after = driver.tree_snapshot(ws.home)
    o.abs_after = driver.tree_snapshot(os.path.join(ws.root, 'absarea'))
    o.home_before, o.abs_before = snap_before
    o.sb_tree = None
    o.sb_top = None
    if o.sb:
        o.sb_top = sorted(os.listdir(o.sb))
        t = {}
        for top in ('act', 'tmp', 'result'):
            d = os.path.join(o.sb, top)
            if os.path.isdir(d):
                t[top] = ['d']
                for k, v in driver.tree_snapshot(d).items():
                    t[top + '/' + k] = v
        o.sb_tree = t
    o.obs_files = {}
    for fn in sorted(os.listdir(ws.obs)):
        if fn.startswith('_') or fn.endswith('.cfg'):
            continue
        try:
            with open(os.path.join(ws.obs, fn), encoding='utf-8', errors='replace') as f:
                o.obs_files[fn] = f.read()
        except OSError:
            o.obs_files[fn] = None
    return o


def _delta(state, area):
    """entries of the final model tree of an area that differ from the fixture"""
    base = ref.fixture()
    return {k[1]: v for k, v in state.tree.items() if k[0] == area and base.get(k) != v}


def compare_executed(case, sim, o, ws):
    """None if the observation equals what the model (in its mode) predicts for a complete execution;
    else (bucket-suffix, detail)"""
    if o.exception:
        return 'escaped-exception', {'exception': o.exception}
    if o.ident != 'PASS' or o.exit != 0:
        return 'PASS/%s' % (o.ident or 'exit%s' % o.exit), {'stderr': o.err[:1500]}
    if o.sb is None:
        return 'PASS/no-sandbox-path', {'stdout': o.out[:300]}
    if o.sb_top != ['act', 'internal', 'result', 'tmp']:
        return 'sandbox-root-listing', {'listing': o.sb_top}
    st_ = sim.state
    real = lambda s: ws.subst(s).replace('{SB}', o.sb)
    exp = {}
    for (area, rel), v in st_.tree.items():
        if area == 'SB' and rel:
            exp[rel] = v
    act = dict(o.sb_tree)
    for k in STD_RESULT:
        act.pop(k, None)
    for k in ('act', 'tmp', 'result'):
        act.pop(k, None)
        exp.pop(k, None)
    diffs = []
    for k in sorted(set(exp) | set(act)):
        e, a = exp.get(k), act.get(k)
        if e is None:
            diffs.append({'path': k, 'expected': None, 'actual': a})
        elif a is None:
            diffs.append({'path': k, 'expected': _show(e, real), 'actual': None})
        elif e[0] == 'r':
            want = [ref.lexnorm(real(x)) for x in e[1]]
            if a[0] != 'f' or _norm_lines(a[1]) != want:
                diffs.append({'path': k, 'expected-paths': want, 'actual': a})
        elif e[0] == 'd':
            if a[0] != 'd':
                diffs.append({'path': k, 'expected': e, 'actual': a})
        elif a != e:
            diffs.append({'path': k, 'expected': e, 'actual': a})
    if diffs:
        return 'sandbox-tree-differs', {'differences': diffs[:8], 'n': len(diffs)}
    # rendered paths observed by child processes, current directories
    for i, want in sorted(st_.renders.items()):
        op = case['ops'][i]
        want = [ref.lexnorm(real(x)) for x in want]
        if op['how'] == 'sh':
            got = _norm_lines(o.obs_files.get('r%d' % i) or '')
        elif op['how'] == 'probe':
            recs = ws.probe_records('r%d' % i)
            got = [ref.lexnorm(x) for x in recs[0]['argv']] if len(recs) == 1 else ['<%d records>' % len(recs)]
        else:
            continue
        if got != want:
            return 'rendered-path-differs', {'op': i, 'how': op['how'], 'expected': want, 'actual': got}
    for i, want in sorted(st_.cwds.items()):
        got = (o.obs_files.get('cwd%d' % i) or '').rstrip('\n')
        if ref.lexnorm(got) != ref.lexnorm(real(want)):
            return 'cd-target-differs', {'op': i, 'expected': real(want), 'actual': got}
    if st_.act_stdout is not None:
        got = o.sb_tree.get('result/stdout')
        e = st_.act_stdout
        if e[0] == 'r':
            ok = got is not None and _norm_lines(got[1]) == [ref.lexnorm(real(x)) for x in e[1]]
        else:
            ok = got == e
        if not ok:
            return 'act-output-differs', {'expected': _show(e, real), 'actual': got}
    return compare_outside(sim, o)


def _show(e, real):
    return ['r', [real(x) for x in e[1]]] if e[0] == 'r' else e


def compare_outside(sim, o):
    """home area and outside area: unchanged except for what the model (defect model only) predicts"""
    for area, before, after in (('H', o.home_before, o.home_after), ('X', o.abs_before, o.abs_after)):
        want = dict(before)
        if sim is not None:
            want.update(_delta(sim.state, area))
        if want != after:
            ch = []
            for k in sorted(set(want) | set(after)):
                if want.get(k) != after.get(k):
                    ch.append({'path': k, 'expected': want.get(k), 'actual': after.get(k)})
            return ('home-area-modified' if area == 'H' else 'outside-area-modified'), {'changes': ch[:6]}
    return None


def compare_rejected(idents, o, executed_ok=False):
    if o.exception:
        return 'escaped-exception', {'exception': o.exception}
    if o.ident not in idents:
        return '%s/%s' % ('|'.join(sorted(idents)), o.ident or 'exit%s' % o.exit), {'stderr': o.err[:1500]}
    if o.exit != IDENT_EXIT[o.ident]:
        return 'exit-code', {'ident': o.ident, 'exit': o.exit}
    if not executed_ok:
        if o.created or o.out != '':
            return 'rejected-but-sandbox-created', {'created': o.created, 'stdout': o.out[:200]}
        if o.obs_files:
            return 'rejected-but-executed', {'obs': sorted(o.obs_files)}
    return compare_outside(None, o)


DEFECT_MODELS = {
    'KF-C12-1': 'an absolute FILE-NAME (constant or the value of a string symbol) swallows the RELATIVITY it is '
                'combined with: the path is the FILE-NAME; a symbol defined that way keeps the declared relativity '
                'for validation',
    'KF-C12-2': 'an absolute FILE-NAME without RELATIVITY (constant or via a string symbol) is accepted by a '
                'destination argument and the file is made there',
}

REJ = {'syntax': {'SYNTAX_ERROR'}, 'validation': {'VALIDATION_ERROR'},
       'either': {'SYNTAX_ERROR', 'VALIDATION_ERROR'}}


def check_subprocess(case) -> Verdict:
    return check(case, subproc=True)


def check(case, subproc=False) -> Verdict:
    with driver.Workspace() as ws:
        sim = ref.simulate(case, 'literal', ws.subst)
        try:
            sim_bug = ref.simulate(case, 'bug', ws.subst)
            if not sim_bug.state.used:
                sim_bug = None  # no defect model applies to this case
        except ref.Broken:
            sim_bug = None
        info = dict(sim.state.info)
        if sim_bug is not None:
            info.update(sim_bug.state.info)
        files = render(case, info)
        write_fixture(ws)
        for rel, text in sorted(files.items()):
            ws.write(rel, text)
        before = (driver.tree_snapshot(ws.home), driver.tree_snapshot(os.path.join(ws.root, 'absarea')))
        inv = case['conf'].get('inv', 0)
        argv = ['--keep', [ref.CASE_DIR + '/t.case', 't.case', os.path.join(ws.home, ref.CASE_DIR, 't.case')][inv]]
        cwd = os.path.join(ws.home, ref.CASE_DIR) if inv == 1 else ws.home
        r = (driver.run_subproc if subproc else driver.run_inproc)(ws, argv, cwd=cwd)
        if r.timed_out:
            return Verdict(inconclusive=True, labels=['timeout'])
        o = observe(ws, r, before)

        # ---- labels --------------------------------------------------------------------------------------------
        uses = (sim_bug or sim).state.uses
        labels = set()
        nontrivial = False
        for u in uses:
            if u['site'] == 'def':
                labels.add('def:%s' % u['form'])
                continue
            labels.add('use:%s/%s' % (u['site'], u['kind']))
            if u['site'] != 'render':
                labels.add('phase:%s/%s' % (u['phase'], 'dest' if u['site'] in ref.DEST_SITES else 'read'))
            labels.add('form:%s' % u['form'])
            labels.add('depth:%d' % min(u['depth'], 4))
            if u['refs']:
                labels.add('name-with-string-symbol')
            if u['cd_moved']:
                labels.add('rel-cd-used-after-cd')
            if u.get('typed_symbol'):
                labels.add('path-inside-typed-symbol:%s' % u['site'])
                if u['cd_moved']:
                    labels.add('typed-symbol-rel-cd-used-after-cd')
            if u['depth'] >= 1 or u['form'] == 'option':
                nontrivial = True
        if case['conf']['home'] or case['conf']['act_home']:
            labels.add('home-redirected')
        if any(op['k'] == 'def' and op.get('inc') for op in case['ops']):
            labels.add('def-in-included-file')
        if any(op['k'] == 'def' and int(op.get('inc') or 0) == 2 for op in case['ops']):
            labels.add('def-in-nested-include')
        if case['conf'].get('cinc') and (case['conf']['home'] or case['conf']['act_home']):
            labels.add('conf-in-included-file')
        if any(op['k'] == 'defstr' and op.get('sref') for op in case['ops']):
            labels.add('string-symbol-chain')
        if any(op['k'] == 'def' and op['expr'].get('rel') == 'here' for op in case['ops']):
            labels.add('rel-here')
        cls = 'valid'
        if sim.reject:
            cls = 'reject:' + sim.reject
        if sim.irregular:
            cls = 'irregular:' + sim.irregular[0]
        elif sim.maybe:
            cls = 'undocumented-acceptance'
        labels.add('class:' + cls)
        if sim.cell and sim.cell[0]:
            labels.add('rejected:%s/%s' % (sim.cell[0], sim.cell[1]))
        for u_site, u_kind in sim.unlisted:
            labels.add('unlisted:%s/%s:%s' % (u_site, u_kind, 'accepted' if o.ident == 'PASS' else 'rejected'))
        if case.get('irr'):
            labels.add('gen:' + str(case['irr']).split(':')[0])
        labels.add('outcome:%s' % (o.ident if o.ident in IDENT_EXIT else 'other'))
        if inv:
            labels.add('invoked:%s' % ['', 'from-case-dir', 'absolute-path'][inv])
        if subproc:
            labels.add('subprocess')
        labels = sorted(labels)

        # ---- acceptable outcomes under the correct readings ----------------------------------------------------
        problems = []
        ok = False
        if sim.reject in REJ:
            # (an earlier argument whose acceptance is undocumented may be the one that is rejected, either way)
            p = compare_rejected(REJ[sim.reject] | (REJ['either'] if sim.maybe else set()), o)
            ok = p is None
            problems.append(('reject:' + sim.reject, p))
        elif sim.reject == 'missing':
            p = compare_rejected({'VALIDATION_ERROR', 'HARD_ERROR', 'SYNTAX_ERROR'}, o, executed_ok=True)
            ok = p is None
            problems.append(('literal-missing', p))
        else:
            p = compare_executed(case, sim, o, ws)
            ok = p is None
            problems.append(('valid', p))
        if not ok and (sim.irregular or sim.maybe) and sim.reject not in REJ:
            # invalid usage / undocumented acceptance: a rejection before execution is acceptable too
            p = compare_rejected(REJ['either'], o)
            ok = p is None
            problems.append(('reject:either', p))
        if ok:
            return Verdict(True, nontrivial=nontrivial, labels=labels)

        detail = {'expected': [{'reading': a, 'mismatch': b[0] if b else None, 'detail': b[1] if b else None}
                               for a, b in problems],
                  'observed': {'identifier': o.ident, 'exit': o.exit, 'stderr': o.err[:800],
                               'sandbox': o.sb is not None},
                  'files': {k: ws.subst(v) for k, v in files.items()},
                  'why': sim.why}
        # ---- defect models ----------------------------------------------------------------------------------------
        if sim_bug is not None:
            if sim_bug.reject in REJ:
                pb = compare_rejected(REJ[sim_bug.reject], o)
            elif sim_bug.reject == 'missing':
                pb = compare_rejected({'VALIDATION_ERROR', 'HARD_ERROR'}, o, executed_ok=True)
            elif sim_bug.reject:
                pb = ('unmodelled', None)
            else:
                pb = compare_executed(case, sim_bug, o, ws)
            if pb is None:
                kf = sorted(sim_bug.state.used)[0]
                detail['defect_model'] = DEFECT_MODELS[kf]
                hm = compare_outside(None, o)
                return Verdict(ok=False, known=kf, bucket='%s/%s' % (kf, 'home-modified' if hm else 'escaped'),
                               detail=detail, labels=labels + ['known:' + kf], nontrivial=nontrivial)
            detail['defect_model_mismatch'] = pb
        first = problems[0]
        bucket = '%s/%s' % (first[0], first[1][0])
        return fail(bucket, detail, labels=labels, nontrivial=nontrivial)


# ---- the manual still says what was transcribed ------------------------------------------------------------------------
def parse_relativity_tables(text):
    """-> list of (argument header, default, [options])"""
    import re
    out = []
    header = None
    lines = text.split('\n')
    i = 0
    while i < len(lines):
        line = lines[i]
        s = line.strip()
        if re.match(r"^[A-Z][A-Z'-]+$", s):
            header = s
        m = re.search(r'Accepted relativities \(default is "([^"]+)"\):', line)
        if m:
            opts = []
            j = i + 1
            while j < len(lines):
                t = lines[j].strip()
                if t.startswith('-rel'):
                    opts.append('-rel SYMBOL' if t.startswith('-rel SYMBOL') else t.split()[0])
                elif t and opts:
                    break
                elif not t and opts:
                    break
                j += 1
            out.append((header, m.group(1), opts))
            i = j
            continue
        i += 1
    return out


def check_manual(case) -> Verdict:
    site, idx = case['site'], case['page']
    argv, argname = ref.MANUAL_PAGES[site][idx]
    with driver.Workspace() as ws:
        r = driver.run_inproc(ws, argv)
    if r.exit_code != 0 or r.exception:
        return fail('manual-unavailable', {'argv': argv, 'exit': r.exit_code, 'err': r.err[:300]})
    tables = parse_relativity_tables(r.out)
    if argname is not None:
        tables = [t for t in tables if t[0] == argname]
    if not tables:
        return fail('manual-table-missing', {'argv': argv, 'argument': argname})
    header, default, opts = tables[0]
    phase = argv[1] if argv[1] in ref.PHASES else 'setup'
    acc = ref.accepted(site, phase)
    want = {ref.OPTION[k] for k, v in acc.items() if k != 'abs' and v is True}
    if site == 'def':
        want |= {'-rel SYMBOL', '-rel-here'}
    got = set(opts)
    want_default = ref.MANUAL_NAME[ref.SITES[site]['default']]
    if got != want or default != want_default:
        return fail('manual-differs/%s' % site, {'argv': argv, 'manual': {'default': default, 'options': sorted(got)},
                                                 'transcription': {'default': want_default, 'options': sorted(want)}})
    return Verdict(True, nontrivial=True, key='manual:%s:%d' % (site, idx), labels=['manual:' + site])


def enum_manual(tier):
    for site in sorted(ref.MANUAL_PAGES):
        for i in range(len(ref.MANUAL_PAGES[site])):
            yield {'site': site, 'page': i}


def enum_subprocess(tier):
    """a sample of the matrix through a real OS process (guards against artefacts of the in-process harness)"""
    step = 131 if tier == 'quick' else 17
    for i, c in enumerate(gen.dest_matrix('quick')):
        if i % step == 0:
            yield c


SUBS = [
    Sub('manual_agrees', check_manual, enumerate=enum_manual, exhaustive=True),
    Sub('dest_matrix', check, enumerate=gen.dest_matrix, exhaustive=True, render=render_for_evidence),
    Sub('read_matrix', check, enumerate=gen.read_matrix, exhaustive=True, render=render_for_evidence),
    Sub('cd_matrix', check, enumerate=gen.cd_matrix, exhaustive=True, render=render_for_evidence),
    Sub('paths', check, strategy=lambda tier: gen.cases(tier), budget={'quick': 3000, 'thorough': 80000},
        render=render_for_evidence),
    Sub('subprocess_differential', check_subprocess, enumerate=enum_subprocess, exhaustive=False,
        render=render_for_evidence),
]
