"""C17 - Cases are independent; suite contents apply alike standalone and in a suite run.

Sub-checks
* manual_agrees     the sentences of the built-in manual the model transcribes are still there.
* suite_contents    model based: a suite file supplies contents for any subset of conf / setup / act / before-assert /
                    assert / cleanup (status, actor, home, act-home, preprocessor, markers, failing instructions,
                    symbol definitions and uses, environment variables), cases have own contents in any subset, an
                    optional sub-suite with own (or no) contents and cases, an optional unrelated suite file.  The
                    hierarchy is run with `exactly suite`, every case with `exactly --suite FILE CASE` and with
                    `exactly CASE` (exactly.suite beside it or not), and `--suite other.suite` overriding exactly.suite.
                    Every run must show the exit identifier and the exact marker sequence of vlib/ref/c17_model.py
                    (suite's contents first, in [cleanup] last; nothing from a parent suite; preprocessor only for
                    the suite's own cases), and the three ways of running a case must agree with each other.
* phase_subsets_matrix  the same check over the COMPLETE product: every subset of the six sections supplied by the
                    suite x every subset supplied by the case (thorough: 64 x 64; quick: 4 case subsets per suite
                    subset), the [conf] contents in turn actor / home / act-home / status / preprocessor.
* symbol_units_matrix / suite_symbols   differential: suite-level instructions of ~140 kinds (vlib/gen/c17_units.py:
                    every instruction of setup / before-assert / assert / cleanup and the [act] phase of four actors,
                    with symbol references as integer, integer matcher, regex, glob pattern, file name, path,
                    relativity root, list / program argument, program name, text source, here-document, environment
                    variable name and value, timeout, line-number range, files-condition, files-source, every matcher
                    and transformer type, inside suite-level `def`s; and -rel-home / -rel-act-home paths) consume
                    symbols (and home directories) that every case defines differently; each case in the suite run must
                    show the exit identifier and the observations of its standalone run beside the same exactly.suite.
                    The matrix is unit x symbol, the values in a chain valid / valid / invalid / valid / missing / valid.
* histories         differential: lists of cases that change settings (env set / unset / -of act, cd, timeout, def,
                    files and directories in act/ and tmp/, home, act-home, actor, status, stdin) and observe them
                    (pwd, complete environment, sandbox listing, stdin, symbol values, exists), run in one
                    `exactly suite` in EVERY order for <= 4 cases (random orders beyond), against each case run
                    standalone.
* slow_cases        the few cases that need seconds: `timeout = 1` in one case, a process of 1.5 s in the next one
                    (instruction of any phase, or the action to check); a suite-level `timeout = @[T]@` + `sleep 2`.
Every run also demands: no escaped exception, the cwd and environment of the Exactly process unchanged, no sandbox
left behind.  The runs of the differential sub-checks are made in forked children of the worker (see _isolated): a
standalone reference run starts from a process in which no other case has run, and all the cases of a suite run share
one process - as they do under `exactly suite`.
"""
import os
import re

from vlib import driver
from vlib.gen import c17_gen as gen
from vlib.gen import c17_units as units
from vlib.gen import c17_hist as hist
from vlib.ref import c17_model as model
from vlib.runner import Sub, Verdict, fail

PROPERTY_ID = 'C17'
LEVEL = 'exploration'
RULE = ('suite_contents: hierarchies = root suite (exactly.suite or main.suite; sections in any order, split, default '
        '[cases] section) supplying contents for a random subset of conf (status, actor command/source/null, home, '
        'act-home, preprocessor) and of setup/act/before-assert/assert/cleanup (1-3 items each: marker, failing '
        'instruction, undefined symbol, def, symbol use, home dirs, preprocessor token, env set, env show), 1-3 cases '
        'with own contents in random subsets, in 45 % a sub-suite (sub/exactly.suite | sub/x.suite | s2.suite; bare or '
        'with own contents) with 1-2 cases, in 35 % an unrelated other.suite; run as suite, every case with --suite '
        'and without, from the case directory or its parent.  Non-trivial = suite and a case both contribute to some '
        'section.  phase_subsets_matrix: the complete product of section subsets (see the docstring), every fifth '
        'with a sub-suite, every seventh run from the parent directory.  suite_symbols: 1-4 suite-level units out of '
        '~140 instruction kinds x phases, each consuming 1-3 symbols (or the home / act-home directory) that 2-4 cases '
        'define differently (valid values, invalid values, wrong type, missing; defined in any phase before the '
        'unit; at least one symbol differs between the cases), optionally a suite-level [act] that consumes symbols; '
        'both orders (thorough: a third one); symbol_units_matrix: every unit x every symbol of it, quick: one suite '
        'of six cases (valid a, valid b, invalid, valid c, wrong type / missing, valid a) in one phase, thorough: '
        'the chain over all values of the pool and all pairs of values (suites of two cases, both orders) in every '
        'phase the unit may stand in; non-trivial = some symbol is defined by the cases and there are >= 2 cases.  '
        'histories: 2-5 cases of 1-8 ops (env set/unset/-of, cd, timeout, def, file, dir, shell-made file, stdin; '
        'observers: pwd+env+sandbox listing, symbol use, exists, sleep) over the four instruction phases, conf '
        'settings, five kinds of act, endings ok / hard error / validation error / syntax error; ALL orders for <= 4 '
        'cases, for 5 cases 6 (thorough 12) orders, in 25 % split over a sub-suite; non-trivial = in some order an '
        'observing case runs after a changing case.  slow_cases: enumerated (timeout-setting phase x sleeping phase; '
        'quick 4 + 1, thorough 20 x both orders + a third case in between + the timeout unit in 3 phases).  '
        'distinct = distinct generated value')
ASSUMPTIONS = [
    'the suite run is observed through the progress reporter: `case  NAME: (T s) IDENTIFIER` lines (format taken from '
    'observation, as in C16), last line OK / ERROR',
    'marker lines carry the value of @[EXACTLY_TMP]@; that builtin symbols are substituted in `$` lines is relied on '
    '(a failure there shows as a violation, never hides one)',
    'suite_contents: `actor = command` given explicitly together with an empty [act] is accepted both as SYNTAX_ERROR '
    '("A single PROGRAM element") and as run with the null actor (concept "actor": empty [act] => null actor); two '
    'PROGRAM lines for the command line actor are a SYNTAX_ERROR that may be preceded by SKIPPED / VALIDATION_ERROR',
    'suite_contents: a failing instruction in [cleanup] gives HARD_ERROR whatever happened before (`help case spec`: '
    '"an error will be reported even if both the act and assert phases have been executed successfully")',
    'suite_contents: combinations the manual does not describe are not judged by the model (label OUT-OF-MODEL / '
    ':out-of-model): act lines written for another actor than the effective one, and a symbol used in [cleanup] '
    'whose definition was jumped over after an error (the unchanged tree answers INTERNAL_ERROR there, standalone as '
    'well as in a suite - not a C17 matter, reported to the integrator)',
    'suite_symbols, symbol_units_matrix, histories and slow_cases are differential: the reference is the same case '
    'run standalone (alternately `exactly CASE` beside exactly.suite and `exactly --suite`) in a forked child of the '
    'harness process, the suite run in another forked child; subprocess_differential compares a real OS process '
    'with the in-process run on a sample',
    'slow_cases: a process that sleeps 1.5 s (2 s) is still running when a timeout of 1 s expires and has ended '
    'before one of 4 s / the default of 60 s does (margins of >= 0.5 s on a machine that is not overloaded beyond '
    'measure; a sleeping case of a history never sets a timeout itself)',
    'histories: what a case observes = pwd, `env | sort` (complete), the listing of its sandbox act/ and tmp/ '
    'directories, the stdin of its action, values of symbols, exists-assertions, and whether a 1.5 s sleep survives '
    '(timeout carried over from a case that set `timeout = 1`); a sleeping case never sets a timeout itself; a '
    'mismatch of a case that involves a timeout of one second counts only if a second evaluation of the case shows '
    'it again (else: inconclusive, label mismatch-not-reproduced)',
    'suite_symbols: a symbol that the case defines in [assert] after an assertion of the suite has failed, used by '
    'the suite\'s [cleanup], gives INTERNAL_ERROR standalone as well as in the suite (not a C17 matter: the outcomes '
    'agree; reported to the integrator earlier)',
    'error texts on stderr are not compared between the ways of running a case (the property speaks of outcomes)',
]

_CASE_RE = re.compile(r'^case +(.*): \((\d+\.\d+)s\) ([A-Z_]+)$')
_SUITE_RE = re.compile(r'^suite (.*): (begin|end)$')
_SDS_RE = re.compile(r'/exactly-[A-Za-z0-9_-]+')


# ---- shared observation helpers ------------------------------------------------------------------------------------
_WARM = [False]


def _warm_up():
    """once per worker process: run a trivial suite and case in this process, so that every module Exactly imports
    lazily is loaded before the first fork"""
    if _WARM[0]:
        return
    _WARM[0] = True
    with driver.Workspace() as ws:
        ws.write('w.suite', '[cases]\nw.case\n[setup]\nfile -rel-tmp f = "x" -transformed-by filter -line-nums 1\n')
        ws.write('w.case', '[conf]\nactor = source % sh\n[setup]\ndef string S = s\nenv A = "@[S]@"\n[act]\ntrue\n'
                           '[assert]\nexit-code == 0\ncontents -rel-tmp f : num-lines == 1\nrun % true\n'
                           'exists -rel-tmp f : run % true\nstdout -from % echo x\n  run % true\n'
                           'file -rel-tmp g = -stdout-from -ignore-exit-code % true\n')
        driver.run_inproc(ws, ['suite', 'w.suite'])
        driver.run_inproc(ws, ['--suite', 'w.suite', 'w.case'])


def _isolated(fn):
    """fn() evaluated in a forked child process -> its (picklable) result.

    Every execution of Exactly starts from the same process state (that of the worker after _warm_up) and leaves
    nothing behind in the worker: what a run stores in module / class level state of exactly_lib cannot reach the
    standalone reference runs, and shows up as a difference between a suite run (one process for all its cases) and
    the standalone runs.  VERIF_C17_NO_FORK=1 switches the isolation off (debugging)."""
    if os.environ.get('VERIF_C17_NO_FORK'):
        return fn()
    import gc
    import pickle
    import traceback
    _warm_up()
    rfd, wfd = os.pipe()
    pid = os.fork()
    if pid == 0:
        code = 0
        try:
            gc.disable()  # a collection in the short-lived child would touch (= copy) every page of the heap
            os.close(rfd)
            try:
                data = pickle.dumps(('ok', fn()))
            except BaseException as ex:
                data = pickle.dumps(('error', '%r\n%s' % (ex, traceback.format_exc(limit=12))))
            with os.fdopen(wfd, 'wb') as f:
                f.write(data)
        except BaseException:
            code = 3
        finally:
            os._exit(code)
    os.close(wfd)
    with os.fdopen(rfd, 'rb') as f:
        data = f.read()
    os.waitpid(pid, 0)
    if not data:
        raise RuntimeError('the forked child that ran Exactly ended without a result')
    kind, value = pickle.loads(data)
    if kind != 'ok':
        raise RuntimeError('harness error in the forked child: %s' % value)
    return value


class Run:
    """one execution of the program + what it left in {MARKERS}.  isolate=True (the differential sub-checks): in a
    forked child of the worker, see _isolated (costs ~14 ms CPU more per run: the child copies the pages it touches);
    suite_contents judges every run by the model, there the runs share the worker process"""

    def __init__(self, ws, argv, cwd=None, extra_env=None, subprocess=False, isolate=False):
        if os.path.exists(ws.markers):
            os.remove(ws.markers)
        self.argv = list(argv)
        if subprocess:
            self.r = driver.run_subproc(ws, argv, cwd=cwd)
        elif isolate:
            self.r = _isolated(lambda: driver.run_inproc(ws, argv, cwd=cwd, extra_env=extra_env))
        else:
            self.r = driver.run_inproc(ws, argv, cwd=cwd, extra_env=extra_env)
        self.raw_markers = ws.read_markers()
        self.ws_home = ws.home
        self.ws_root = ws.root
        self.tmproot = ws.tmproot

    def process_problem(self):
        r = self.r
        if r.timed_out:
            return 'timeout'
        if r.exception:
            return 'escaped-exception'
        if r.cwd_changed is not None:
            return 'process-cwd-changed'
        if r.env_diff is not None:
            return 'process-environment-changed'
        if r.sandboxes:
            return 'sandbox-left-behind'
        return None

    def groups(self):
        """-> ([(sandbox, [(who, text)])], problem or None): marker lines grouped by the sandbox that wrote them"""
        groups = []
        seen = set()
        for ln in self.raw_markers:
            parts = ln.split('|', 2)
            if len(parts) != 3 or not parts[0].startswith(self.tmproot + '/'):
                return groups, 'malformed marker line: %r' % ln
            sds = parts[0][len(self.tmproot) + 1:].split('/')[0]
            text = _SDS_RE.sub('/<SDS>', parts[2].replace(self.ws_home, '<HOME>').replace(self.ws_root, '<WS>'))
            if groups and groups[-1][0] == sds:
                groups[-1][1].append((parts[1], text))
            else:
                if sds in seen:
                    return groups, 'markers of two sandboxes are interleaved'
                seen.add(sds)
                groups.append((sds, [(parts[1], text)]))
        return groups, None

    def standalone_ident(self):
        """(identifier or None, problem)"""
        r = self.r
        if not r.out.endswith('\n') or r.out.count('\n') != 1:
            return None, 'stdout is not a single line'
        ident = r.out[:-1]
        if driver.EXIT_IDENTIFIERS.get(ident) != r.exit_code:
            return ident, 'exit code %s does not belong to %s' % (r.exit_code, ident)
        return ident, None

    def suite_events(self):
        """-> ([(case name, identifier)], final line, problem)"""
        out = self.r.out
        if not out.endswith('\n'):
            return [], None, 'stdout does not end with a newline'
        lines = out[:-1].split('\n')
        cases = []
        for ln in lines[:-1]:
            m = _CASE_RE.match(ln)
            if m:
                cases.append((m.group(1), m.group(3)))
            elif not _SUITE_RE.match(ln):
                return cases, lines[-1], 'line is no event: %r' % ln
        return cases, lines[-1], None

    def brief(self):
        r = self.r
        return {'argv': self.argv, 'exit': r.exit_code, 'out': self.norm(r.out)[:1200], 'err': self.norm(r.err)[:1500],
                'exception': r.exception, 'cwd_changed': r.cwd_changed, 'env_diff': r.env_diff,
                'sandboxes': r.sandboxes, 'markers': [self.norm(m) for m in self.raw_markers][:60]}

    def norm(self, s):
        return _SDS_RE.sub('/<SDS>', s.replace(self.ws_root, '<WS>'))


SUCCESS = {'PASS', 'SKIPPED', 'XFAIL'}


# ---- suite_contents ------------------------------------------------------------------------------------------------
def sc_files(case):
    """-> {relative path: text}"""
    files = {}
    root = case['root']
    sub = case['sub']
    listing = {'cases': [c['file'] for c in case['cases']], 'suites': []}
    if sub:
        t = sub['contents']
        rel = t['file']
        if rel == 'sub/exactly.suite' and root.get('layout', {}).get('blank'):
            rel = 'sub'  # a directory serves as a suite file if it contains exactly.suite
        listing['suites'].append(rel)
        d = t['dir']
        files[t['file']] = gen.render_file(t, {'cases': [c['file'][len(d) + 1 if d else 0:] for c in sub['cases']],
                                               'suites': []})
        for c in sub['cases']:
            files[c['file']] = gen.render_file(c)
    files[root['file']] = gen.render_file(root, listing)
    for c in case['cases']:
        files[c['file']] = gen.render_file(c)
    if case['other']:
        files[case['other']['file']] = gen.render_file(case['other'], {'cases': [], 'suites': []})
    return files


def sc_render(case):
    return '\n'.join('==> %s\n%s' % (p, t) for p, t in sorted(sc_files(case).items()))


_SC_ENV = {v: None for v in gen.VARS}


def _beside(case, c):
    """contents of the exactly.suite in the directory of case file c, if there is one"""
    for s in [case['root']] + ([case['sub']['contents']] if case['sub'] else []):
        if s['file'].split('/')[-1] == 'exactly.suite' and s['dir'] == c['dir']:
            return s
    return None


def _pick(alts, ident):
    for a in alts:
        if ident in a.idents:
            return a
    return None


def _ids(alts):
    return '|'.join(sorted(set(i for a in alts for i in a.idents)))


def check_suite_contents(case) -> Verdict:
    root = case['root']
    sub = case['sub']
    other = case['other']
    files = sc_files(case)
    direct = [(c, root) for c in case['cases']]
    subs = [(c, sub['contents']) for c in sub['cases']] if sub else []
    everyone = subs + direct
    by_file = {c['file']: (c, s) for c, s in everyone}
    labels = ['root:' + root['file']]
    if sub:
        labels.append('sub:' + sub['contents']['file'] + (':with-contents' if sub['contents']['phases'] else ':bare'))
    if other:
        labels.append('other-suite')
    if root.get('pp'):
        labels.append('root:preprocessor')
    for ph in ['conf'] + model.PHASES:
        s_has = bool(root['phases'].get(ph)) if ph != 'conf' else any(v is not None for v in root['conf'].values())
        c_has = any((bool(c['phases'].get(ph)) if ph != 'conf' else any(v is not None for v in c['conf'].values()))
                    for c in case['cases'])
        if s_has:
            labels.append('suite-supplies:' + ph)
        if s_has and c_has:
            labels.append('both-supply:' + ph)
    if root['conf']['actor']:
        labels.append('suite-actor:' + root['conf']['actor'])
    nontrivial = any(l.startswith('both-supply:') for l in labels)
    pre = 'home/' if case.get('cwd_parent') else ''
    if pre:
        labels.append('cwd:parent-dir')

    runs = []

    def bad(bucket, run=None, **extra):
        d = {'what': bucket}
        d.update(extra)
        if run is not None:
            d['run'] = run.brief()
        d['files'] = sc_render(case)
        return fail('suite_contents/' + bucket, d, labels=labels, nontrivial=nontrivial)

    with driver.Workspace() as ws:
        ws.write_files(files)
        for d in ('d1', 'd2', 'sub/d1', 'sub/d2'):
            os.makedirs(os.path.join(ws.home, d), exist_ok=True)
        cwd = ws.root if pre else None

        # --- the suite run
        run = Run(ws, ['suite', pre + root['file']], cwd=cwd, extra_env=_SC_ENV)
        p = run.process_problem()
        if p == 'timeout':
            return Verdict(inconclusive=True, labels=labels)
        if p:
            return bad('suite-run/' + p, run)
        events, final, problem = run.suite_events()
        if problem:
            return bad('suite-run/progress-output', run, why=problem)
        names = [os.path.normpath(os.path.join(ws.home if not pre else ws.root, n)) for n, _ in events]
        want = sorted(os.path.join(ws.home, c['file']) for c, _ in everyone)
        if sorted(names) != want:
            return bad('suite-run/case-set', run, expected=[c['file'] for c, _ in everyone])
        groups, problem = run.groups()
        if problem:
            return bad('suite-run/markers', run, why=problem)
        in_suite = {}  # file -> (ident, lines or None)
        gi = 0
        all_ok = True
        for (name, ident), full in zip(events, names):
            rel = os.path.relpath(full, ws.home)
            c, s = by_file[rel]
            alts = model.expect(s, c)
            if alts is None:
                return Verdict(True, nontrivial=False, labels=labels + ['OUT-OF-MODEL'])
            labels.append('in-suite:' + ident)
            exp = _pick(alts, ident)
            if exp is None:
                return bad('suite-run/identifier/%s/%s' % (_ids(alts), ident), run, case_file=rel,
                           expected=[a.as_json() for a in alts])
            if exp.lines:
                got = groups[gi][1] if gi < len(groups) else None
                gi += 1
                if got != exp.lines:
                    what = 'markers'
                    if got is not None and sorted(got) == sorted(exp.lines):
                        what = 'marker-order'
                    elif got is not None and [g for g in got if g[0] == c['who']] == \
                            [g for g in exp.lines if g[0] == c['who']]:
                        what = 'suite-level-markers'
                    return bad('suite-run/' + what, run, case_file=rel, expected=exp.as_json(),
                               observed=['%s|%s' % g for g in got] if got is not None else None)
            in_suite[rel] = (ident, exp.lines)
            all_ok = all_ok and ident in SUCCESS
        if gi != len(groups):
            return bad('suite-run/markers-of-unexpected-execution', run,
                       extra_groups=[['%s|%s' % g for g in grp] for _, grp in groups[gi:]])
        if (final, run.r.exit_code) != (('OK', 0) if all_ok else ('ERROR', 4)):
            return bad('suite-run/final', run)

        # --- every case standalone
        def standalone(c, argv, applicable, mode):
            run = Run(ws, argv, cwd=cwd, extra_env=_SC_ENV)
            p = run.process_problem()
            if p == 'timeout':
                return None
            if p:
                return bad(mode + '/' + p, run)
            ident, problem = run.standalone_ident()
            if problem:
                return bad(mode + '/output', run, why=problem)
            groups, problem = run.groups()
            if problem or len(groups) > 1:
                return bad(mode + '/markers', run, why=problem or 'more than one sandbox wrote markers')
            got = groups[0][1] if groups else []
            alts = model.expect(applicable, c)
            if alts is None:
                labels.append(mode + ':out-of-model')
                return None
            labels.append(mode + ':' + ident)
            exp = _pick(alts, ident)
            if exp is None:
                return bad('%s/identifier/%s/%s' % (mode, _ids(alts), ident), run,
                           expected=[a.as_json() for a in alts],
                           applicable_suite=applicable['file'] if applicable else None)
            if got != exp.lines:
                what = 'marker-order' if sorted(got) == sorted(exp.lines) else 'markers'
                return bad('%s/%s' % (mode, what), run, expected=exp.as_json(),
                           observed=['%s|%s' % g for g in got],
                           applicable_suite=applicable['file'] if applicable else None)
            return None

        for c, s in everyone:
            v = standalone(c, ['--suite', pre + s['file'], pre + c['file']], s, 'explicit-suite')
            if v is not None:
                return v
            b = _beside(case, c)
            v = standalone(c, [pre + c['file']], b, 'beside-default-suite' if b is not None else 'no-suite')
            if v is not None:
                return v
        if other and case['cases']:
            c = case['cases'][0]
            v = standalone(c, ['--suite', pre + other['file'], pre + c['file']], other, 'explicit-overrides')
            if v is not None:
                return v
    return Verdict(True, nontrivial=nontrivial, labels=sorted(set(labels)), sample=sc_render(case))


# ---- suite_symbols --------------------------------------------------------------------------------------------------
def ss_render(case):
    files = units.render(case)
    files['exactly.suite'] = files['exactly.suite'].replace('{CASES}', '\n'.join(
        case['cases'][i]['id'] + '.case' for i in case['orders'][0]))
    return '\n'.join('==> %s\n%s' % (p, t) for p, t in sorted(files.items())) + \
        '\n(orders run: %s)' % case['orders']


def _observe_standalone(ws, argv):
    """-> (Run, (identifier, lines) or None, problem bucket or None)"""
    run = Run(ws, argv, isolate=True)
    p = run.process_problem()
    if p:
        return run, None, p
    ident, problem = run.standalone_ident()
    if problem:
        return run, None, 'output'
    groups, problem = run.groups()
    if problem or len(groups) > 1:
        return run, None, 'markers'
    return run, (ident, groups[0][1] if groups else []), None


def check_suite_symbols(case) -> Verdict:
    files = units.render(case)
    suite_text = files.pop('exactly.suite')
    cases = case['cases']
    insts = list(case['units']) + ([case['act']] if case['act'] else [])
    labels = ['unit:' + ui['t'] for ui in insts] + ['unit-phase:' + ui['phase'] for ui in case['units']]
    labels.append('cases:%d' % len(cases))
    n_case_defined = sum(1 for c in cases[:1] for _ in c['defs'])
    nontrivial = n_case_defined > 0 and len(cases) >= 2
    differing = 0
    for key in cases[0]['defs']:
        if len(set(str(c['defs'][key]['v']) for c in cases)) > 1:
            differing += 1
    labels.append('symbols-differing-between-cases:%s' % ('0' if not differing else '1' if differing == 1 else '2+'))

    def listing(order):
        return suite_text.replace('{CASES}', '\n'.join(cases[i]['id'] + '.case' for i in order))

    def bad(bucket, run=None, **extra):
        d = {'what': bucket}
        d.update(extra)
        if run is not None:
            d['run'] = run.brief()
        d['files'] = ss_render(case)
        return fail('suite_symbols/' + bucket, d, labels=labels, nontrivial=nontrivial)

    with driver.Workspace() as ws:
        ws.write_files(units.HOME_FILES)
        ws.write_files(files)
        ws.write('exactly.suite', listing(case['orders'][0]))
        ref = {}
        for c in cases:
            # the two standalone forms in turn: exactly.suite beside the case / --suite
            argv = [c['id'] + '.case'] if len(ref) % 2 == 0 else ['--suite', 'exactly.suite', c['id'] + '.case']
            run, obs, problem = _observe_standalone(ws, argv)
            if problem == 'timeout':
                return Verdict(inconclusive=True, labels=labels)
            if problem:
                return bad('standalone/' + problem, run)
            ref[c['id']] = obs
            labels.append('standalone:' + obs[0])
            if obs[0] == 'SYNTAX_ERROR':
                return bad('generated-case-has-syntax-error', run)
        for order in case['orders']:
            ws.write('exactly.suite', listing(order))
            run = Run(ws, ['suite', 'exactly.suite'], isolate=True)
            p = run.process_problem()
            if p == 'timeout':
                return Verdict(inconclusive=True, labels=labels)
            if p:
                return bad('suite-run/' + p, run, order=order)
            events, final, problem = run.suite_events()
            if problem or run.r.exit_code not in (0, 4):
                return bad('suite-run/progress-output', run, why=problem, order=order)
            if [n for n, _ in events] != [cases[i]['id'] + '.case' for i in order]:
                return bad('suite-run/case-list', run, order=order)
            groups, problem = run.groups()
            if problem:
                return bad('suite-run/markers', run, why=problem, order=order)
            by_case = {}
            for _, lines in groups:
                ids = [t for who, t in lines if who == 'CASE']
                if len(ids) != 1 or ids[0] in by_case:
                    return bad('suite-run/markers-not-attributable-to-one-case', run, order=order,
                               group=['%s|%s' % l for l in lines])
                by_case[ids[0]] = lines
            for pos, i in enumerate(order):
                cid = cases[i]['id']
                got = (events[pos][1], by_case.get(cid, []))
                if got == ref[cid]:
                    continue
                what = 'identifier/%s/%s' % (ref[cid][0], got[0]) if got[0] != ref[cid][0] else 'observations'
                return bad('in-suite-differs-from-standalone/' + what, run, case_file=cid + '.case', order=order,
                           position_in_suite=pos,
                           standalone=[ref[cid][0], ['%s|%s' % l for l in ref[cid][1]]],
                           in_suite=[got[0], ['%s|%s' % l for l in got[1]]])
            if (final, run.r.exit_code) != (('OK', 0) if all(i in SUCCESS for _, i in events) else ('ERROR', 4)):
                return bad('suite-run/final', run, order=order)
    return Verdict(True, nontrivial=nontrivial, labels=sorted(set(labels)), sample=ss_render(case))


def _matrix_case(u, role, phase, vals, orders):
    """one suite-level unit; the cases differ in the value of one symbol (`role`) only"""
    roles = sorted(u['syms'].items())
    is_act = u['kind'] == 'ACT'
    k = 'A' if is_act else '0'
    inst = {'t': u['id'], 'phase': phase, 'suite_defs': {}}
    cs = []
    for ci, v in enumerate(vals):
        defs = {'%s.%s' % (k, r): {'v': 0, 'ph': 'setup'} for r, _ in roles}
        defs['%s.%s' % (k, role)] = {'v': v, 'ph': 'setup'}
        cs.append({'id': 'c%d' % ci, 'defs': defs, 'exit': 0})
    return {'units': [] if is_act else [inst], 'act': inst if is_act else None, 'cases': cs, 'case_act': False,
            'orders': orders}


def enum_unit_matrix(tier, unit_list=None):
    """every unit x every symbol of it:
    quick: ONE suite of six cases that give the symbol the values  valid a, valid b, invalid (or wrong type / none),
    valid c, wrong type (or none), valid a  - so every case but the first runs after a case with another value, a
    valid value after an invalid one and the other way round - the unit in one phase (the suite's [cleanup], which
    comes after the case's, or an earlier phase - in turn);
    thorough: that chain over ALL values in every phase the unit may stand in, plus every pair of values as a suite of
    two cases, both orders."""
    for u in (units.UNITS + units.ACT_UNITS if unit_list is None else unit_list):
        for role, pool in sorted(u['syms'].items()):
            vals = units.pool_values(pool)
            n_valid = len(units.POOLS[pool][1])
            # a symbol is defined by the case's [setup], so the unit stands in a later phase of the suite; what the
            # case's [conf] says (home, act-home) also reaches the suite's [setup]
            later = [p for p in u['phases'] if p != 'setup' or units.is_conf_pool(pool)]
            if tier == 'quick':
                h = len(role) + len(u['id'])
                va, vb, vc = [(h + i) % n_valid for i in range(3)]
                odd = vals[n_valid:]  # invalid values, then 'wrong' (symbols only), then 'missing'
                invalid = [v for v in odd if isinstance(v, list)]
                third = invalid[h % len(invalid)] if invalid else odd[0]
                fifth = [v for v in odd[::-1] if v != third and not isinstance(v, list)] or [odd[-1]]
                chain = [va, vb, third, vc, fifth[h % len(fifth)], va]
                phase = later[-1 - h % min(2, len(later))] if not units.is_conf_pool(pool) else later[h % len(later)]
                yield _matrix_case(u, role, phase, chain, [list(range(len(chain)))])
                continue
            for phase in later:
                idx = list(range(len(vals)))
                yield _matrix_case(u, role, phase, vals, [idx, idx[::-1]])
                for a in range(len(vals)):
                    for b in range(a + 1, len(vals)):
                        yield _matrix_case(u, role, phase, [vals[a], vals[b]], [[0, 1], [1, 0]])


# ---- histories ---------------------------------------------------------------------------------------------------
def hi_render(case):
    out = ['(orders run: %s; the first %d cases of an order are listed by sub.suite)' % (case['orders'], case['split'])]
    for c in case['cases']:
        out.append('==> %s.case\n%s' % (c['id'], hist.render_case(c)))
    for name, text in sorted((case.get('shared') or {}).items()):
        out.append('==> %s\n%s' % (name, text))
    return '\n'.join(out)


_SECRET_LINE = re.compile(r'^([A-Za-z_][A-Za-z0-9_]*(?:KEY|TOKEN|SECRET|PASSWORD|CREDENTIAL)[A-Za-z0-9_]*)=(.+)$',
                          re.M | re.I)


def _mask_secrets(text):
    """`env | sort` of an observer prints the environment this check was started in: values of variables that look
    like credentials are replaced by a digest (a difference between two runs still shows) so that a replay file never
    carries them"""
    import hashlib
    return _SECRET_LINE.sub(lambda m: '%s=<masked:%s>' % (m.group(1),
                                                          hashlib.sha1(m.group(2).encode()).hexdigest()[:8]), text)


def _hi_collect(ws, run, ids):
    """-> {case id: {observation file: normalised text}}; the files are removed"""
    import json as _json
    res = {i: {} for i in ids}
    for fn in sorted(os.listdir(ws.obs)):
        cid = fn.split('.', 1)[0]
        if cid not in res or fn.endswith('.cfg'):
            continue
        path = os.path.join(ws.obs, fn)
        with open(path, 'rb') as f:
            text = f.read().decode('utf-8', errors='replace')
        os.remove(path)
        if fn.endswith('.py'):
            recs = []
            for ln in text.splitlines():
                try:
                    d = _json.loads(ln)
                except ValueError:
                    recs.append(ln)
                    continue
                d.pop('pid', None)
                recs.append(_json.dumps(d, sort_keys=True))
            text = '\n'.join(recs)
        res[cid][fn] = _mask_secrets(run.norm(text))
    return res


def _first_diff(a, b):
    """a, b: {file: text} -> short description of the first difference"""
    for fn in sorted(set(a) | set(b)):
        if a.get(fn) != b.get(fn):
            if fn not in a or fn not in b:
                return {'file': fn, 'standalone': a.get(fn, '<not written>')[:300], 'in suite': b.get(fn, '<not written>')[:300]}
            la, lb = a[fn].split('\n'), b[fn].split('\n')
            return {'file': fn, 'only standalone': [l for l in la if l not in lb][:8],
                    'only in suite': [l for l in lb if l not in la][:8]}
    return None


def _confirmed(check, case) -> Verdict:
    """for cases whose outcome involves a timeout of one second: a mismatch counts only if it shows up again when the
    case is evaluated a second time (a leak does; a process that an overloaded machine delayed by a second does not)"""
    v = check(case)
    if v.ok or v.inconclusive:
        return v
    v2 = check(case)
    if v2.ok or v2.inconclusive or v2.bucket != v.bucket:
        return Verdict(inconclusive=True, labels=list(v.labels) + ['mismatch-not-reproduced'])
    return v2


def check_histories(case) -> Verdict:
    if any(op[:2] == ['timeout', '1'] for c in case['cases'] for ops in c['ops'].values() for op in ops):
        return _confirmed(_check_histories, case)
    return _check_histories(case)


def _check_histories(case) -> Verdict:
    cases = case['cases']
    ids = [c['id'] for c in cases]
    labels = ['cases:%d' % len(cases), 'orders:%d' % len(case['orders'])]
    kinds = set()
    for c in cases:
        for ph, ops in c['ops'].items():
            for op in ops:
                kinds.add(op[0])
                labels.append('op:' + op[0])
        for k, v in c['conf'].items():
            if v:
                labels.append('conf:%s' % k)
    if case['split']:
        labels.append('layout:sub-suite')
    mutators = {'env', 'envof', 'unset', 'cd', 'timeout', 'def', 'file', 'dir', 'shfile', 'stdin'}
    observers = {'obs', 'use', 'exists', 'sleep'}

    def is_mut(c):
        return any(op[0] in mutators for ops in c['ops'].values() for op in ops) or any(c['conf'].values())

    def is_obs(c):
        return any(op[0] in observers for ops in c['ops'].values() for op in ops) or c['act']['kind'] in ('obs', 'py')

    nontrivial = any(is_mut(cases[o[a]]) and is_obs(cases[o[b]])
                     for o in case['orders'] for a in range(len(o)) for b in range(a + 1, len(o)))

    def bad(bucket, run=None, **extra):
        d = {'what': bucket}
        d.update(extra)
        if run is not None:
            d['run'] = run.brief()
        d['cases'] = hi_render(case)
        return fail('histories/' + bucket, d, labels=labels, nontrivial=nontrivial)

    with driver.Workspace() as ws:
        os.makedirs(os.path.join(ws.home, 'hd'))
        for c in cases:
            ws.write(c['id'] + '.case', hist.render_case(c))
        for name, text in (case.get('shared') or {}).items():
            ws.write(name, text)
            labels.append('shared-file:%d-phases' % (1 + text.count('\n[')))
        ref = {}
        for c in cases:
            ws.probe_cfg(c['id'] + '.py', exit=c['act']['code'], stdout='out-of-%s\n' % c['id'])
            run = Run(ws, [c['id'] + '.case'], extra_env=hist.EXTRA_ENV, isolate=True)
            p = run.process_problem()
            if p == 'timeout':
                return Verdict(inconclusive=True, labels=labels)
            if p:
                return bad('standalone/' + p, run)
            ident, problem = run.standalone_ident()
            if problem:
                return bad('standalone/output', run, why=problem)
            ref[c['id']] = (ident, _hi_collect(ws, run, ids)[c['id']])
            labels.append('standalone:' + ident)
        for order in case['orders']:
            names = [cases[i]['id'] + '.case' for i in order]
            k = case['split']
            if k:
                ws.write('sub.suite', '\n'.join(names[:k]) + '\n')
                ws.write('hist.suite', '[suites]\nsub.suite\n[cases]\n' + '\n'.join(names[k:]) + '\n')
            else:
                ws.write('hist.suite', '\n'.join(names) + '\n')
            run = Run(ws, ['suite', 'hist.suite'], extra_env=hist.EXTRA_ENV, isolate=True)
            p = run.process_problem()
            if p == 'timeout':
                return Verdict(inconclusive=True, labels=labels)
            if p:
                return bad('suite-run/' + p, run, order=order)
            events, final, problem = run.suite_events()
            if problem or run.r.exit_code not in (0, 4):
                return bad('suite-run/progress-output', run, why=problem, order=order)
            if [n for n, _ in events] != names:
                return bad('suite-run/case-list', run, order=order)
            obs = _hi_collect(ws, run, ids)
            for pos, i in enumerate(order):
                cid = cases[i]['id']
                got = (events[pos][1], obs[cid])
                if got == ref[cid]:
                    continue
                earlier = [cases[j]['id'] for j in order[:pos]]
                if got[0] != ref[cid][0]:
                    return bad('outcome-depends-on-earlier-cases/%s/%s' % (ref[cid][0], got[0]), run, case_file=cid,
                               order=order, earlier_cases=earlier, difference=_first_diff(ref[cid][1], got[1]))
                d = _first_diff(ref[cid][1], got[1])
                what = 'observation'
                txt = str(d)
                if 'VERIF_' in txt:
                    what = 'environment'
                elif '<SDS>' in txt or '<WS>' in txt:
                    what = 'directories-or-files'
                return bad('%s-depends-on-earlier-cases' % what, run, case_file=cid, order=order,
                           earlier_cases=earlier, difference=d)
            if (final, run.r.exit_code) != (('OK', 0) if all(i in SUCCESS for _, i in events) else ('ERROR', 4)):
                return bad('suite-run/final', run, order=order)
    return Verdict(True, nontrivial=nontrivial, labels=sorted(set(labels)), sample=hi_render(case))


# ---- a real OS process behaves like the in-process run ---------------------------------------------------------
def check_subprocess(case) -> Verdict:
    files = sc_files(case)
    root = case['root']
    labels = ['subprocess']
    obs = []
    with driver.Workspace() as ws:
        ws.write_files(files)
        for d in ('d1', 'd2', 'sub/d1', 'sub/d2'):
            os.makedirs(os.path.join(ws.home, d), exist_ok=True)
        for how in (False, True):
            run = Run(ws, ['suite', root['file']], extra_env=_SC_ENV, subprocess=how)
            if run.r.timed_out:
                return Verdict(inconclusive=True, labels=labels)
            events, final, problem = run.suite_events()
            groups, problem2 = run.groups()
            obs.append({'exit': run.r.exit_code, 'events': events, 'final': final, 'problem': problem or problem2,
                        'markers': [['%s|%s' % l for l in lines] for _, lines in groups],
                        'sandboxes left': run.r.sandboxes})
    if obs[0] != obs[1]:
        return fail('subprocess-differs-from-in-process', {'in-process': obs[0], 'subprocess': obs[1],
                                                           'files': sc_render(case)}, labels=labels, nontrivial=True)
    return Verdict(True, nontrivial=True, labels=labels + ['final:%s' % obs[0]['final']])


def enum_subprocess_sample(tier):
    """a fixed sample of the phase-subset hierarchies (a real OS process costs 0.7 s): quick 16, thorough ~580"""
    step = 16 if tier == 'quick' else 7
    for i, c in enumerate(gen.enum_phase_subsets(tier)):
        if i % step == 5:
            yield c


# ---- the manual still says what the model transcribes -------------------------------------------------------------
def check_manual(case) -> Verdict:
    with driver.Workspace() as ws:
        r = driver.run_inproc(ws, case['args'])
    if r.exit_code != 0 or r.exception:
        return fail('manual-unavailable', {'args': case['args'], 'exit': r.exit_code, 'exc': r.exception})
    txt = ' '.join(r.out.split())
    for needle in case['needles']:
        if not re.search(needle, txt):
            return fail('manual-differs/' + case['what'], {'missing': needle, 'text': r.out[:3000]})
    return Verdict(True, nontrivial=True, key='manual:' + case['what'], labels=['manual:' + case['what']])


_BEFORE = r'The section contents is included before the contents of the "%s" phase of each test case'
_MANUAL = [{'what': 'suite-' + ph, 'args': ['help', 'suite', ph], 'needles': [_BEFORE % ph]}
           for ph in ['conf', 'setup', 'act', 'before-assert', 'assert']] + [
    {'what': 'suite-cleanup', 'args': ['help', 'suite', 'cleanup'],
     'needles': [r'The section contents is included after the contents of the "cleanup" phase of each test case']},
    {'what': 'suite-spec', 'args': ['help', 'suite', 'spec'],
     'needles': [r'The contents is included in every test case in the suite',
                 r'the contents is only included in test cases listed directly in the suite - not in sub suites',
                 r'A section may appear any number of times\. The contents of all appearances are accumulated',
                 r'The order of sections is irrelevant']},
    {'what': 'preprocessor', 'args': ['help', 'suite', 'conf', 'preprocessor'],
     'needles': [r'only used for the test cases in the current suite - not in sub suites']},
    {'what': 'cli-suite-option', 'args': ['help', 'case'],
     'needles': [r'--suite FILE Runs the test case as if it were part of the given suite\. This overrides the default '
                 r'suite file "exactly\.suite"',
                 r'If there exists a file "exactly\.suite" in the same directory as FILE, then this file must be a test '
                 r'suite, and the test case is run as part of this suite']},
    {'what': 'cleanup-always', 'args': ['help', 'cleanup'],
     'needles': [r'If the "status" is set to SKIP, then this phase is not executed\. Otherwise: This phase is always '
                 r'executed']},
    {'what': 'sds-per-execution', 'args': ['help', 'concept', 'sandbox directory structure'],
     'needles': [r'Each execution of a test case uses its own "sandbox directory structure"',
                 r'deleted when test case execution ends']},
    {'what': 'def-once', 'args': ['help', 'setup', 'def'],
     'needles': [r'SYMBOL-NAME must not have been defined earlier',
                 r'available in all following instructions and phases']},
    {'what': 'home-relative-to-file', 'args': ['help', 'conf', 'home'],
     'needles': [r"relative to the location of the current source file - the file that contains the instruction"]},
    {'what': 'command-line-actor', 'args': ['help', 'actor', 'command', 'line'],
     'needles': [r'A single PROGRAM element']},
    {'what': 'null-actor', 'args': ['help', 'actor', 'null'], 'needles': [r'Ignores the contents of the \[act\] phase']},
]

# ---- cases that cost seconds (a process outlives / does not outlive a timeout) ---------------------------------------
def enum_slow(tier):
    for h in hist.timeout_histories(tier):
        yield {'kind': 'history', 'case': h}
    for u in units.SLOW_UNITS:
        later = [p for p in u['phases'] if p != 'setup']
        for phase in (later[:1] if tier == 'quick' else later):
            for role in sorted(u['syms']):
                yield {'kind': 'unit', 'case': _matrix_case(u, role, phase, [0, 1],
                                                            [[0, 1]] if tier == 'quick' else [[0, 1], [1, 0]])}


def check_slow(case) -> Verdict:
    if case['kind'] == 'history':
        return check_histories(case['case'])
    return _confirmed(check_suite_symbols, case['case'])


def slow_render(case):
    return hi_render(case['case']) if case['kind'] == 'history' else ss_render(case['case'])


SUBS = [
    # first: few cases that mostly wait - one shard each, so that they are started at once
    Sub('slow_cases', check_slow, enumerate=enum_slow, exhaustive=True, render=slow_render,
        shards={'quick': 5, 'thorough': 16}),
    Sub('histories', check_histories, strategy=lambda tier: hist.histories(tier),
        budget={'quick': 220, 'thorough': 5000}, render=hi_render),
    Sub('manual_agrees', check_manual, enumerate=lambda tier: _MANUAL, exhaustive=True,
        shards={'quick': 1, 'thorough': 1}),
    Sub('suite_contents', check_suite_contents, strategy=lambda tier: gen.suite_with_contents(),
        budget={'quick': 350, 'thorough': 15000}, render=sc_render),
    Sub('phase_subsets_matrix', check_suite_contents, enumerate=gen.enum_phase_subsets, exhaustive=True,
        render=sc_render),
    Sub('symbol_units_matrix', check_suite_symbols, enumerate=enum_unit_matrix, exhaustive=True, render=ss_render),
    Sub('suite_symbols', check_suite_symbols, strategy=lambda tier: units.suites_with_symbol_consumers(tier),
        budget={'quick': 300, 'thorough': 10000}, render=ss_render),
    Sub('subprocess_differential', check_subprocess, enumerate=enum_subprocess_sample, render=sc_render),
]
