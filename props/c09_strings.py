"""C09 - String syntax: quoting, concatenation, here-documents denote one exact string.

Layer (a) `cli_roundtrip` / `cli_unicode_space`: a test case is rendered from fragments (naked / soft / hard quoted,
with symbol references), separators and a host instruction; the real program runs it (`--keep`) and the denoted
value is read back from what the case did with it: the file it created (`file o = ...`, `file o += ...`,
`def string` / `def text-source` + `file o = @[X]@`), the name of the created file (`file NAME`), the argument
vector a probe program received (`% probe ARGS`, `run % probe ARGS`, `run ( % probe ARGS )`, `run @ PR ARGS`,
`def list` + `% probe @[X]@`, `[act]`), the probe's stdin (`stdin = ...`, `-stdin ...`), the probe's environment
(`env V_ = ...`) or the verdict of `equals ...` against a file with known contents.  The oracle is
`vlib/ref/c09_reader.py`, an independent reader of the syntax as the built-in manual describes it.  Malformed forms
(unterminated quote, missing here-document end marker, naked reserved word, superfluous argument) must give
SYNTAX_ERROR reported at the first line of the instruction that contains them, in the file that contains it.
The instruction is followed by another instruction, directly by the instruction that uses the value / a phase
header, or by the end of the file (with and without final line break), and may be the last one of an included file.

Layer (b) `tokenizer_diff`: `TokenStream` (token string, quotedness, source string, position, remaining part of
the current line, line-wise consumption) against the reader's tokenizer over generated sources and operation
sequences.

Layer (c) `tokenizer_small`: the same comparison, exhaustively over all sources up to length 4 (quick) / 5
(thorough) of a 10 character alphabet.

`cli_examples`: the examples the manual itself gives for these syntax elements, and the minimal input of every
finding, with the documented value.

`cli_matrix`: the product (string form: naked / soft / hard / adjacent fragments with references / `:>` / here
document / empty here document / unterminated soft and hard quote / here document without end marker) x (host) x
(what follows the instruction) x (test case file / included file), and every reserved word naked / soft / hard
quoted / with an empty quoted fragment added in every host - enumerated, so that every combination is met in every
run (the thorough tier adds the kinds of next token).
"""
import itertools
import json
import os
import re

from vlib import driver
from vlib.gen import c09_gen as gen
from vlib.ref import c09_reader as ref
from vlib import fuzz
from vlib.runner import Sub, Verdict, fail

PROPERTY_ID = 'C09'
LEVEL = 'exploration'
RULE = ('cli_examples: the manual\'s own examples for STRING/RICH-STRING/LIST/SYMBOL-REFERENCE and the minimal input of '
        'every finding (enumerated, all counted). cli_matrix: enumerated product of 10 string forms x 15 hosts x 4 '
        'kinds of what follows the instruction x (test case file / included file), plus every reserved word naked / '
        'soft / hard / partly quoted in every host; cases that render to the same files are counted once. '
        'cli_roundtrip: Hypothesis draws (host in def string/def text-source/'
        'file =/file +=/file NAME/env/stdin/-stdin/equals/def list/% args/run % args/run ( % args )/run @ PR args/'
        '[act]) x (items: tokens of 1-4 adjacent naked/soft/hard fragments over an alphabet with blanks, both quotes, '
        '@[ ]@, reserved words, option-like words, #, backslash, newline-in-quotes, non-ASCII, references to string/'
        'list/path/undefined symbols; `:> text`; here documents with marker-like/header-like/comment-like lines; '
        'unterminated quotes; missing end markers) x separators (blanks, tabs, backslash continuation) x next token '
        '(end of line, argument, option, quoted reserved word, parenthesis) x what follows the instruction (another '
        'instruction, the using instruction / a phase header, end of file with / without final line break) x (in the '
        'test case file / last instruction of an included file); non-trivial = the target contains a special '
        'character, >= 2 fragments in a token, `:>` or a here document; distinct = distinct (host, target instruction '
        'text, end). cli_unicode_space: the same with 1-2 Unicode white-space characters other than blank/tab/LF '
        '(NBSP, FF, VT, FS..US, NEL, U+1680, U+2000-200A, U+2028/9, U+202F, U+205F, U+3000) added to every alphabet: '
        'at the start / end / inside of naked fragments, next to quotes, inside quotes, as whole tokens, before and '
        'after a continuation backslash, after a here-document start, in `:>` text and here-document lines. '
        'tokenizer_diff: Hypothesis draws of (source text, sequence of consume / consume-rest-of-line operations); '
        'non-trivial = source has a quote, `#`, newline or >= 2 tokens; distinct = distinct (source, ops). '
        'tokenizer_small: every string over {a,space,newline,",\',#,\\,@,=,NBSP} up to length 4 (quick) / 5 '
        '(thorough), token-wise consumption; all counted. tokenizer_fuzz: coverage-guided campaigns (atheris/'
        'libFuzzer, shlex and TokenStream instrumented) over the same tokenizer oracle; bytes are decoded into '
        '(operations, fragments of a fixed syntax alphabet); every second campaign starts from an empty corpus; '
        'mismatches are collected per bucket and replayed through tokenizer_diff')
ASSUMPTIONS = [
    'the manual says "whitespace" without naming the characters. Reading A: blank, tab, CR, LF. Readings B(U): these '
    'plus a set U of the other Unicode white-space characters that occur in the instruction. A case passes when ONE '
    'reading explains the whole observation (all tokens, end-of-line tests and `:>` trimming of the instruction); a '
    'character may not be white space at the edge of a token and an ordinary character inside the same instruction. '
    '"Whitespace at both ends is removed" (`:>`) may independently mean every Unicode white-space character. '
    'A line ends at LF only; CR is not generated in test case files (they are read with universal newlines)',
    'the tokenizer-level sub-checks use reading A (TokenStream documents its tokens as those of a shell-like lexer '
    'with whitespace blank/tab/CR/LF)',
    'a quoted fragment may contain line breaks (the manual puts no restriction on CHARACTER inside quotes)',
    'a symbol reference that only comes into being by concatenating adjacent naked/soft fragments (`@["S"]@`) '
    'may or may not be substituted - both readings accepted (reader flag xref)',
    'a reserved word of which only a part is quoted (`=""`) may be a string or a syntax error; a naked reference '
    'to a list/path symbol as the whole TEXT-SOURCE of `file` may be rendered as a string or refused with '
    'VALIDATION_ERROR (TEXT-SOURCE says "text-source or string", STRING says "in most places") - both readings '
    'accepted (reader flag strict)',
    'not generated because the manual is open: a naked string that starts with `<<` (here-document look-alike), '
    'a naked `\\` as the last character of a longer last token on a list line, a continuation line that starts '
    'with `[`, here-document markers outside [0-9a-zA-Z_-]+, end-marker lines with white space after the '
    'marker, a transformation after a here document, `file NAME` with an option-like name, a reference to a list / '
    'path symbol, or a value that is no plain file name (empty, `.`, `..`, contains `/`, > 200 bytes)',
    'TokenStream.position is only required to lie between the end of the previous token and the start of the '
    'head token without passing a line break (how much inter-token whitespace is consumed is not specified)',
    'a reference to an undefined symbol in a substituting fragment gives VALIDATION_ERROR (property C08)',
    'in [act] the arguments are written on one physical line, and a here document there has no empty, comment-like, '
    '`[`- or `\\`-leading lines (`help act` / `help actor command line`: empty and comment lines are allowed and '
    'ignored, `[` starts a phase header, `\\[` and `\\\\` are escape sequences at the start of a line); the line '
    'number of a syntax error in [act] is not checked (the actor reports the phase and its source, not a line)',
    '`equals` only shows whether the denoted string is equal to the expected one (the contents of a file written '
    'with the value the reader gives under its first reading)',
]

# No finding of this property is "known": KF-C09-1 ... KF-C09-7 are repaired in /repo, so there is no defect model
# in this module - every mismatch is a violation (replays/C09/regress-kf*.json pin the repaired cases).


# =====================================================================================================================
# layer (a)
# =====================================================================================================================
_INSTRUCTION_NAMES = ('$', '%', 'cd', 'copy', 'def', 'dir', 'env', 'file', 'run', 'stdin', 'timeout', 'including',
                      'exit-code', 'contents', 'stdout', 'stderr', 'exists', 'dir-contents')


def _leftover(text, end, target_end, ws):
    """The instruction ended at `end`, before the text written for it: what do the left-over lines give?

    -> the number of the first left-over line that is an instruction line and starts with a word that is no
    instruction name (a syntax error there), else None (not predicted).  `ws` = the white space of the reading."""
    nl = text.find('\n', end)
    if nl < 0:
        return None
    line_no = text.count('\n', 0, nl) + 2
    for line in text[nl + 1:target_end].split('\n'):
        st = line.strip(ws)
        if st == '' or st.startswith('#'):
            line_no += 1
            continue
        first_word = re.split('[' + re.escape(ws) + ']', st, maxsplit=1)[0]
        if st.startswith('[') or first_word in _INSTRUCTION_NAMES:
            break
        return line_no
    return None


def _variants(target_text):
    present = sorted(set(c for c in target_text if c in ref.UNICODE_WS))
    if not present:
        subsets = ['']
    elif len(present) <= 3:
        subsets = [''.join(s) for n in range(len(present) + 1) for s in itertools.combinations(present, n)]
    else:
        subsets = [''] + present + [''.join(present)]
    eol = (False, True) if present else (False,)
    return [dict(ws_extra=w, eol_uni=e, xref=x, strict=s)
            for w in subsets for e in eol for x in (False, True) for s in (False, True)]


_SAFE_NAME_MAX = 200


def _observable(host, oc, ctx):
    """Reader outcome -> what the check can observe for this host."""
    kind = oc[0]
    if kind == 'str':
        v = oc[1]
        if host == 'fname':
            if v in ('', '.', '..') or '/' in v or '\0' in v or len(v.encode('utf-8')) > _SAFE_NAME_MAX:
                return ['unsupported']
            return ['name', v]
        if host == 'equals':
            return ['eq', v == ctx['exp']]
        return ['str', v]
    if kind == 'list' and host == 'symargs':
        return ['list', ['pre1'] + oc[1]]
    return oc


def _outcomes(host, rd, symbols, ctx):
    """-> {predicted outcome (JSON string): [reading...]} over the open readings."""
    text, pos, target_end = rd['text'], rd['arg_pos'], rd['target_end']
    out = {}
    for var in _variants(rd['target']):
        oc, end = ref.read_host(host, text, pos, symbols, **var)
        if oc[0] == 'syntax':
            oc = ['syntax', _PHASE.get(host, 'setup'), None if host == 'act' else rd['location']]
        elif oc[0] != 'unsupported':
            # the value must end where the instruction ends, else the following lines are something else
            if end > target_end:
                oc = ['illformed']
            elif text[end:target_end].strip(ref.ASCII_WS + var['ws_extra']) != '':
                line = _leftover(text, end, target_end, ref.ASCII_WS + var['ws_extra']) if host != 'act' else None
                oc = ['illformed'] if line is None else ['syntax', _PHASE.get(host, 'setup'),
                                                         rd['location'][:-1] + [[rd['src_name'], line]]]
        oc = _observable(host, oc, ctx)
        out.setdefault(json.dumps(oc, ensure_ascii=False), []).append(var)
    return out


_LOC_RE = re.compile(r'^(\S[^\n]*), line (\d+)$', re.M)
_PHASE_RE = re.compile(r'^In \[([a-z-]+)\]$', re.M)
_PHASE = {'act': 'act', 'equals': 'assert'}
_KNOWN_ACT_NAMES = ('o', 'd1', 'd2', 'd9')


def _observe(ws, r, host):
    """-> outcome in the shape of the (observable) reader outcomes"""
    if r.exception or r.timed_out:
        return ['crash', r.exception or 'timeout']
    first = r.first_err_line
    if r.exit_code == 0 and first == 'PASS':
        sds = r.out.strip()
        if host in ('defstr', 'deftsrc', 'file', 'fileapp'):
            path = os.path.join(sds, 'act', 'o')
            try:
                with open(path, 'rb') as f:
                    return ['str', f.read().decode('utf-8', errors='replace')]
            except OSError as ex:
                return ['no-file', str(ex)]
        if host == 'fname':
            names = sorted(n for n in os.listdir(os.path.join(sds, 'act')) if n not in _KNOWN_ACT_NAMES)
            return ['name', names[0]] if len(names) == 1 else ['names', names]
        if host == 'equals':
            return ['eq', True]
        recs = ws.probe_records('p')
        if len(recs) != 1:
            return ['probe-runs', len(recs)]
        if host == 'env':
            return ['str', recs[0]['env']['V_']] if 'V_' in recs[0]['env'] else ['env-var-not-set']
        if host in ('stdin', 'pstdin'):
            return ['str', recs[0]['stdin']]
        return ['list', recs[0]['argv']]
    if r.exit_code != 0 and first == 'FAIL' and host == 'equals':
        return ['eq', False]
    if r.exit_code == 65 and first == 'SYNTAX_ERROR':
        head = r.err.split('\n\n\n')[0]
        loc = [[m.group(1), int(m.group(2))] for m in _LOC_RE.finditer(head)]
        m = _PHASE_RE.search(head)
        return ['syntax', m.group(1) if m else None, None if host == 'act' else loc]
    if r.exit_code == 65 and first == 'VALIDATION_ERROR':
        return ['validation']
    return ['other', r.exit_code, first]


_CHAR_CLASS = {' ': 'blank', '\t': 'blank', '\n': 'newline', "'": 'hard-quote-char', '"': 'soft-quote-char', '@': 'at',
               '[': 'bracket', ']': 'bracket', '(': 'bracket', ')': 'bracket', '{': 'bracket', '}': 'bracket',
               '#': 'hash', '\\': 'backslash', '=': 'operator-char', ':': 'operator-char', '|': 'operator-char',
               '!': 'operator-char', '&': 'operator-char', '-': 'dash', '<': 'angle', '>': 'angle', 'é': 'non-ascii'}
_REF_TYPE = {'S': 'string', 'E': 'string', 'a_b': 'string', 'U': 'string', 'L': 'list', 'L0': 'list', 'P': 'path'}
_UWS_NAME = {'\xa0': 'NBSP', '\x0c': 'FF', '\x0b': 'VT', '\x85': 'NEL', '\u2028': 'LS', '\u2029': 'PS',
             '\u3000': 'U+3000'}


def _uws_labels(rd, seen):
    """Where do the Unicode white-space characters stand?"""
    u = ref.UNICODE_WS
    for it in rd['norm_items']:
        if it[0] == 'tok':
            frags = it[1]
            for i, (k, t) in enumerate(frags):
                if not any(c in u for c in t):
                    continue
                if k != 'n':
                    seen.add('uws:in-quotes')
                    continue
                if t.strip(u) == '':
                    seen.add('uws:whole-token' if len(frags) == 1 else 'uws:whole-naked-fragment-next-to-quote')
                    continue
                first, last = i == 0, i == len(frags) - 1
                if t[0] in u:
                    seen.add('uws:token-start' if first else 'uws:after-quote')
                if t[-1] in u:
                    seen.add('uws:token-end' if last else 'uws:before-quote')
                if any(c in u for c in t.strip(u)):
                    seen.add('uws:inside-naked')
        elif it[0] == 'eol':
            t = it[1]
            if any(c in u for c in t):
                seen.add('uws:eol-text-edge' if t.strip(' \t') != t.strip(' \t' + u) else 'uws:eol-text-inside')
        else:
            if any(c in u for l in it[2] for c in l):
                seen.add('uws:here-line')


def _labels_cli(case, rd, doc_kinds):
    host = case['host']
    labels = ['host:' + host, 'next:%s' % rd['next'], 'end:' + rd['end'] + ('-of-included-file' if rd['inc'] else '')]
    seen = set()
    for it in rd['norm_items']:
        seen.add('item:' + it[0])
        texts = []
        if it[0] == 'tok':
            frags = it[1]
            kinds = set(k[-1] for k, _ in frags)
            if len(frags) > 1:
                seen.add('mix:' + (''.join(sorted(kinds)) if len(kinds) > 1 else 'same-kind'))
            for k, t in frags:
                if k in ('us', 'uh'):
                    seen.add('frag:unterminated-' + ('soft' if k == 'us' else 'hard'))
                texts.append((k[-1], t))
            if len(frags) == 1 and frags[0][0] == 'n' and frags[0][1] in gen.RESERVED:
                seen.add('naked-reserved-word')
            elif ''.join(t for _, t in frags) in gen.RESERVED:
                seen.add('quoted-reserved-word')
            nrefs = sum(len(ref.REF_RE.findall(t)) for _, t in frags)
            if nrefs >= 2 and len(frags) >= 2:
                seen.add('refs:several-in-multi-fragment-token')
        elif it[0] == 'eol':
            texts.append(('eol', it[1]))
        else:
            m = it[1]
            for l in it[2]:
                texts.append(('here', l))
                if l != m and m in l:
                    seen.add('here:marker-like-line')
                if l.startswith('['):
                    seen.add('here:header-like-line')
                if l.startswith('#'):
                    seen.add('here:comment-like-line')
                if l.strip() == '':
                    seen.add('here:blank-line')
            if not it[3]:
                seen.add('here:no-end-marker')
        for k, t in texts:
            for ch in t:
                if ch in _CHAR_CLASS:
                    seen.add('chr:' + _CHAR_CLASS[ch])
            for m in ref.REF_RE.finditer(t):
                seen.add('ref:' + _REF_TYPE.get(m.group(1), 'undefined'))
                seen.add('ref-in:' + {'n': 'naked', 's': 'soft', 'h': 'hard'}.get(k, k))
    for s in case['seps']:
        if '\n' in s and host != 'act':
            seen.add('sep:continuation')
    present = set(c for c in rd['target'] if c in ref.UNICODE_WS)
    if present:
        _uws_labels(rd, seen)
        for c in present:
            seen.add('uws-char:' + _UWS_NAME.get(c, 'other'))
        for k in ('pre', 'tail'):
            if any(c in ref.UNICODE_WS for c in case.get(k, '')):
                seen.add('uws:' + k)
        if any(c in ref.UNICODE_WS for s in case['seps'] for c in s):
            seen.add('uws:separator')
    labels.extend(sorted(seen))
    labels.extend('expect:' + k for k in sorted(doc_kinds))
    return labels


def _nontrivial(rd):
    for it in rd['norm_items']:
        if it[0] != 'tok':
            return True
        if len(it[1]) >= 2:
            return True
        for _, t in it[1]:
            if any(ch in gen.SPECIAL_CHARS for ch in t):
                return True
    return False


def check_cli(case) -> Verdict:
    rd = gen.render(case)
    host = case['host']
    key = host + '|' + rd['end'] + ('|inc|' if rd['inc'] else '|') + rd['target']
    nontrivial = _nontrivial(rd)
    with driver.Workspace() as ws:
        symbols = {k: (t, (ws.subst(v) if isinstance(v, str) else v)) for k, (t, v) in gen.SYMBOLS.items()}
        ctx = {'exp': ''}
        if host == 'equals':
            # the expected text = the value under the first reading that gives one
            for var in _variants(rd['target']):
                oc, _ = ref.read_host(host, rd['text'], rd['arg_pos'], symbols, **var)
                if oc[0] == 'str':
                    ctx['exp'] = oc[1]
                    break
        doc = _outcomes(host, rd, symbols, ctx)
        doc_kinds = {json.loads(o)[0] for o in doc}
        labels = _labels_cli(case, rd, doc_kinds)
        open_a = {json.loads(o)[0] for o, vs in doc.items() if any(v['ws_extra'] == '' for v in vs)} & \
                 {'illformed', 'unsupported'}
        if open_a:
            return Verdict(True, nontrivial=False, labels=labels + ['skipped:' + '+'.join(sorted(open_a))])
        for name, text in rd['files'].items():
            ws.write(name, text)
        if host == 'equals':
            ws.write('exp', ctx['exp'].encode('utf-8'))
        r = driver.run_inproc(ws, ['--keep', 't.case'])
        actual = _observe(ws, r, host)
        stderr_head = r.err[:700]
    actual_s = json.dumps(actual, ensure_ascii=False)

    def detail(what, **kw):
        d = {'what': what, 'host': host, 'target_instruction': rd['target'], 'location': rd['location'],
             'expected_any_of': sorted(doc), 'observed': actual, 'stderr': stderr_head, 'files': rd['files']}
        d.update(kw)
        return d

    if actual_s in doc and json.loads(actual_s)[0] not in ('illformed', 'unsupported'):
        how = 'A' if any(v['ws_extra'] == '' for v in doc[actual_s]) else 'B'
        if len(doc) > 1:
            labels = labels + ['readings-differ:observed-is-' + how]
        return Verdict(True, nontrivial=nontrivial, key=key, labels=labels + ['verdict:ok'])
    if doc_kinds & {'illformed', 'unsupported'}:
        # one of the white-space readings leads outside the part of the syntax that the reader models
        return Verdict(True, nontrivial=False, labels=labels + ['skipped:open-under-a-reading'])
    exp_kind = '+'.join(sorted(doc_kinds))
    what = 'value differs'
    if actual[0] == 'syntax' and 'syntax' in doc_kinds:
        what = 'syntax error reported at another place than the instruction'
        exp_kind = 'syntax-at-line'
    return fail('cli/%s/expected-%s/got-%s' % (host, exp_kind, actual[0]), detail(what),
                labels=labels + ['verdict:violation'], nontrivial=nontrivial, key=key)


# =====================================================================================================================
# layers (b), (c)
# =====================================================================================================================
def _run_token_stream(src, ops):
    """Drives TokenStream; -> log of observations (one per state: after construction and after every operation)."""
    from exactly_lib.section_document.element_parsers.token_stream import TokenStream, TokenSyntaxError, \
        LookAheadState
    log = []

    def snap(ts, op, ret):
        head = ts.head
        st = ts.look_ahead_state
        rec = {
            'op': op, 'ret': ret, 'pos': ts.position,
            'state': {LookAheadState.HAS_TOKEN: 'tok', LookAheadState.NULL: 'null',
                      LookAheadState.SYNTAX_ERROR: 'err'}[st],
            'is_null': ts.is_null,
            'head': None if head is None else [bool(head.is_quoted), head.string, head.source_string],
            'rpocl': ts.remaining_part_of_current_line,
            'rest_ok': ts.remaining_source == src[ts.position:],
            'after_head': len(src) - len(ts.remaining_source_after_head),
            'at_end': ts.is_at_end,
            'line_empty': ts.remaining_part_of_current_line_is_empty,
        }
        log.append(rec)

    try:
        ts = TokenStream(src)
    except Exception as ex:  # noqa
        return [{'op': 'new', 'exception': '%s: %s' % (type(ex).__name__, ex)}]
    snap(ts, 'new', None)
    for op in ops:
        last = log[-1]
        try:
            if op == 0:
                if last['is_null'] and last['state'] != 'err':
                    continue  # precondition of consume: not is_null
                try:
                    t = ts.consume()
                    ret = None if t is None else [bool(t.is_quoted), t.string, t.source_string]
                except TokenSyntaxError:
                    ret = 'TokenSyntaxError'
                snap(ts, 'consume', ret)
            elif op == 1:
                ret = ts.consume_remaining_part_of_current_line_as_string()
                snap(ts, 'rest_of_line', ret)
            else:
                ret = ts.consume_current_line_as_string_of_remaining_part_of_current_line()
                snap(ts, 'line', ret)
        except Exception as ex:  # noqa
            log.append({'op': op, 'exception': '%s: %s' % (type(ex).__name__, ex)})
            break
    return log


def _explain(src, log):
    """First disagreement between the log and the reference tokenizer (None = consistent)."""
    n = len(src)
    prev = None
    cur_tok = None  # the reference token that is the expected head
    line_ws = ref.ASCII_WS
    for i, rec in enumerate(log):
        if 'exception' in rec:
            return {'step': i, 'what': 'exception', 'observed': rec['exception']}
        pos = rec['pos']
        op = rec['op']
        inherit = False  # the head is expected to be what it was before the operation
        # ---- where may the position be? -------------------------------------------------------------------
        if op == 'new':
            lo = hi = 0
        elif op == 'consume':
            if prev['state'] == 'err':
                if rec['ret'] != 'TokenSyntaxError':
                    return {'step': i, 'what': 'consume of a malformed head must raise TokenSyntaxError',
                            'observed': rec['ret']}
                lo = hi = prev['pos']
                inherit = True
            else:
                if rec['ret'] != prev['head']:
                    return {'step': i, 'what': 'consume must return the head', 'observed': rec['ret'],
                            'expected': prev['head']}
                ht = cur_tok
                lo = ht.end
                nt = ref.next_token(src, lo)
                hi = nt.start if nt.kind != 'null' else n
                nl = src.find('\n', lo)
                if nl != -1:
                    hi = min(hi, nl)
        else:
            le = ref.line_end(src, prev['pos'])
            rest = src[prev['pos']:le]
            if rec['ret'] != rest:
                return {'step': i, 'what': 'text of the rest of the line', 'observed': rec['ret'],
                        'expected': rest}
            lo = hi = le if op == 'rest_of_line' else min(n, le + 1)
        if not (lo <= pos <= hi):
            return {'step': i, 'what': 'position', 'observed': pos, 'expected': [lo, hi]}
        # ---- the head -------------------------------------------------------------------------------------
        if inherit:
            if [rec['state'], rec['head'], rec['after_head']] != [prev['state'], prev['head'], prev['after_head']]:
                return {'step': i, 'what': 'look-ahead must be unchanged', 'observed': [rec['state'], rec['head']],
                        'expected': [prev['state'], prev['head']]}
        else:
            t = ref.next_token(src, pos)
            cur_tok = t
            if rec['state'] != t.kind:
                return {'step': i, 'what': 'look-ahead state', 'observed': rec['state'], 'expected': t.kind,
                        'expected_token': t.as_list()}
            if t.kind == 'tok':
                exp = [not t.all_naked, t.string, src[t.start:t.end]]
                if rec['head'] != exp:
                    return {'step': i, 'what': 'head token [is_quoted, string, source_string]',
                            'observed': rec['head'], 'expected': exp}
                after = rec['after_head']
                nt = ref.next_token(src, t.end)
                hi2 = nt.start if nt.kind != 'null' else n
                if not (t.end <= after <= hi2):
                    return {'step': i, 'what': 'remaining_source_after_head', 'observed': after,
                            'expected': [t.end, hi2]}
            else:
                if rec['head'] is not None or not rec['is_null']:
                    return {'step': i, 'what': 'head must be null', 'observed': rec['head']}
        le = ref.line_end(src, pos)
        if rec['rpocl'] != src[pos:le]:
            return {'step': i, 'what': 'remaining_part_of_current_line', 'observed': rec['rpocl'],
                    'expected': src[pos:le]}
        if not rec['rest_ok']:
            return {'step': i, 'what': 'remaining_source'}
        if rec['at_end'] != (pos == n):
            return {'step': i, 'what': 'is_at_end', 'observed': rec['at_end']}
        if rec['line_empty'] != (src[pos:le].strip(line_ws) == ''):
            return {'step': i, 'what': 'remaining_part_of_current_line_is_empty', 'observed': rec['line_empty']}
        prev = rec
    return None


def check_tok(case) -> Verdict:
    src, ops = case['src'], case['ops']
    log = _run_token_stream(src, ops)
    toks = ref.tokenize(src)
    labels = ['tokens:%d' % min(len(toks) - 1, 5), 'end:' + toks[-1].kind]
    kinds = set()
    uws = any(c in ref.UNICODE_WS for c in src)
    for t in toks:
        for k, _ in t.frags:
            kinds.add(k)
        if t.kind == 'tok' and len(t.frags) > 1 and 'multi-fragment-token' not in labels:
            labels.append('multi-fragment-token')
        if uws and t.kind == 'tok':
            s = src[t.start:t.end]
            if s.strip(ref.UNICODE_WS) == '':
                labels.append('uws:whole-token')
            elif s != s.strip(ref.UNICODE_WS):
                labels.append('uws:token-edge')
            elif any(c in ref.UNICODE_WS for c in s):
                labels.append('uws:inside-token')
    labels = sorted(set(labels))
    labels.extend('frag:' + k for k in sorted(kinds))
    for ch, name in (('#', 'hash'), ('\n', 'newline'), ('\\', 'backslash'), ('é', 'non-ascii'), ('@[', 'ref-open'),
                     ('\r', 'CR')):
        if ch in src:
            labels.append('src:' + name)
    if re.search(r'["\']\n', src):
        labels.append('src:quote-then-newline')
    for rec in log:
        if rec.get('op') in ('rest_of_line', 'line'):
            labels.append('op:line-wise')
            break
    nontrivial = len(toks) > 2 or any(c in src for c in '"\'#\n') or uws
    key = json.dumps([src, ops], ensure_ascii=False)
    why = _explain(src, log)
    if why is None:
        return Verdict(True, nontrivial=nontrivial, key=key, labels=labels + ['verdict:ok'])
    return fail('tok/%s' % why['what'].split(' [')[0], {'source': src, 'ops': ops, 'difference': why, 'log': log},
                labels=labels + ['verdict:violation'], nontrivial=nontrivial, key=key)


# =====================================================================================================================
# fixed examples: the manual's own examples, and the minimal inputs of the findings
# =====================================================================================================================
_EX_SYMS = "[setup]\ndef string S = 'sval'\ndef list L = 'e1' 'e 2'\n"
_EX_PROBE = gen.PROBE_PREFIX
_NB = '\xa0'
EXAMPLES = [
    # --- from the manual ---
    {'name': 'manual: RICH-STRING here document', 'observe': 'file',
     'text': '[setup]\nfile o = <<EOF\nfirst line\n...\nlast line\nEOF\n[act]\n$ true\n',
     'expect': [['str', 'first line\n...\nlast line\n']]},
    {'name': 'manual (case spec): comment-like and empty lines inside a here document', 'observe': 'file',
     'text': '[setup]\nfile o = <<EOF\nthis assertion expects 4 lines of output\n# this is the second line of the '
             'expected output\n\nthe empty line above is part of the expected output\nEOF\n[act]\n$ true\n',
     'expect': [['str', 'this assertion expects 4 lines of output\n# this is the second line of the expected output'
                        '\n\nthe empty line above is part of the expected output\n']]},
    {'name': 'manual (concept symbol): def list with a quoted element', 'observe': 'probe',
     'text': '[setup]\ndef list LIST_SYMBOL = first second "the third"\n' + _EX_PROBE + ' @[LIST_SYMBOL]@\n[act]\n'
             '$ true\n',
     'expect': [['list', ['first', 'second', 'the third']]]},
    {'name': 'manual (concept symbol): reference inside soft quotes, list with a reference', 'observe': 'probe',
     'text': '[setup]\ndef string SYMBOL_NAME = "the symbol value"\ndef string S = "reference to @[SYMBOL_NAME]@"\n'
             'def list L = first @[SYMBOL_NAME]@ "third element"\n' + _EX_PROBE + ' @[S]@ @[L]@\n[act]\n$ true\n',
     'expect': [['list', ['reference to the symbol value', 'first', 'the symbol value', 'third element']]]},
    {'name': 'manual (concept symbol): strings that resemble references are no references', 'observe': 'probe',
     'text': '[setup]\ndef string VALID_SYMBOL_NAME = v\n' + _EX_PROBE +
             ' @[NOT/A_VALID_SYMBOL_NAME]@ "@[VALID_SYMBOL_NAME ]@" @[VALID_SYMBOL_NAME]\n[act]\n$ true\n',
     'expect': [['list', ['@[NOT/A_VALID_SYMBOL_NAME]@', '@[VALID_SYMBOL_NAME ]@', '@[VALID_SYMBOL_NAME]']]]},
    {'name': 'manual (PROGRAM-ARGUMENT): list as arguments / as one argument inside soft quotes', 'observe': 'probe',
     'text': _EX_SYMS + _EX_PROBE + ' @[L]@ "@[L]@"\n[act]\n$ true\n',
     'expect': [['list', ['e1', 'e 2', 'e1 e 2']]]},
    {'name': 'manual (STRING): all reserved words, quoted, are strings', 'observe': 'probe',
     'text': '[setup]\n' + _EX_PROBE + ' ' + ' '.join(('"%s"' if i % 2 else "'%s'") % w
                                                      for i, w in enumerate(gen.RESERVED)) + '\n[act]\n$ true\n',
     'expect': [['list', list(gen.RESERVED)]]},
    {'name': 'manual (RICH-STRING): text until end of line, blanks at both ends removed', 'observe': 'file',
     'text': _EX_SYMS + 'file o = :>   the \'text\' "until" @[S]@ = end )  \t\n[act]\n$ true\n',
     'expect': [['str', 'the \'text\' "until" sval = end )']]},
    {'name': 'manual (LIST): backslash at end of line continues the list', 'observe': 'probe',
     'text': '[setup]\ndef list X = a \\\n  b "c \\" \\\n  d\n' + _EX_PROBE + ' @[X]@\n[act]\n$ true\n',
     'expect': [['list', ['a', 'b', 'c \\', 'd']]]},
    # --- the other places a string is written at ---
    {'name': 'hosts: env value, soft quoted with blanks and a reference', 'observe': 'env',
     'text': _EX_SYMS + 'env V_ = "a  @[S]@ "\n' + _EX_PROBE + '\n[act]\n$ true\n',
     'expect': [['str', 'a  sval ']]},
    {'name': 'hosts: stdin of the action as a here document', 'observe': 'stdin',
     'text': '[act]\n' + _EX_PROBE + '\n' + _EX_SYMS + 'stdin = <<-\n@[S]@\n -\n-\n',
     'expect': [['str', 'sval\n -\n']]},
    {'name': 'hosts: file name of adjacent fragments', 'observe': 'fname',
     'text': _EX_SYMS + 'file a\' b\'"c@[S]@"\'@[S]@\'',
     'expect': [['name', 'a bcsval@[S]@']]},
    {'name': 'hosts: -stdin of a program, text until end of line', 'observe': 'pstdin',
     'text': _EX_SYMS + 'run ' + _EX_PROBE + '\n  -stdin :>  \'q\' "@[S]@"  ',
     'expect': [['str', '\'q\' "sval"']]},
    # --- minimal inputs of the findings (the fixed ones are plain regression examples) ---
    {'name': 'KF-C09-1: `#` inside a naked string', 'observe': 'file',
     'text': '[setup]\nfile o = a#b\n[act]\n$ true\n',
     'expect': [['str', 'a#b']]},
    {'name': 'KF-C09-1: `#` inside a naked list element drops the rest of the line', 'observe': 'probe',
     'text': '[setup]\ndef list X = a#b c\n' + _EX_PROBE + ' @[X]@\n[act]\n$ true\n',
     'expect': [['list', ['a#b', 'c']]]},
    {'name': 'KF-C09-2: soft quoted reference after a hard quoted fragment', 'observe': 'file',
     'text': _EX_SYMS + 'file o = \'x@[S]@\'"@[S]@"\n[act]\n$ true\n',
     'expect': [['str', 'x@[S]@sval']]},
    {'name': 'KF-C09-2: hard quoted reference after a naked fragment', 'observe': 'file',
     'text': _EX_SYMS + "file o = x'@[S]@'\n[act]\n$ true\n",
     'expect': [['str', 'x@[S]@']]},
    {'name': 'KF-C09-3: list reference concatenated with an empty quoted fragment is a string', 'observe': 'probe',
     'text': _EX_SYMS + 'def list X = @[L]@""\n' + _EX_PROBE + ' @[X]@\n[act]\n$ true\n',
     'expect': [['list', ['e1 e 2']]]},
    {'name': 'KF-C09-4: meaning of a file must not depend on its final line break (with line break)',
     'observe': 'file', 'text': "[setup]\nfile o = ( <<EOF\n'\nEOF\n)\n[act]\n$ true # it's\n",
     'expect': [['str', "'\n"]]},
    {'name': 'KF-C09-4: meaning of a file must not depend on its final line break (without line break)',
     'observe': 'file', 'text': "[setup]\nfile o = ( <<EOF\n'\nEOF\n)\n[act]\n$ true # it's",
     'expect': [['str', "'\n"]]},
    # expect = the value under reading A (NBSP is an ordinary character), then under reading B (NBSP is white space)
    {'name': 'KF-C09-5: a token that consists of a NO-BREAK SPACE', 'observe': 'file',
     'text': '[setup]\nfile o = ' + _NB + '\n[act]\n$ true\n',
     'expect': [['str', _NB], ['syntax', 'setup', [['t.case', 2]]]]},
    {'name': 'KF-C09-5: NO-BREAK SPACE at the start of and inside a naked string', 'observe': 'file',
     'text': '[setup]\nfile o = ' + _NB + 'a' + _NB + 'b\n[act]\n$ true\n',
     'expect': [['str', _NB + 'a' + _NB + 'b'], ['syntax', 'setup', [['t.case', 2]]]]},
    {'name': 'KF-C09-5: list element that consists of a NO-BREAK SPACE', 'observe': 'probe',
     'text': '[setup]\ndef list X = a ' + _NB + ' b\n' + _EX_PROBE + ' @[X]@\n[act]\n$ true\n',
     'expect': [['list', ['a', _NB, 'b']], ['list', ['a', 'b']]]},
    {'name': 'KF-C09-6: last list element that consists of a NO-BREAK SPACE, after an element that contains one',
     'observe': 'probe',
     'text': '[setup]\ndef list X = a' + _NB + 'b ' + _NB + '\n' + _EX_PROBE + ' @[X]@\n[act]\n$ true\n',
     'expect': [['list', ['a' + _NB + 'b', _NB]], ['list', ['a', 'b']]]},
    {'name': 'KF-C09-6: a superfluous argument that consists of a NO-BREAK SPACE is not reported', 'observe': 'file',
     'text': '[setup]\nfile o = a' + _NB + 'b ' + _NB + '\n[act]\n$ true\n',
     'expect': [['syntax', 'setup', [['t.case', 2]]]]},
    {'name': 'KF-C09-7: NO-BREAK SPACE at both ends of the first argument of an instruction', 'observe': 'fname',
     'text': '[setup]\nfile ' + _NB + 'a' + _NB + '\n[act]\n$ true\n',
     'expect': [['name', _NB + 'a' + _NB], ['name', 'a']]},
]


def enum_examples(tier):
    return [dict(e) for e in EXAMPLES]


def check_example(case) -> Verdict:
    with driver.Workspace() as ws:
        ws.write('t.case', case['text'])
        r = driver.run_inproc(ws, ['--keep', 't.case'])
        actual = _observe(ws, r, {'probe': 'args'}.get(case['observe'], case['observe']))
        stderr_head = r.err[:600]
    labels = ['example:' + case['name'].split(':')[0]]
    if actual in case['expect']:
        return Verdict(True, nontrivial=True, key=case['name'], labels=labels + ['verdict:ok'])
    d = {'example': case['name'], 'case_text': case['text'], 'expected_any_of': case['expect'], 'observed': actual,
         'stderr': stderr_head}
    return fail('example/' + case['name'].split(':')[0], d, labels=labels, nontrivial=True, key=case['name'])


# =====================================================================================================================
# the product (string form) x (host) x (what follows the instruction) x (test case file / included file), enumerated
# =====================================================================================================================
_MATRIX_FORMS = [
    ('naked', ['tok', [['n', 'a@[S]@b']]]),
    ('soft', ['tok', [['s', 'a @[S]@  b']]]),
    ('hard', ['tok', [['h', 'a @[S]@ "b']]]),
    ('adjacent', ['tok', [['n', 'x@[a_b]@'], ['s', ' @[L]@ '], ['h', '@[S]@'], ['n', '@[E]@y'], ['s', "'"]]]),
    ('eol', ['eol', " a 'q' @[S]@  \"r"]),
    ('here', ['here', 'EOF', ['l1 @[S]@', ' EOF', '', '# c', '[act]', "'@[a_b]@'"], True]),
    ('empty-here', ['here', 'M-1', [], True]),
    ('unterminated-soft', ['tok', [['n', 'a'], ['us', 'b c']]]),
    ('unterminated-hard', ['tok', [['uh', 'b @[S]@']]]),
    ('here-without-end', ['here', 'EOF', ['x', ' EOF', 'EOFX'], False]),
]
_MATRIX_ENDS = ['guard', 'next', 'eof_nl', 'eof']


def enum_matrix(tier):
    seen = set()

    def case_of(host, item, nxt, end, inc):
        if host in gen.STRING_HOSTS:
            items, seps = [item], []
        elif item[0] == 'tok':
            items, seps = [['tok', [['n', 'p']]], item, ['tok', [['s', 'q r']]]], [' ', '  ']
        else:
            items, seps = [['tok', [['n', 'p']]], item], [' ']
        return {'host': host, 'lead': ['dir d1'], 'pre': '', 'items': items, 'seps': seps, 'next': nxt, 'tail': '',
                'htail': '', 'end': end, 'inc': inc, 'uws': []}

    def emit(case):
        rd = gen.render(case)
        k = json.dumps(rd['files'], sort_keys=True)
        if k in seen:
            return None
        seen.add(k)
        return case

    for host in gen.HOSTS:
        if host == 'fname':
            forms = [f for f in _MATRIX_FORMS if f[1][0] == 'tok']
        else:
            forms = _MATRIX_FORMS
        for name, item in forms:
            for end in _MATRIX_ENDS:
                for inc in (False, True):
                    nxt = 'paren' if host == 'argspar' else 'eol'
                    c = emit(case_of(host, item, nxt, end, inc))
                    if c:
                        yield c
        # every reserved word: naked (no string), soft and hard quoted, and with an empty quoted fragment added
        for w in gen.RESERVED:
            for frs in ([['n', w]], [['s', w]], [['h', w]], [['n', w], ['s', '']]):
                c = emit(case_of(host, ['tok', frs], 'paren' if host == 'argspar' else 'eol', 'guard', False))
                if c:
                    yield c
        if tier != 'quick':
            for name, item in forms:
                for nxt in ('arg', 'option', 'qreserved', 'paren', 'paren_nl'):
                    for end in ('guard', 'eof'):
                        c = emit(case_of(host, item, nxt, end, False))
                        if c:
                            yield c


_SMALL_ALPHABET = ['a', ' ', '\n', '"', "'", '#', '\\', '@', '=', '\xa0']


def enum_small(tier):
    max_len = 4 if tier == 'quick' else 5
    for n in range(0, max_len + 1):
        for tup in itertools.product(_SMALL_ALPHABET, repeat=n):
            yield {'src': ''.join(tup), 'ops': [0] * (n + 1)}


def cli_strategy(tier):
    return gen.cli_case(tier, uws=False)


def cli_uws_strategy(tier):
    return gen.cli_case(tier, uws=True)


def tok_strategy(tier):
    return gen.tok_case(tier)


def decode_tok(data: bytes):
    """bytes -> tokenizer case (see vlib/gen/c09_gen.decode_tok); module-level function for vlib/fuzz.py"""
    return gen.decode_tok(data)


def _render_cli(case):
    rd = gen.render(case)
    return {'host': case['host'], 'target_instruction': rd['target'], 'end': rd['end'], 'included': rd['inc']}


SUBS = [
    Sub('cli_examples', check_example, enumerate=enum_examples, exhaustive=True, shards={'quick': 2, 'thorough': 2}),
    Sub('cli_matrix', check_cli, enumerate=enum_matrix, exhaustive=True, render=_render_cli),
    Sub('cli_roundtrip', check_cli, strategy=cli_strategy, budget={'quick': 4800, 'thorough': 80000},
        render=_render_cli),
    Sub('cli_unicode_space', check_cli, strategy=cli_uws_strategy, budget={'quick': 2400, 'thorough': 40000},
        render=_render_cli),
    Sub('tokenizer_diff', check_tok, strategy=tok_strategy, budget={'quick': 20000, 'thorough': 600000}),
    Sub('tokenizer_small', check_tok, enumerate=enum_small, exhaustive=True),
    fuzz.fuzz_sub('tokenizer_fuzz', 'props.c09_strings', 'check_tok', 'decode_tok', 'tokenizer_diff',
                  runs={'quick': 100000, 'thorough': 4000000}, shards={'quick': 4, 'thorough': 16}, max_len=64,
                  instrument=('exactly_lib.section_document', 'exactly_lib.util'),
                  seeds=[b'\x03\x00\x01\x00a \'b c\' "d"\n', b'\x02\x00\x04x<<EOF\nEOF\n']),
]
