"""C09 - String syntax: quoting, concatenation, here-documents denote one exact string.

Layer (a) `cli_roundtrip`: a test case is rendered from fragments (naked / soft / hard quoted, with symbol
references), separators and a host instruction; the real program runs it (`--keep`) and the denoted value is read
back from the file the case created (`file o = ...`, contents read from the kept sandbox) or from the argument
vector a probe program received (`% probe ARGS`, `run ( % probe ARGS )`, `def list` + `% probe @[X]@`, `[act]`).
The oracle is `vlib/ref/c09_reader.py`, an independent reader of the syntax as the built-in manual describes it.
Malformed forms (unterminated quote, missing here-document end marker, naked reserved word, superfluous argument)
must give SYNTAX_ERROR reported at the first line of the instruction that contains them.

Layer (b) `tokenizer_diff`: `TokenStream` (token string, quotedness, source string, position, remaining part of
the current line, line-wise consumption) against the reader's tokenizer over generated sources and operation
sequences.

Layer (c) `tokenizer_small`: the same comparison, exhaustively over all sources up to length 4 (quick) / 5
(thorough) of a 9 character alphabet.

`cli_examples`: the examples the manual itself gives for these syntax elements, and the minimal input of every
finding, with the documented value.
"""
import itertools
import json
import os
import re

from vlib import driver
from vlib.gen import c09_gen as gen
from vlib.ref import c09_reader as ref
from vlib import fuzz
from vlib.runner import Sub, Verdict, fail

PROPERTY_ID = 'C09'
LEVEL = 'exploration'
RULE = ('cli_examples: the manual\'s own examples for STRING/RICH-STRING/LIST/SYMBOL-REFERENCE and the minimal input of '
        'every finding (enumerated, all counted). cli_roundtrip: Hypothesis draws (host in def string/file/def list/% args/run ( % args )/[act]) x '
        '(items: tokens of 1-4 adjacent naked/soft/hard fragments over an alphabet with blanks, both quotes, @[ ]@, '
        'reserved words, option-like words, #, backslash, newline-in-quotes, non-ASCII, references to string/list/'
        'path/undefined symbols; `:> text`; here documents with marker-like/header-like/comment-like lines; '
        'unterminated quotes; missing end markers) x separators (blanks, tabs, backslash continuation) x next token '
        '(end of line, argument, option, quoted reserved word, parenthesis); non-trivial = the target contains a '
        'special character, >= 2 fragments in a token, `:>` or a here document; distinct = distinct (host, target '
        'instruction text). tokenizer_diff: Hypothesis draws of (source text, sequence of consume / consume-rest-of-'
        'line operations); non-trivial = source has a quote, `#`, newline or >= 2 tokens; distinct = distinct '
        '(source, ops). tokenizer_small: every string over {a,space,newline,",\',#,\\,@,=} up to length 4 (quick) / '
        '5 (thorough), token-wise consumption; all counted. tokenizer_fuzz: coverage-guided campaigns (atheris/'
        'libFuzzer, shlex and TokenStream instrumented) over the same tokenizer oracle; bytes are decoded into '
        '(operations, fragments of a fixed syntax alphabet); every second campaign starts from an empty corpus; '
        'mismatches are collected per bucket and replayed through tokenizer_diff')
ASSUMPTIONS = [
    'whitespace = space, tab, CR, LF (the manual only says "whitespace"); generated sources use space, tab, LF',
    'a quoted fragment may contain line breaks (the manual puts no restriction on CHARACTER inside quotes)',
    'a symbol reference that only comes into being by concatenating adjacent naked/soft fragments (`@["S"]@`) '
    'may or may not be substituted - both readings accepted (reader flag xref)',
    'a reserved word of which only a part is quoted (`=""`) may be a string or a syntax error; a naked reference '
    'to a list/path symbol as the whole TEXT-SOURCE of `file` may be rendered as a string or refused with '
    'VALIDATION_ERROR (TEXT-SOURCE says "text-source or string", STRING says "in most places") - both readings '
    'accepted (reader flag strict)',
    'not generated because the manual is open: a naked string that starts with `<<` (here-document look-alike), '
    'a naked `\\` as the last character of a longer last token on a list line, a continuation line that starts '
    'with `[`, here-document markers outside [0-9a-zA-Z_-]+, end-marker lines with surrounding blanks after the '
    'marker, a transformation after a here document',
    'TokenStream.position is only required to lie between the end of the previous token and the start of the '
    'head token without passing a line break (how much inter-token whitespace is consumed is not specified)',
    'a reference to an undefined symbol in a substituting fragment gives VALIDATION_ERROR (property C08)',
    'the act host uses one physical line only (empty and comment lines of [act] are removed before parsing)',
]

KF_COMMENT = 'KF-C09-1'
KF_FIRST_FRAGMENT = 'KF-C09-2'
KF_PLAIN_BY_FIRST = 'KF-C09-3'
KF_DEAD_LEXER = 'KF-C09-4'

_DEFECT_FLAGS = [('comment', KF_COMMENT), ('kf2', KF_FIRST_FRAGMENT), ('kf3', KF_PLAIN_BY_FIRST)]
_VARIANTS = [dict(xref=x, strict=s) for x in (False, True) for s in (False, True)]


# =====================================================================================================================
# layer (a)
# =====================================================================================================================
_INSTRUCTION_NAMES = ('$', '%', 'cd', 'copy', 'def', 'dir', 'env', 'file', 'run', 'stdin', 'timeout', 'including')


def _leftover(text, end, target_end):
    """The instruction ended at `end`, before the text written for it: what do the left-over lines give?

    -> ['syntax', line] if the first left-over line that is an instruction line starts with a word that is no
    instruction name, else ['illformed'] (not predicted)."""
    nl = text.find('\n', end)
    line_no = text.count('\n', 0, nl) + 2
    for line in text[nl + 1:target_end].split('\n'):
        st = line.strip()
        if st == '' or st.startswith('#'):
            line_no += 1
            continue
        if st.startswith('[') or st.split()[0] in _INSTRUCTION_NAMES:
            break
        return ['syntax', line_no]
    return ['illformed']


def _outcomes(host, text, pos, target_end, target_line, symbols, **defects):
    """Set of predicted outcomes (JSON strings) over the open readings."""
    out = set()
    for var in _VARIANTS:
        modes = dict(var)
        modes.update(defects)
        oc, end = ref.read_host(host, text, pos, symbols, **modes)
        if oc[0] == 'syntax':
            oc = ['syntax', None if host == 'act' else target_line]
        elif oc[0] != 'unsupported':
            # the value must end where the instruction ends, else the following lines are something else
            if end > target_end:
                oc = ['illformed']
            elif text[end:target_end].strip() != '':
                oc = _leftover(text, end, target_end) if (defects and host != 'act') else ['illformed']
        out.add(json.dumps(oc, ensure_ascii=False))
    return out


_LINE_RE = re.compile(r'^t\.case, line (\d+)$', re.M)


def _observe(ws, r, host):
    """-> (outcome, extra) in the shape of the reader's outcomes"""
    if r.exception or r.timed_out:
        return ['crash', r.exception or 'timeout'], None
    first = r.first_err_line
    if r.exit_code == 0 and first == 'PASS':
        sds = r.out.strip()
        if host in ('defstr', 'file'):
            path = os.path.join(sds, 'act', 'o')
            try:
                with open(path, 'rb') as f:
                    return ['str', f.read().decode('utf-8', errors='replace')], None
            except OSError as ex:
                return ['no-file', str(ex)], None
        recs = ws.probe_records('p')
        if len(recs) != 1:
            return ['probe-runs', len(recs)], None
        return ['list', recs[0]['argv']], None
    if r.exit_code == 65 and first == 'SYNTAX_ERROR':
        m = _LINE_RE.search(r.err)
        return ['syntax', (int(m.group(1)) if m and host != 'act' else None)], None
    if r.exit_code == 65 and first == 'VALIDATION_ERROR':
        return ['validation'], None
    return ['other', r.exit_code, first], None


_CHAR_CLASS = {' ': 'blank', '\t': 'blank', '\n': 'newline', "'": 'hard-quote-char', '"': 'soft-quote-char', '@': 'at',
               '[': 'bracket', ']': 'bracket', '(': 'bracket', ')': 'bracket', '{': 'bracket', '}': 'bracket',
               '#': 'hash', '\\': 'backslash', '=': 'operator-char', ':': 'operator-char', '|': 'operator-char',
               '!': 'operator-char', '&': 'operator-char', '-': 'dash', '<': 'angle', '>': 'angle', 'é': 'non-ascii'}
_REF_TYPE = {'S': 'string', 'E': 'string', 'a_b': 'string', 'L': 'list', 'L0': 'list', 'P': 'path'}


def _labels_cli(case, rd, doc_kinds):
    """At most ~60 distinct labels (the evidence keeps the 60 most frequent classes of a sub-check)."""
    host = case['host']
    labels = ['host:' + host, 'next:%s' % rd['next']]
    seen = set()
    for it in rd['norm_items']:
        seen.add('item:' + it[0])
        texts = []
        if it[0] == 'tok':
            frags = it[1]
            kinds = set(k[-1] for k, _ in frags)
            if len(frags) > 1:
                seen.add('mix:' + (''.join(sorted(kinds)) if len(kinds) > 1 else 'same-kind'))
            for k, t in frags:
                if k in ('us', 'uh'):
                    seen.add('frag:unterminated-' + ('soft' if k == 'us' else 'hard'))
                texts.append((k[-1], t))
            if len(frags) == 1 and frags[0][0] == 'n' and frags[0][1] in gen.RESERVED:
                seen.add('naked-reserved-word')
            elif ''.join(t for _, t in frags) in gen.RESERVED:
                seen.add('quoted-reserved-word')
        elif it[0] == 'eol':
            texts.append(('eol', it[1]))
        else:
            m = it[1]
            for l in it[2]:
                texts.append(('here', l))
                if l != m and m in l:
                    seen.add('here:marker-like-line')
                if l.startswith('['):
                    seen.add('here:header-like-line')
                if l.startswith('#'):
                    seen.add('here:comment-like-line')
                if l.strip() == '':
                    seen.add('here:blank-line')
            if not it[3]:
                seen.add('here:no-end-marker')
        for k, t in texts:
            for ch in t:
                if ch in _CHAR_CLASS:
                    seen.add('chr:' + _CHAR_CLASS[ch])
            for m in ref.REF_RE.finditer(t):
                seen.add('ref:' + _REF_TYPE.get(m.group(1), 'undefined'))
                seen.add('ref-in:' + {'n': 'naked', 's': 'soft', 'h': 'hard'}.get(k, k))
    for s in case['seps']:
        if '\n' in s and host != 'act':
            seen.add('sep:continuation')
    labels.extend(sorted(seen))
    labels.extend('expect:' + k for k in sorted(doc_kinds))
    return labels


def _nontrivial(rd):
    for it in rd['norm_items']:
        if it[0] != 'tok':
            return True
        if len(it[1]) >= 2:
            return True
        for _, t in it[1]:
            if any(ch in gen.SPECIAL_CHARS for ch in t):
                return True
    return False


def check_cli(case) -> Verdict:
    rd = gen.render(case)
    host = case['host']
    text, pos, target_end = rd['text'], rd['arg_pos'], rd['target_end']
    key = host + '|' + rd['target']
    nontrivial = _nontrivial(rd)
    with driver.Workspace() as ws:
        symbols = {k: (t, (ws.subst(v) if isinstance(v, str) else v)) for k, (t, v) in gen.SYMBOLS.items()}
        doc = _outcomes(host, text, pos, target_end, rd['target_line'], symbols)
        doc_kinds = {json.loads(o)[0] for o in doc}
        labels = _labels_cli(case, rd, doc_kinds)
        if doc_kinds & {'illformed', 'unsupported'}:
            return Verdict(True, nontrivial=False, labels=labels + ['skipped:' + '+'.join(sorted(doc_kinds))])
        ws.write('t.case', text)
        r = driver.run_inproc(ws, ['--keep', 't.case'])
        actual, err_line = _observe(ws, r, host)
        stderr_head = r.err[:700]
    actual_s = json.dumps(actual, ensure_ascii=False)

    def detail(what, **kw):
        d = {'what': what, 'host': host, 'target_instruction': rd['target'], 'target_line': rd['target_line'],
             'expected_any_of': sorted(doc), 'observed': actual, 'observed_error_line': err_line,
             'stderr': stderr_head, 'case_text': text}
        d.update(kw)
        return d

    if actual_s in doc:
        return Verdict(True, nontrivial=nontrivial, key=key, labels=labels + ['verdict:ok'])
    # ---- mismatch: is it exactly what a listed defect predicts? -------------------------------------------
    for n in (1, 2, 3):
        for combo in itertools.combinations(_DEFECT_FLAGS, n):
            flags = {name: True for name, _ in combo}
            pred = _outcomes(host, text, pos, target_end, rd['target_line'], symbols, **flags)
            if actual_s in pred:
                kf = combo[0][1]
                return Verdict(ok=False, known=kf, bucket='cli/' + kf,
                               detail=detail('matches defect model ' + '+'.join(k for _, k in combo)),
                               labels=labels + ['verdict:' + kf],
                               nontrivial=nontrivial, key=key)
    exp_kind = '+'.join(sorted(doc_kinds))
    what = 'value differs'
    if actual[0] == 'syntax' and 'syntax' in doc_kinds:
        what = 'syntax error reported at another line than that of the instruction'
        exp_kind = 'syntax-at-line'
    return fail('cli/%s/expected-%s/got-%s' % (host, exp_kind, actual[0]), detail(what),
                labels=labels + ['verdict:violation'], nontrivial=nontrivial, key=key)


# =====================================================================================================================
# layers (b), (c)
# =====================================================================================================================
def _run_token_stream(src, ops):
    """Drives TokenStream; -> log of observations (one per state: after construction and after every operation)."""
    from exactly_lib.section_document.element_parsers.token_stream import TokenStream, TokenSyntaxError, \
        LookAheadState
    log = []

    def snap(ts, op, ret):
        head = ts.head
        st = ts.look_ahead_state
        rec = {
            'op': op, 'ret': ret, 'pos': ts.position,
            'state': {LookAheadState.HAS_TOKEN: 'tok', LookAheadState.NULL: 'null',
                      LookAheadState.SYNTAX_ERROR: 'err'}[st],
            'is_null': ts.is_null,
            'head': None if head is None else [bool(head.is_quoted), head.string, head.source_string],
            'rpocl': ts.remaining_part_of_current_line,
            'rest_ok': ts.remaining_source == src[ts.position:],
            'after_head': len(src) - len(ts.remaining_source_after_head),
            'at_end': ts.is_at_end,
            'line_empty': ts.remaining_part_of_current_line_is_empty,
        }
        log.append(rec)

    try:
        ts = TokenStream(src)
    except Exception as ex:  # noqa
        return [{'op': 'new', 'exception': '%s: %s' % (type(ex).__name__, ex)}]
    snap(ts, 'new', None)
    for op in ops:
        last = log[-1]
        try:
            if op == 0:
                if last['state'] == 'null':
                    continue  # precondition of consume: not is_null
                try:
                    t = ts.consume()
                    ret = None if t is None else [bool(t.is_quoted), t.string, t.source_string]
                except TokenSyntaxError:
                    ret = 'TokenSyntaxError'
                snap(ts, 'consume', ret)
            elif op == 1:
                ret = ts.consume_remaining_part_of_current_line_as_string()
                snap(ts, 'rest_of_line', ret)
            else:
                ret = ts.consume_current_line_as_string_of_remaining_part_of_current_line()
                snap(ts, 'line', ret)
        except Exception as ex:  # noqa
            log.append({'op': op, 'exception': '%s: %s' % (type(ex).__name__, ex)})
            break
    return log


def _explain(src, log, comment, dead_model=False):
    """First disagreement between the log and the reference tokenizer (None = consistent).

    comment     defect model KF-C09-1 (`#` starts a comment)
    dead_model  defect model KF-C09-4: once the lexer has read a token that ends at the very end of the source,
                it delivers no more tokens, although line-wise consumption re-positions the stream
    """
    n = len(src)
    prev = None
    dead = False  # the lexer has reached the end of the source while reading a token
    no_more = False  # ... and has been asked again since: the head stays null
    for i, rec in enumerate(log):
        if 'exception' in rec:
            return {'step': i, 'what': 'exception', 'observed': rec['exception']}
        pos = rec['pos']
        op = rec['op']
        lexes = True  # does the implementation run its lexer in this step?
        # ---- where may the position be? -------------------------------------------------------------------
        if op == 'new':
            lo = hi = 0
        elif op == 'consume':
            if prev['state'] == 'err':
                if rec['ret'] != 'TokenSyntaxError':
                    return {'step': i, 'what': 'consume of a malformed head must raise TokenSyntaxError',
                            'observed': rec['ret']}
                lo = hi = prev['pos']
                lexes = False
            else:
                if rec['ret'] != prev['head']:
                    return {'step': i, 'what': 'consume must return the head', 'observed': rec['ret'],
                            'expected': prev['head']}
                ht = ref.next_token(src, prev['pos'], comment)
                lo = ht.end
                nt = ref.next_token(src, lo, comment)
                hi = nt.start if nt.kind != 'null' else n
                nl = src.find('\n', lo)
                if nl != -1:
                    hi = min(hi, nl)
        else:
            le = ref.line_end(src, prev['pos'])
            if rec['ret'] != src[prev['pos']:le]:
                return {'step': i, 'what': 'text of the rest of the line', 'observed': rec['ret'],
                        'expected': src[prev['pos']:le]}
            lo = hi = le if op == 'rest_of_line' else min(n, le + 1)
            lexes = le < n and src[prev['pos']:le].strip() != ''
        if not (lo <= pos <= hi):
            return {'step': i, 'what': 'position', 'observed': pos, 'expected': [lo, hi]}
        # ---- the head -------------------------------------------------------------------------------------
        t = ref.next_token(src, pos, comment)
        if dead_model:
            if lexes and dead:
                no_more = True
            if no_more:
                t = ref.Tok('null', n, n)
            elif lexes and t.kind == 'tok' and t.end == n and not t.cut:
                dead = True
            elif lexes and t.kind == 'err':
                dead = False  # a fresh lexer is created after a quoting error
        if rec['state'] != t.kind:
            return {'step': i, 'what': 'look-ahead state', 'observed': rec['state'], 'expected': t.kind,
                    'expected_token': t.as_list()}
        if t.kind == 'tok':
            if comment:
                exp_src = src[pos:t.end].strip()
                exp_quoted = exp_src[:1] in ('"', "'")
            else:
                exp_src = src[t.start:t.end]
                exp_quoted = not t.all_naked
            exp = [exp_quoted, t.string, exp_src]
            if rec['head'] != exp:
                return {'step': i, 'what': 'head token [is_quoted, string, source_string]', 'observed': rec['head'],
                        'expected': exp}
            after = rec['after_head']
            nt = ref.next_token(src, t.end, comment)
            hi2 = nt.start if nt.kind != 'null' else n
            if not (t.end <= after <= hi2):
                return {'step': i, 'what': 'remaining_source_after_head', 'observed': after,
                        'expected': [t.end, hi2]}
        else:
            if rec['head'] is not None or not rec['is_null']:
                return {'step': i, 'what': 'head must be null', 'observed': rec['head']}
        le = ref.line_end(src, pos)
        if rec['rpocl'] != src[pos:le]:
            return {'step': i, 'what': 'remaining_part_of_current_line', 'observed': rec['rpocl'],
                    'expected': src[pos:le]}
        if not rec['rest_ok']:
            return {'step': i, 'what': 'remaining_source'}
        if rec['at_end'] != (pos == n):
            return {'step': i, 'what': 'is_at_end', 'observed': rec['at_end']}
        if rec['line_empty'] != (src[pos:le].strip(' \t\r\n') == ''):
            return {'step': i, 'what': 'remaining_part_of_current_line_is_empty', 'observed': rec['line_empty']}
        prev = rec
    return None


def check_tok(case) -> Verdict:
    src, ops = case['src'], case['ops']
    log = _run_token_stream(src, ops)
    toks = ref.tokenize(src)
    labels = ['tokens:%d' % min(len(toks) - 1, 5), 'end:' + toks[-1].kind]
    kinds = set()
    for t in toks:
        for k, _ in t.frags:
            kinds.add(k)
        if t.kind == 'tok' and len(t.frags) > 1:
            labels.append('multi-fragment-token')
            break
    labels.extend('frag:' + k for k in sorted(kinds))
    for ch, name in (('#', 'hash'), ('\n', 'newline'), ('\\', 'backslash'), ('é', 'non-ascii'), ('@[', 'ref-open')):
        if ch in src:
            labels.append('src:' + name)
    if re.search(r'["\']\n', src):
        labels.append('src:quote-then-newline')
    for rec in log:
        if rec.get('op') in ('rest_of_line', 'line'):
            labels.append('op:line-wise')
            break
    nontrivial = len(toks) > 2 or any(c in src for c in '"\'#\n')
    key = json.dumps([src, ops], ensure_ascii=False)
    why = _explain(src, log, comment=False)
    if why is None:
        return Verdict(True, nontrivial=nontrivial, key=key, labels=labels + ['verdict:ok'])
    models = [((False, True), KF_DEAD_LEXER)]
    if '#' in src:
        models = [((True, False), KF_COMMENT)] + models + [((True, True), KF_COMMENT)]
    for (comment, dead), kf in models:
        if _explain(src, log, comment=comment, dead_model=dead) is None:
            name = kf + ('+' + KF_DEAD_LEXER if comment and dead else '')
            return Verdict(ok=False, known=kf, bucket='tok/' + kf,
                           detail={'source': src, 'ops': ops, 'matches_defect_model': name,
                                   'first_difference_to_documented_syntax': why,
                                   'log': log[:why['step'] + 1][-2:]},
                           labels=labels + ['verdict:' + name], nontrivial=nontrivial, key=key)
    return fail('tok/%s' % why['what'].split(' [')[0], {'source': src, 'ops': ops, 'difference': why, 'log': log},
                labels=labels + ['verdict:violation'], nontrivial=nontrivial, key=key)


# =====================================================================================================================
# fixed examples: the manual's own examples, and the minimal inputs of the findings
# =====================================================================================================================
_EX_SYMS = "[setup]\ndef string S = 'sval'\ndef list L = 'e1' 'e 2'\n"
_EX_PROBE = gen.PROBE_PREFIX
EXAMPLES = [
    # --- from the manual ---
    {'name': 'manual: RICH-STRING here document', 'observe': 'file',
     'text': '[setup]\nfile o = <<EOF\nfirst line\n...\nlast line\nEOF\n[act]\n$ true\n',
     'expect': ['str', 'first line\n...\nlast line\n']},
    {'name': 'manual (case spec): comment-like and empty lines inside a here document', 'observe': 'file',
     'text': '[setup]\nfile o = <<EOF\nthis assertion expects 4 lines of output\n# this is the second line of the '
             'expected output\n\nthe empty line above is part of the expected output\nEOF\n[act]\n$ true\n',
     'expect': ['str', 'this assertion expects 4 lines of output\n# this is the second line of the expected output'
                       '\n\nthe empty line above is part of the expected output\n']},
    {'name': 'manual (concept symbol): def list with a quoted element', 'observe': 'probe',
     'text': '[setup]\ndef list LIST_SYMBOL = first second "the third"\n' + _EX_PROBE + ' @[LIST_SYMBOL]@\n[act]\n'
             '$ true\n',
     'expect': ['list', ['first', 'second', 'the third']]},
    {'name': 'manual (concept symbol): reference inside soft quotes, list with a reference', 'observe': 'probe',
     'text': '[setup]\ndef string SYMBOL_NAME = "the symbol value"\ndef string S = "reference to @[SYMBOL_NAME]@"\n'
             'def list L = first @[SYMBOL_NAME]@ "third element"\n' + _EX_PROBE + ' @[S]@ @[L]@\n[act]\n$ true\n',
     'expect': ['list', ['reference to the symbol value', 'first', 'the symbol value', 'third element']]},
    {'name': 'manual (concept symbol): strings that resemble references are no references', 'observe': 'probe',
     'text': '[setup]\ndef string VALID_SYMBOL_NAME = v\n' + _EX_PROBE +
             ' @[NOT/A_VALID_SYMBOL_NAME]@ "@[VALID_SYMBOL_NAME ]@" @[VALID_SYMBOL_NAME]\n[act]\n$ true\n',
     'expect': ['list', ['@[NOT/A_VALID_SYMBOL_NAME]@', '@[VALID_SYMBOL_NAME ]@', '@[VALID_SYMBOL_NAME]']]},
    {'name': 'manual (PROGRAM-ARGUMENT): list as arguments / as one argument inside soft quotes', 'observe': 'probe',
     'text': _EX_SYMS + _EX_PROBE + ' @[L]@ "@[L]@"\n[act]\n$ true\n',
     'expect': ['list', ['e1', 'e 2', 'e1 e 2']]},
    {'name': 'manual (STRING): all reserved words, quoted, are strings', 'observe': 'probe',
     'text': '[setup]\n' + _EX_PROBE + ' ' + ' '.join(('"%s"' if i % 2 else "'%s'") % w
                                                      for i, w in enumerate(gen.RESERVED)) + '\n[act]\n$ true\n',
     'expect': ['list', list(gen.RESERVED)]},
    {'name': 'manual (RICH-STRING): text until end of line, blanks at both ends removed', 'observe': 'file',
     'text': _EX_SYMS + 'file o = :>   the \'text\' "until" @[S]@ = end )  \t\n[act]\n$ true\n',
     'expect': ['str', 'the \'text\' "until" sval = end )']},
    {'name': 'manual (LIST): backslash at end of line continues the list', 'observe': 'probe',
     'text': '[setup]\ndef list X = a \\\n  b "c \\" \\\n  d\n' + _EX_PROBE + ' @[X]@\n[act]\n$ true\n',
     'expect': ['list', ['a', 'b', 'c \\', 'd']]},
    # --- minimal inputs of the findings ---
    {'name': 'KF-C09-1: `#` inside a naked string', 'observe': 'file',
     'text': '[setup]\nfile o = a#b\n[act]\n$ true\n',
     'expect': ['str', 'a#b'], 'defect': [KF_COMMENT, ['str', 'a']]},
    {'name': 'KF-C09-1: `#` inside a naked list element drops the rest of the line', 'observe': 'probe',
     'text': '[setup]\ndef list X = a#b c\n' + _EX_PROBE + ' @[X]@\n[act]\n$ true\n',
     'expect': ['list', ['a#b', 'c']], 'defect': [KF_COMMENT, ['list', ['a']]]},
    {'name': 'KF-C09-2: soft quoted reference after a hard quoted fragment', 'observe': 'file',
     'text': _EX_SYMS + 'file o = \'x@[S]@\'"@[S]@"\n[act]\n$ true\n',
     'expect': ['str', 'x@[S]@sval'], 'defect': [KF_FIRST_FRAGMENT, ['str', 'x@[S]@@[S]@']]},
    {'name': 'KF-C09-2: hard quoted reference after a naked fragment', 'observe': 'file',
     'text': _EX_SYMS + "file o = x'@[S]@'\n[act]\n$ true\n",
     'expect': ['str', 'x@[S]@'], 'defect': [KF_FIRST_FRAGMENT, ['str', 'xsval']]},
    {'name': 'KF-C09-3: list reference concatenated with an empty quoted fragment is a string', 'observe': 'probe',
     'text': _EX_SYMS + 'def list X = @[L]@""\n' + _EX_PROBE + ' @[X]@\n[act]\n$ true\n',
     'expect': ['list', ['e1 e 2']], 'defect': [KF_PLAIN_BY_FIRST, ['list', ['e1', 'e 2']]]},
    {'name': 'KF-C09-4: meaning of a file must not depend on its final line break (with line break)',
     'observe': 'file', 'text': "[setup]\nfile o = ( <<EOF\n'\nEOF\n)\n[act]\n$ true # it's\n",
     'expect': ['str', "'\n"]},
    {'name': 'KF-C09-4: meaning of a file must not depend on its final line break (without line break)',
     'observe': 'file', 'text': "[setup]\nfile o = ( <<EOF\n'\nEOF\n)\n[act]\n$ true # it's",
     'expect': ['str', "'\n"], 'defect': [KF_DEAD_LEXER, ['syntax', 2]]},
]


def enum_examples(tier):
    return [dict(e) for e in EXAMPLES]


def check_example(case) -> Verdict:
    with driver.Workspace() as ws:
        ws.write('t.case', case['text'])
        r = driver.run_inproc(ws, ['--keep', 't.case'])
        actual, _ = _observe(ws, r, 'file' if case['observe'] == 'file' else 'args')
        stderr_head = r.err[:600]
    labels = ['example:' + case['name'].split(':')[0]]
    if actual == case['expect']:
        return Verdict(True, nontrivial=True, key=case['name'], labels=labels + ['verdict:ok'])
    d = {'example': case['name'], 'case_text': case['text'], 'expected': case['expect'], 'observed': actual,
         'stderr': stderr_head}
    if case.get('defect') and actual == case['defect'][1]:
        return Verdict(ok=False, known=case['defect'][0], bucket='example/' + case['defect'][0], detail=d,
                       labels=labels + ['verdict:' + case['defect'][0]], nontrivial=True, key=case['name'])
    return fail('example/' + case['name'].split(':')[0], d, labels=labels, nontrivial=True, key=case['name'])


_SMALL_ALPHABET = ['a', ' ', '\n', '"', "'", '#', '\\', '@', '=']


def enum_small(tier):
    max_len = 4 if tier == 'quick' else 5
    for n in range(0, max_len + 1):
        for tup in itertools.product(_SMALL_ALPHABET, repeat=n):
            yield {'src': ''.join(tup), 'ops': [0] * (n + 1)}


def cli_strategy(tier):
    return gen.cli_case(tier)


def tok_strategy(tier):
    return gen.tok_case(tier)


_FUZZ_ALPHABET = ['a', 'b', ' ', ' ', '\t', '\n', '\n', "'", '"', '@[', ']@', 'S', '_', '#', '\\', '=', ':', '|', '(', ')',
                  '{', '}', '!', '&&', '||', '-', '<<', 'EOF', ':>', 'é', '[', ']', '@', '<', '>', '&', '\r', '0']


def decode_tok(data: bytes):
    """bytes -> tokenizer case: the first byte gives the number of operations, then the operations, the rest
    selects source fragments from a fixed alphabet (structured decoding, so that coverage feedback works on
    the syntax and not on UTF-8 validity)"""
    if not data:
        return {'src': '', 'ops': []}
    n_ops = data[0] % 9
    ops = [(0, 0, 0, 0, 1, 2)[b % 6] for b in data[1:1 + n_ops]]
    src = ''.join(_FUZZ_ALPHABET[b % len(_FUZZ_ALPHABET)] for b in data[1 + n_ops:])
    return {'src': src, 'ops': ops}


def _render_cli(case):
    rd = gen.render(case)
    return {'host': case['host'], 'target_instruction': rd['target']}


SUBS = [
    Sub('cli_examples', check_example, enumerate=enum_examples, exhaustive=True, shards={'quick': 2, 'thorough': 2}),
    Sub('cli_roundtrip', check_cli, strategy=cli_strategy, budget={'quick': 4000, 'thorough': 120000},
        render=_render_cli),
    Sub('tokenizer_diff', check_tok, strategy=tok_strategy, budget={'quick': 40000, 'thorough': 1500000}),
    Sub('tokenizer_small', check_tok, enumerate=enum_small, exhaustive=True),
    fuzz.fuzz_sub('tokenizer_fuzz', 'props.c09_strings', 'check_tok', 'decode_tok', 'tokenizer_diff',
                  runs={'quick': 100000, 'thorough': 4000000}, shards={'quick': 4, 'thorough': 16}, max_len=64,
                  instrument=('exactly_lib.section_document', 'exactly_lib.util'),
                  seeds=[b'\x03\x00\x01\x00a \'b c\' "d"\n', b'\x02\x00\x04x<<EOF\nEOF\n']),
]
