"""C01 - Phased execution protocol: fixed order, halt at first failure, cleanup runs, result names the failure.

Layer A (this file, subs singles/cleanup_doubles/random_plans): fault plans injected through stub instructions
into the real executor (full_execution.execution.execute); oracle = trace invariants of vlib/ref/protocol.py.
Layer B (sub cli_markers): the same invariants observed through the CLI with real instructions and marker files.
"""
import itertools
import os

from hypothesis import strategies as st

from vlib import driver
from vlib.ref import protocol
from vlib.runner import Sub, Verdict, fail

PROPERTY_ID = 'C01'
LEVEL = 'fault_enumeration'
RULE = ('fault plans = (number of stub instructions per phase, status, act-only mode, set of faults (phase, step, '
        'position, kind)); enumerated: every single fault for every shape in the bound, every fault x every failing '
        'cleanup instruction; Hypothesis: 0-4 faults anywhere incl. SKIP, empty phases, act-only; CLI layer: real '
        'instructions with marker files. Non-trivial = a planned fault was actually reached (its step executed); '
        'distinct = distinct (shape, status, mode, fault set)')
ASSUMPTIONS = [
    'stub instructions subclass the public instruction base classes and are executed through '
    'full_execution.execution.execute, the function the production executor calls',
    '"names the earliest failing step" is read as: failure_info.phase_step and source line equal the earliest '
    'executed failing step, or those of a failing cleanup instruction',
    'the relative order of validation steps of different phases is not constrained beyond symbols-before-pre-sds-'
    'before-main',
]

SVH = ['VE', 'HE', 'HEX', 'EXC']
SH = ['HE', 'HEX', 'EXC']
SYM = ['VE', 'HEX', 'EXC']
PFH = ['FAIL', 'HE', 'HEX', 'EXC']
PARSE = ['SYNTAX', 'HEX', 'EXC']


def fault_sites(n):
    """All (phase, step, idx, kinds) of a shape."""
    sites = []
    for i in range(n['conf']):
        sites.append(('conf', 'main', i, SVH))
    sites.append(('act', 'parse', 0, PARSE))
    for ph in protocol.INSTR_PHASES:
        for i in range(n[ph]):
            sites.append((ph, 'sym', i, SYM))
            sites.append((ph, 'pre', i, SVH))
    sites.append(('act', 'sym', 0, SYM))
    sites.append(('act', 'pre', 0, SVH))
    for i in range(n['setup']):
        sites.append(('setup', 'main', i, SH))
    for ph in ('setup', 'before-assert', 'assert'):
        for i in range(n[ph]):
            sites.append((ph, 'post', i, SVH))
    sites.append(('act', 'post', 0, SVH))
    if n['setup'] >= 1:
        sites.append(('act', 'exe-input', 0, SH))
    sites.append(('act', 'prepare', 0, SH))
    sites.append(('act', 'execute', 0, SH))
    for i in range(n['before-assert']):
        sites.append(('before-assert', 'main', i, SH))
    for i in range(n['assert']):
        sites.append(('assert', 'main', i, PFH))
    for i in range(n['cleanup']):
        sites.append(('cleanup', 'main', i, SH))
    return sites


PH5 = ['conf', 'setup', 'before-assert', 'assert', 'cleanup']


def shapes(max_n, max_sum, min_n=1):
    for t in itertools.product(range(min_n, max_n + 1), repeat=5):
        if sum(t) <= max_sum:
            yield dict(zip(PH5, t))


def enum_singles(tier):
    shp = list(shapes(2, 10)) + [dict(zip(PH5, (3, 3, 3, 3, 3)))] if tier == 'quick' else list(shapes(3, 12))
    for n in shp:
        for status in ('PASS', 'FAIL'):
            for ph, step, i, kinds in fault_sites(n):
                for k in kinds:
                    yield {'n': n, 'status': status, 'act_only': False, 'keep': False, 'faults': [[ph, step, i, k]]}
    # no fault at all, every status and mode
    for n in shp[:8]:
        for status in ('PASS', 'FAIL', 'SKIP'):
            for act_only in (False, True):
                yield {'n': n, 'status': status, 'act_only': act_only, 'keep': False, 'faults': []}


def enum_cleanup_doubles(tier):
    if tier == 'quick':
        shp = [dict(zip(PH5, t)) for t in [(1, 1, 1, 1, 1), (1, 2, 2, 2, 2), (1, 3, 1, 2, 3)]]
    else:
        shp = list(shapes(3, 9)) + [dict(zip(PH5, (1, 3, 3, 3, 3)))]
    for n in shp:
        for status in ('PASS', 'FAIL'):
            for act_only in (False, True):
                for ph, step, i, kinds in fault_sites(n):
                    if ph == 'cleanup' and step == 'main':
                        continue
                    if act_only and ph in ('before-assert', 'assert') and step == 'main':
                        continue
                    for k in kinds:
                        for ci in range(n['cleanup']):
                            for ck in SH:
                                yield {'n': n, 'status': status, 'act_only': act_only, 'keep': False,
                                       'faults': [[ph, step, i, k], ['cleanup', 'main', ci, ck]]}


@st.composite
def plans(draw, max_n=3):
    n = {p: draw(st.integers(0, max_n)) for p in PH5}
    sites = fault_sites(n)
    k = draw(st.integers(0, 4))
    faults = []
    used = set()
    for _ in range(k):
        ph, step, i, kinds = draw(st.sampled_from(sites))
        if (ph, step, i) in used:
            continue
        used.add((ph, step, i))
        kind = draw(st.sampled_from(kinds + ['KEYERR']))
        faults.append([ph, step, i, kind])
    return {'n': n,
            'status': draw(st.sampled_from(['PASS', 'PASS', 'FAIL', 'FAIL', 'SKIP'])),
            'act_only': draw(st.booleans()),
            'keep': draw(st.booleans()),
            'faults': faults}


def check_plan(plan) -> Verdict:
    from vlib import protocol_harness
    with driver.Workspace() as ws:
        obs = protocol_harness.run_plan(plan, ws.root)
    violations = protocol.check(plan, obs)
    keys = [(r[0], r[1], r[2]) for r in obs['trace']]
    faults = {(f[0], f[1], f[2]) for f in plan['faults']}
    reached = [k for k in keys if k in faults]
    labels = ['status:' + plan['status'], 'verdict:%s' % obs.get('status'), 'n_faults:%d' % len(plan['faults']),
              'reached:%d' % len(reached)]
    if plan.get('act_only'):
        labels.append('act-only')
    for k in reached:
        labels.append('fault@%s/%s' % (k[0], k[1]))
    key = '%s|%s|%s|%s' % (sorted(plan['n'].items()), plan['status'], plan.get('act_only'),
                           sorted(map(tuple, plan['faults'])))
    if violations:
        b, msg = violations[0]
        return fail('plan/' + b, {'plan': plan, 'violations': [list(x) for x in violations[:5]],
                                  'trace': obs['trace'], 'status': obs.get('status'),
                                  'failure': obs.get('failure')},
                    labels=labels, nontrivial=bool(reached), key=key)
    return Verdict(True, nontrivial=bool(reached), key=key, labels=labels,
                   sample={'plan': plan, 'verdict': obs.get('status'), 'failure': obs.get('failure'),
                           'trace': ['%s/%s/%d' % (r[0], r[1], r[2]) for r in obs['trace']]})


SUBS = [
    Sub('single_faults', check_plan, enumerate=enum_singles, exhaustive=True),
    Sub('fault_x_failing_cleanup', check_plan, enumerate=enum_cleanup_doubles, exhaustive=True),
    Sub('random_plans', check_plan, strategy=lambda tier: plans(max_n=3 if tier == 'quick' else 4),
        budget={'quick': 6000, 'thorough': 200000}),
]


# =====================================================================================================
# Layer B: the same protocol through the CLI with real instructions; effects observed via marker files
# =====================================================================================================
import re

CLI_PHASES = ['setup', 'before-assert', 'assert', 'cleanup']
ABBR = {'setup': 's', 'before-assert': 'b', 'assert': 'a', 'cleanup': 'c'}


def cli_build(case):
    """-> (text, line_of: dict (phase, idx) -> line number, act_line)"""
    n = case['n']
    faults = {(f[0], f[1]): f[2] for f in case['faults']}
    blocks = {}
    conf = []
    if case['status'] != 'unset':
        conf.append('status = ' + case['status'])
    blocks['conf'] = conf
    for ph in CLI_PHASES:
        lines = []
        for i in range(n[ph]):
            tag = '%s%d' % (ABBR[ph], i)
            kind = faults.get((ph, i))
            if kind is None:
                lines.append('$ echo %s >> {MARKERS}' % tag)
            elif kind in ('main-hard', 'main-fail'):
                if ph == 'assert' and kind == 'main-hard':
                    lines.append('contents missing-file-%s : is-empty' % tag)
                else:
                    lines.append('$ echo %s >> {MARKERS}; exit 3' % tag)
            elif kind == 'pre':
                lines.append('copy missing-home-file-%s' % tag)
            elif kind == 'sym':
                lines.append('def string X_%s = @[UNDEFINED_%s]@' % (tag, tag))
            else:
                raise ValueError(kind)
        if ph == 'setup' and faults.get(('act', 0)) == 'act-stdin':
            lines.append('stdin = -contents-of -rel-act missing-stdin-file')
        blocks[ph] = lines
    ak = faults.get(('act', 0))
    if ak == 'act-hard':
        blocks['act'] = ['% no-such-program-verif-c01']
    elif ak == 'act-syntax':
        blocks['act'] = ['$ echo act >> {MARKERS}', '$ echo act2 >> {MARKERS}']
    else:
        blocks['act'] = ['$ echo act >> {MARKERS}']
    out = []
    line_of = {}
    for ph in case['order']:
        out.append('[%s]' % ph)
        for i, l in enumerate(blocks[ph]):
            out.append(l)
            line_of[(ph, i)] = len(out)
        out.append('')
    return '\n'.join(out) + '\n', line_of


def cli_expected(case):
    """-> (markers, candidates) candidates = list of (identifier, phase, idx|None) acceptable reports; [] = success"""
    n = case['n']
    faults = {(f[0], f[1]): f[2] for f in case['faults']}
    status = 'PASS' if case['status'] == 'unset' else case['status']
    val = [(k, v) for k, v in faults.items() if v in ('pre', 'sym')]
    if faults.get(('act', 0)) == 'act-syntax':
        # act parse comes first in the implementation, but the property only says "validates every phase before
        # any main step": any of the defects may be the one reported
        cands = [('SYNTAX_ERROR', 'act', None)] + [('VALIDATION_ERROR', k[0], k[1]) for k, _ in val]
        return [], cands
    if val:
        return [], [('VALIDATION_ERROR', k[0], k[1]) for k, _ in val]
    markers = []
    first = None  # (identifier, phase, idx)
    for i in range(n['setup']):
        markers.append('s%d' % i)
        if faults.get(('setup', i)) == 'main-hard':
            first = ('HARD_ERROR', 'setup', i)
            break
    if first is None:
        ak = faults.get(('act', 0))
        if ak == 'act-stdin':
            first = ('HARD_ERROR', 'act', None)
        elif ak == 'act-hard':
            first = ('HARD_ERROR', 'act', None)
        else:
            markers.append('act')
    if first is None:
        for i in range(n['before-assert']):
            markers.append('b%d' % i)
            if faults.get(('before-assert', i)) == 'main-hard':
                first = ('HARD_ERROR', 'before-assert', i)
                break
    if first is None:
        for i in range(n['assert']):
            k = faults.get(('assert', i))
            if k == 'main-hard':
                first = ('HARD_ERROR', 'assert', i)
                break
            markers.append('a%d' % i)
            if k == 'main-fail':
                first = ('XFAIL' if status == 'FAIL' else 'FAIL', 'assert', i)
                break
    cl = None
    for i in range(n['cleanup']):
        markers.append('c%d' % i)
        if faults.get(('cleanup', i)) == 'main-hard':
            cl = ('HARD_ERROR', 'cleanup', i)
            break
    cands = [c for c in (first, cl) if c is not None]
    return markers, cands


def check_cli(case) -> Verdict:
    text, line_of = cli_build(case)
    exp_markers, cands = cli_expected(case)
    status = 'PASS' if case['status'] == 'unset' else case['status']
    with driver.Workspace() as ws:
        ws.write('t.case', text)
        r = driver.run_inproc(ws, ['t.case'])
        markers = ws.read_markers()
    ident = r.out[:-1] if r.out.endswith('\n') else r.out
    m_phase = re.search(r'^In \[([a-z-]+)\]', r.err, re.M)
    m_line = re.search(r'^t\.case, line (\d+)', r.err, re.M)
    rep_phase = m_phase.group(1) if m_phase else None
    rep_line = int(m_line.group(1)) if m_line else None
    labels = ['cli', 'cli-ident:' + ident, 'cli-faults:%d' % len(case['faults'])] + \
             ['cli-fault:%s/%s' % (f[0], f[2]) for f in case['faults']]
    nontrivial = bool(case['faults'])
    detail = {'case_text': text, 'expected_markers': exp_markers, 'markers': markers,
              'acceptable_reports': cands, 'identifier': ident, 'reported_phase': rep_phase,
              'reported_line': rep_line, 'stderr': r.err[:600], 'exit': r.exit_code}
    if r.exception or r.timed_out:
        detail['exception'] = r.exception
        return fail('cli/exception', detail, labels=labels, nontrivial=nontrivial)
    if markers != exp_markers:
        return fail('cli/marker-trace', detail, labels=labels, nontrivial=nontrivial)
    if not cands:
        exp_ident = 'XPASS' if status == 'FAIL' else 'PASS'
        if ident != exp_ident:
            return fail('cli/verdict-without-failure', detail, labels=labels, nontrivial=nontrivial)
    else:
        ok = False
        for (cid, cph, cidx) in cands:
            exp_line = None if cidx is None else line_of[(cph, cidx)]
            if ident == cid and rep_phase == cph and (exp_line is None or rep_line == exp_line):
                ok = True
        if not ok:
            return fail('cli/report-names-wrong-step', detail, labels=labels, nontrivial=nontrivial)
    if r.exit_code != driver.EXIT_IDENTIFIERS.get(ident):
        return fail('cli/exit-code', detail, labels=labels, nontrivial=nontrivial)
    return Verdict(True, nontrivial=nontrivial, labels=labels,
                   sample={'case_text': text, 'markers': markers, 'identifier': ident,
                           'reported': [rep_phase, rep_line]})


@st.composite
def cli_cases(draw):
    n = {p: draw(st.integers(0, 3)) for p in CLI_PHASES}
    faults = []
    sites = []
    for ph in CLI_PHASES:
        for i in range(n[ph]):
            kinds = ['pre', 'sym']
            if ph == 'assert':
                kinds += ['main-hard', 'main-fail', 'main-fail']
            else:
                kinds += ['main-hard', 'main-hard']
            sites.append((ph, i, kinds))
    sites.append(('act', 0, ['act-syntax', 'act-hard', 'act-stdin']))
    nf = draw(st.sampled_from([0, 1, 1, 1, 2, 2]))
    if nf >= 1:
        ph, i, kinds = draw(st.sampled_from(sites))
        faults.append([ph, i, draw(st.sampled_from(kinds))])
    if nf == 2 and n['cleanup']:
        ci = draw(st.integers(0, n['cleanup'] - 1))
        if not (faults and faults[0][0] == 'cleanup' and faults[0][1] == ci):
            faults.append(['cleanup', ci, 'main-hard'])
    order = draw(st.permutations(['conf', 'setup', 'act', 'before-assert', 'assert', 'cleanup']))
    return {'n': n, 'status': draw(st.sampled_from(['unset', 'PASS', 'FAIL'])), 'faults': faults,
            'order': list(order)}


SUBS.append(Sub('cli_markers', check_cli, strategy=lambda tier: cli_cases(),
                budget={'quick': 1500, 'thorough': 40000}))
