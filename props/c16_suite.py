"""C16 - Suite run: every case once, verdict OK iff all succeed, reporters agree.

A generated description of a directory tree (suite files, case files with an assigned outcome, directories, symbolic
links) is (a) interpreted by the reference model `vlib/ref/c16_suite.py` (written from the manual; it does not import
the code under test) and (b) materialised and run twice in-process: `exactly suite ROOT` (progress reporter) and
`exactly suite --reporter junit ROOT`.  Every executing case appends its id to {MARKERS}.

Oracle (manual pages: `help suite`, `help suite spec`, `help suite cases`, `help suite suites`,
`help reporter progress`, `help reporter junit`):
* bad command line (root file missing / directory without exactly.suite): exit 64, stdout empty, nothing executed;
* invalid suite (missing file, directory without default suite, suite reachable twice incl. cycles and other
  spellings / links, syntax error in any suite file): exit 3 with both reporters, progress prints INVALID_SUITE as last
  line, no case event, no testcase element, no marker;
* valid: progress reports the suites in processing order (sub-suites before the suite that lists them, listing
  order, glob matches sorted), one case event per listed case with the identifier of the assigned outcome, markers =
  the executing cases in that order, each once; last line/exit code OK/0 iff every case ended PASS/SKIPPED/XFAIL, else
  ERROR/4;
* JUnit: exit 0, well formed XML, root `testsuites` iff there are sub-suites, same multiset of cases, per testsuite
  element `tests` = number of testcase children, `failures`/`errors` = number of children with such an element,
  in total `failures+errors` = number of unsuccessful cases, a testcase has a failure/error child iff unsuccessful;
* both reporters agree on case -> successful?.
"""
import os
import posixpath
import re
import xml.etree.ElementTree as ET
from collections import Counter

from vlib import driver
from vlib.gen import c16_gen as gen
from vlib.ref import c16_suite as ref
from vlib.runner import Sub, Verdict, fail

PROPERTY_ID = 'C16'
LEVEL = 'exploration'
RULE = ('cases = suite hierarchies (depth <= 3, <= 3 sub-suite lines and <= 4 cases per suite, <= 12 cases in all) built '
        'from listing lines of 12 case styles (plain, ./ and ../ spellings, globs with * ? [..] [!..], directory globs, '
        '** globs, empty globs, decoy files that must not match) and 11 sub-suite styles (file, sub-directory, '
        'directory with exactly.suite, globs over files/directories, file and directory symlinks, ./ and x/../ '
        'spellings), section layouts (default section, split sections, comments, blank lines, no final newline), '
        'optional suite-level [conf]/[setup] contents (preprocessor), root given as file / directory / in a '
        'sub-directory; every case gets an outcome from PASS FAIL XFAIL XPASS SKIPPED VALIDATION_ERROR HARD_ERROR '
        'SYNTAX_ERROR act-phase-SYNTAX_ERROR FILE_ACCESS_ERROR PRE_PROCESS_ERROR undecodable-bytes (2-3 textual '
        'variants each); 42 % of the hierarchies get one fault (missing case/suite, dangling link, directory without '
        'default suite, double inclusion by 7 spellings, cycles, 3 kinds of syntax error, suite file that is not UTF-8, '
        'directory as case, bad '
        'command line); plus an enumerated verdict matrix (outcome x variant x placement).  Non-trivial = (>= 2 suite '
        'files or a glob) and (>= 1 unsuccessful case or an invalid hierarchy); distinct = distinct generated tree')
ASSUMPTIONS = [
    'a listing line that is one quoted token is a plain file name whatever characters it contains ("Exactly does not '
    'put any restriction on file names"; the repository\'s own tests of the listing-line parser pin this reading); '
    'other uses of quotes on a listing line stay outside the model',
    'a directory listed as a test case: the manual calls only references to NON-EXISTING files an invalid suite and '
    'says ERROR when "a test case could not be executed"; INVALID_SUITE and ERROR-with-unsuccessful-case are both '
    'accepted',
    'an undecodable case file must be reported as unsuccessful with any error identifier (the manual names none)',
    '"glob matches sorted": sorted by path text or component-wise; where the two differ only the set is compared',
    'order of suites: every sub-suite before the suite that lists it; the order among sibling sub-suites is not part '
    'of the statement and not checked (cases inside a suite: listing order, exactly)',
    'case / suite names in the reports are matched to files by resolving them relative to the cwd, to the directory '
    'of the root suite, or as absolute paths (the manual does not define the spelling)',
    'JUnit with an invalid suite: exit code 3 (`help suite`, scenario "Invalid suite") although `help reporter junit` '
    'says "unconditionally 0"; the scenario table is the more specific text',
    'the progress line format `suite NAME: begin|end`, `case  NAME: (T s) IDENTIFIER` is taken from observation; the '
    'manual only says "one event per line"',
    'listing the same case twice (in one or in two suites) is outside the generated domain',
    'a suite file that cannot be decoded is "an error reading the test suite" (`help reporter progress`): '
    'INVALID_SUITE / exit 3 expected; the unchanged tree lets the UnicodeDecodeError escape (defect model KF-C16-2)',
    'KF-C16-1 defect model: the JUnit output equals what the model predicts once an act-phase SYNTAX_ERROR is counted '
    'as a success (no child element, not in errors=); any other difference on the same input stays a violation',
    'the stderr summary is only checked for `Ran N test(s)` with N = number of cases',
]

SUCCESS = set(ref.SUCCESS_IDENTIFIERS)
_SUITE_RE = re.compile(r'^suite (.*): (begin|end)$')
_CASE_RE = re.compile(r'^case +(.*): \((\d+\.\d+)s\) ([A-Z_]+)$')


# ---- materialisation --------------------------------------------------------------------------------------
def materialise(ws, case):
    for path, kind, payload in case['nodes']:
        full = os.path.join(ws.home, path)
        if kind == 'dir':
            os.makedirs(full, exist_ok=True)
        elif kind == 'link':
            os.makedirs(os.path.dirname(full), exist_ok=True)
            os.symlink(payload, full)
        elif kind in ('suite', 'raw'):
            ws.write(path, payload)
        elif kind == 'badsuite':
            ws.write(path, b'\xff\xfe' + ws.subst(payload).encode('utf-8'))
        elif kind == 'case':
            c = gen.case_file_content(payload)
            if c[0] == 'dir':
                os.makedirs(full, exist_ok=True)
            elif c[0] == 'text':
                ws.write(path, c[1])
            else:
                ws.write(path, c[1] + ws.subst(c[2]).encode('utf-8'))
        else:
            raise ValueError(kind)


def render(case):
    """human readable form of a case (evidence samples, failure details)"""
    out = ['$ exactly suite [--reporter junit] ' + case['root']]
    for path, kind, payload in case['nodes']:
        if kind in ('suite', 'raw', 'badsuite'):
            out.append('==> %s (%s)\n%s' % (path, kind if kind != 'badsuite' else 'suite, preceded by the bytes FF FE',
                                            payload))
        elif kind == 'case':
            out.append('==> %s (case %s: %s/%d)' % (path, payload['id'], payload['o'], payload.get('v', 0)))
        elif kind == 'link':
            out.append('==> %s -> %s' % (path, payload))
        else:
            out.append('==> %s/' % path)
    return '\n'.join(out)


# ---- expectation ------------------------------------------------------------------------------------------
class Expect:
    def __init__(self, case):
        self.m = ref.model(case['nodes'], case['root'])
        m = self.m
        self.payload_of = {posixpath.normpath(p): pl for p, k, pl in case['nodes'] if k == 'case'}
        self.suites = []  # (real path of suite, [(real path of case, payload)])
        self.bad_model = list(m.out_of_domain)
        if m.valid:
            for node in m.processing_order:
                cs = []
                for p in node.cases_first_reading():
                    rp = m.vfs.resolve(p)
                    if rp not in self.payload_of:
                        self.bad_model.append('no payload for ' + p)
                        continue
                    cs.append((rp, self.payload_of[rp]))
                self.suites.append((node.real, cs))
        self.cases = [c for _, cs in self.suites for c in cs]
        self.root_dir = posixpath.dirname(m.root.spelled) if m.root is not None else ''
        self.parents = {}
        if m.valid:
            def walk(n):
                for c in n.children:
                    self.parents[c.real] = n.real
                    walk(c)
            walk(m.root)

    def resolve_name(self, name, home):
        """every file the reported name may stand for -> set of real paths"""
        cands = []
        if name.startswith('/'):
            if name.startswith(home + '/'):
                cands.append(name[len(home) + 1:])
        else:
            cands.append(name)
            cands.append(posixpath.join(self.root_dir, name))
        out = set()
        for c in cands:
            r = self.m.vfs.resolve(c)
            if r is not None:
                out.add(r)
        return out


def _success_true(payload):
    return ref.is_success_outcome(payload['o'])


def _success_defect_kf1(payload):
    """defect model KF-C16-1: the JUnit reporter takes an act-phase SYNTAX_ERROR for a success"""
    return payload['o'] == 'ACT_SYNTAX_ERROR' or ref.is_success_outcome(payload['o'])


# ---- progress reporter ------------------------------------------------------------------------------------
def parse_progress(out):
    """-> (suites [(name, [(case name, identifier)])], final identifier, error text or None)"""
    if not out.endswith('\n'):
        return None, None, 'stdout does not end with a newline'
    lines = out[:-1].split('\n')
    final = lines[-1]
    suites = []
    cur = None
    for ln in lines[:-1]:
        ms = _SUITE_RE.match(ln)
        mc = _CASE_RE.match(ln)
        if ms:
            name, what = ms.group(1), ms.group(2)
            if what == 'begin':
                if cur is not None:
                    return None, final, 'suite begins inside another suite: ' + ln
                cur = (name, [])
            else:
                if cur is None or cur[0] != name:
                    return None, final, 'suite end without matching begin: ' + ln
                suites.append(cur)
                cur = None
        elif mc:
            if cur is None:
                return None, final, 'case event outside a suite: ' + ln
            cur[1].append((mc.group(1), mc.group(3)))
        else:
            return None, final, 'line is no event: ' + ln
    if cur is not None:
        return None, final, 'suite without end: ' + cur[0]
    return suites, final, None


def check_progress_valid(exp, r, markers, home):
    """-> ((bucket, extra) of the first mismatch or None, case -> successful? as reported)"""
    suites, final, err = parse_progress(r.out)
    if err:
        return ('progress-output-malformed', {'why': err}), None
    order_doubt = exp.m.order_doubt
    obs_success = {}
    exp_suites = exp.suites
    if len(suites) != len(exp_suites):
        return ('progress-suite-count', {'expected': [s for s, _ in exp_suites], 'observed': [s for s, _ in suites]}), None
    # suites: the same set, every sub-suite before the suite that lists it (the order among siblings is not part
    # of the property statement)
    remaining = list(exp_suites)
    pairs = []
    seen_pos = {}
    for i, (oname, ocases) in enumerate(suites):
        names = exp.resolve_name(oname, home)
        hit = [e for e in remaining if e[0] in names]
        if not hit:
            return ('progress-suite-set', {'expected': [s for s, _ in exp_suites],
                                           'observed': [s for s, _ in suites]}), None
        remaining.remove(hit[0])
        seen_pos[hit[0][0]] = i
        pairs.append((oname, ocases, hit[0][0], hit[0][1]))
    for child, parent in exp.parents.items():
        if seen_pos.get(child, -1) > seen_pos.get(parent, 1 << 30):
            return ('progress-suite-order', {'why': 'sub-suite after the suite that lists it', 'child': child,
                                             'observed': [s for s, _ in suites]}), None
    for oname, ocases, ereal, ecases in pairs:
        if len(ocases) != len(ecases):
            return ('progress-case-count', {'suite': ereal, 'expected': [c for c, _ in ecases],
                                            'observed': [c for c, _ in ocases]}), None
        todo = list(ecases)
        for k, (cname, ident) in enumerate(ocases):
            names = exp.resolve_name(cname, home)
            if not order_doubt:
                ecase = todo[k]
                if ecase[0] not in names:
                    return ('progress-case-order', {'suite': ereal, 'expected': [c for c, _ in ecases],
                                                    'observed': [c for c, _ in ocases]}), None
            else:
                hit = [e for e in todo if e is not None and e[0] in names]
                if not hit:
                    return ('progress-case-set', {'suite': ereal, 'expected': [c for c, _ in ecases],
                                                  'observed': [c for c, _ in ocases]}), None
                ecase = hit[0]
                todo[todo.index(ecase)] = None
            real, payload = ecase
            if ident not in ref.OUTCOMES[payload['o']][0]:
                return ('progress-case-identifier/%s/%s' % (payload['o'], ident),
                        {'case file': real, 'assigned': payload, 'reported': ident}), None
            obs_success[real] = ident in SUCCESS
    exp_markers = [pl['id'] for _, _, _, ecases in pairs for _, pl in ecases if ref.OUTCOMES[pl['o']][1]]
    if (sorted(markers) != sorted(exp_markers)) if order_doubt else (markers != exp_markers):
        what = 'progress-markers-order' if sorted(markers) == sorted(exp_markers) else 'progress-markers'
        return (what, {'expected': exp_markers, 'observed': markers}), None
    all_ok = all(obs_success.values())
    exp_final, exp_exit = ('OK', ref.EXIT_OK) if all_ok else ('ERROR', ref.EXIT_ERROR)
    if final != exp_final or r.exit_code != exp_exit:
        return ('progress-final/%s-%s/%s-%s' % (exp_final, exp_exit, final, r.exit_code),
                {'expected': [exp_final, exp_exit], 'observed': [final, r.exit_code],
                 'case identifiers': [(c, i) for _, cs, _, _ in pairs for c, i in cs]}), None
    mr = re.search(r'^Ran (\d+) tests? in ', r.err, re.M)
    if mr and int(mr.group(1)) != len(exp.cases):
        return ('progress-stderr-summary-count', {'expected': len(exp.cases), 'stderr': r.err[:400]}), None
    return None, obs_success


# ---- JUnit reporter ---------------------------------------------------------------------------------------
def parse_junit(out):
    try:
        root = ET.fromstring(out)
    except ET.ParseError as ex:
        return None, 'not well formed: %s' % ex
    if root.tag == 'testsuite':
        els = [root]
    elif root.tag == 'testsuites':
        els = [e for e in root if e.tag == 'testsuite']
        if len(els) != len(list(root)):
            return None, 'testsuites has children other than testsuite'
    else:
        return None, 'root element is ' + root.tag
    suites = []
    for e in els:
        try:
            counters = {a: int(e.get(a)) for a in ('tests', 'failures', 'errors')}
        except (TypeError, ValueError):
            return None, 'testsuite without integer tests/failures/errors'
        cases = []
        for tc in e.findall('testcase'):
            cases.append((tc.get('name'), tc.find('failure') is not None, tc.find('error') is not None))
        if len(e.findall('.//testcase')) != len(cases):
            return None, 'nested testcase elements'
        suites.append((e.get('name'), counters, cases))
    return (root.tag, suites), None


def check_junit_valid(exp, parsed, success_fn, home):
    """-> ((bucket, extra) or None, case -> success as reported)"""
    root_tag, suites = parsed
    exp_tag = 'testsuites' if len(exp.suites) > 1 else 'testsuite'
    if root_tag != exp_tag:
        return ('junit-root-element/%s/%s' % (exp_tag, root_tag), {}), None
    remaining = Counter(rp for rp, _ in exp.cases)
    obs_success = {}
    groups = []
    tot_tests = tot_bad = 0
    for sname, counters, cases in suites:
        n_fail = n_err = 0
        reals = []
        for cname, has_f, has_e in cases:
            names = [n for n in exp.resolve_name(cname or '', home) if remaining.get(n, 0) > 0]
            if not names:
                return ('junit-unexpected-testcase', {'testcase': cname,
                                                      'expected cases': [c for c, _ in exp.cases]}), None
            real = sorted(names)[0]
            remaining[real] -= 1
            reals.append(real)
            payload = exp.payload_of[real]
            n_fail += has_f
            n_err += has_e
            good = success_fn(payload)
            if good and (has_f or has_e):
                return ('junit-successful-case-has-failure-or-error/' + payload['o'], {'case file': real}), None
            if not good and not (has_f or has_e):
                return ('junit-unsuccessful-case-without-failure-or-error/' + payload['o'], {'case file': real}), None
            obs_success[real] = not (has_f or has_e)
        if counters['tests'] != len(cases):
            return ('junit-tests-attribute', {'suite': sname, 'tests': counters['tests'],
                                              'testcase elements': len(cases)}), None
        if counters['failures'] != n_fail or counters['errors'] != n_err:
            return ('junit-failures-errors-attributes', {'suite': sname, 'attributes': counters,
                                                         'failure children': n_fail, 'error children': n_err}), None
        tot_tests += counters['tests']
        tot_bad += counters['failures'] + counters['errors']
        groups.append(sorted(reals))
    missing = [c for c, n in remaining.items() if n > 0]
    if missing:
        return ('junit-missing-testcase', {'missing': missing}), None
    # one testsuite element per suite (a suite without cases may be left out): same grouping, whatever the names
    exp_groups = sorted(sorted(c for c, _ in cs) for _, cs in exp.suites if cs)
    if sorted(g for g in groups if g) != exp_groups:
        return ('junit-cases-grouped-differently', {'expected': exp_groups, 'observed': sorted(groups)}), None
    n_bad = sum(1 for _, pl in exp.cases if not success_fn(pl))
    if tot_tests != len(exp.cases):
        return ('junit-tests-total', {'expected': len(exp.cases), 'observed': tot_tests}), None
    if tot_bad != n_bad:
        return ('junit-failures-plus-errors-total', {'expected': n_bad, 'observed': tot_bad}), None
    return None, obs_success


# ---- the check --------------------------------------------------------------------------------------------
def check(case) -> Verdict:
    exp = Expect(case)
    m = exp.m
    meta = case.get('meta') or {}
    labels = ['root:%s' % meta.get('root_style')] + (['fault:%s' % meta['fault']] if meta.get('fault') else [])
    if exp.bad_model:
        # the generator left the domain of the model: never a violation, but counted (must stay ~0)
        return Verdict(True, nontrivial=False, labels=labels + ['OUT-OF-DOMAIN'], sample=exp.bad_model[:2])
    n_suite_files = sum(1 for _, k, _ in case['nodes'] if k in ('suite', 'badsuite'))
    has_glob = any(f.startswith('glob:') for f in m.features)
    labels += ['feature:' + f for f in sorted(m.features) if f not in ('root:dir-arg', 'unreadable-suite')]
    if m.order_doubt:
        labels.append('order-doubt(set-compare)')

    with driver.Workspace() as ws:
        materialise(ws, case)
        home = ws.home
        rp = driver.run_inproc(ws, ['suite', case['root']])
        markers_p = ws.read_markers()
        if os.path.exists(ws.markers):
            os.remove(ws.markers)
        left_p = rp.sandboxes
        rj = driver.run_inproc(ws, ['suite', '--reporter', 'junit', case['root']])
        markers_j = ws.read_markers()
        left_j = rj.sandboxes

    def bad(bucket, extra=None, **kw):
        d = {'what': bucket, 'model': {'usage': m.usage, 'invalid': m.invalid[:4], 'either': m.either[:2],
                                       'processing order': [(s, [c for c, _ in cs]) for s, cs in exp.suites]},
             'progress': {'exit': rp.exit_code, 'out': rp.out[:1500], 'err': rp.err[:800], 'markers': markers_p},
             'junit': {'exit': rj.exit_code, 'out': rj.out[:1500], 'err': rj.err[:300], 'markers': markers_j},
             'case': render(case)}
        d.update(extra or {})
        return fail(bucket, d, labels=labels, nontrivial=True, **kw)

    # defect model KF-C16-2: a suite file that is not UTF-8 is the only thing wrong, and the decoding error escapes
    if m.invalid and all(x.startswith('unreadable-suite:') for x in m.invalid) and not m.usage:
        if all((r.exception or '').startswith('UnicodeDecodeError') and r.out == '' and r.exit_code is None
               for r in (rp, rj)) and not markers_p and not markers_j:
            return Verdict(ok=False, known='KF-C16-2', bucket='undecodable-suite-file-escapes-as-exception',
                           detail={'exception': rp.exception[:300], 'case': render(case)},
                           labels=labels + ['class:invalid', 'KF-C16-2'], nontrivial=n_suite_files >= 2)
    for name, r in (('progress', rp), ('junit', rj)):
        if r.timed_out:
            return Verdict(inconclusive=True, labels=labels + ['timeout'])  # 60 s alarm: load artefact, never a verdict
        if r.exception:
            return bad(name + '-escaped-exception', {'exception': r.exception})
        if r.cwd_changed or r.env_diff:
            return bad(name + '-cwd-or-env-changed', {'cwd': r.cwd_changed, 'env': r.env_diff})

    # --- bad command line
    if m.usage:
        labels.append('class:usage')
        for name, r, mk in (('progress', rp, markers_p), ('junit', rj, markers_j)):
            if r.exit_code != ref.EXIT_USAGE:
                return bad('usage-exit-code/' + name)
            if r.out != '':
                return bad('usage-stdout-not-empty/' + name)
            if mk:
                return bad('usage-case-executed/' + name)
        return Verdict(True, nontrivial=False, labels=labels)

    invalid = bool(m.invalid)
    if not invalid and m.either:
        if rp.exit_code == ref.EXIT_INVALID or rj.exit_code == ref.EXIT_INVALID:
            invalid = True  # the reading "not a file => invalid suite": must then hold for both reporters
    # --- invalid suite
    if invalid:
        labels.append('class:invalid')
        if rp.exit_code != ref.EXIT_INVALID:
            return bad('invalid-exit-code/progress/%s' % rp.exit_code)
        if not rp.out.endswith('\n') or rp.out[:-1].split('\n')[-1] != 'INVALID_SUITE':
            return bad('invalid-last-line/progress')
        if any(_CASE_RE.match(ln) for ln in rp.out.split('\n')):
            return bad('invalid-but-case-event/progress')
        if markers_p:
            return bad('invalid-but-case-executed/progress')
        if rj.exit_code != ref.EXIT_INVALID:
            return bad('invalid-exit-code/junit/%s' % rj.exit_code)
        if '<testcase' in rj.out:
            return bad('invalid-but-testcase-element/junit')
        if markers_j:
            return bad('invalid-but-case-executed/junit')
        return Verdict(True, nontrivial=n_suite_files >= 2 or has_glob, labels=labels, sample=render(case))

    # --- valid suite
    labels.append('class:valid')
    labels.append('suites:%s' % ('1' if len(exp.suites) == 1 else '2-3' if len(exp.suites) < 4 else '4+'))
    labels.append('depth:%d' % m.depth)
    labels.append('cases:%s' % ('0-3' if len(exp.cases) < 4 else '4-7' if len(exp.cases) < 8 else '8+'))
    for o in sorted(set(pl['o'] for _, pl in exp.cases)):
        labels.append('outcome:' + o)
    if any(node.has_preprocessor for node in m.processing_order):
        labels.append('feature:suite-preprocessor')
    n_bad = sum(1 for _, pl in exp.cases if not _success_true(pl))
    labels.append('final:' + ('OK' if n_bad == 0 else 'ERROR'))
    nontrivial = (len(exp.suites) >= 2 or has_glob) and n_bad >= 1

    mis, succ_p = check_progress_valid(exp, rp, markers_p, home)
    if mis:
        return bad(mis[0], mis[1])
    if left_p or left_j:
        return bad('sandbox-left-behind', {'after progress run': left_p, 'after junit run': left_j})
    # JUnit
    if rj.exit_code != ref.EXIT_OK:
        return bad('junit-exit-code/%s' % rj.exit_code)
    parsed, err = parse_junit(rj.out)
    if err:
        return bad('junit-xml-malformed', {'why': err})
    if markers_j != markers_p:
        # the progress run's markers were checked against the model; the same hierarchy must execute alike
        return bad('junit-markers', {'expected (as in the progress run)': markers_p, 'observed': markers_j})
    mis, succ_j = check_junit_valid(exp, parsed, _success_true, home)
    if mis:
        # defect model KF-C16-1: everything is as the model says once act-phase SYNTAX_ERROR counts as a success
        if any(pl['o'] == 'ACT_SYNTAX_ERROR' for _, pl in exp.cases):
            mis2, _ = check_junit_valid(exp, parsed, _success_defect_kf1, home)
            if mis2 is None:
                return Verdict(ok=False, known='KF-C16-1', bucket='junit-act-syntax-error-shown-as-success',
                               detail={'what': mis[0], 'junit': rj.out[:1500], 'case': render(case)},
                               labels=labels + ['KF-C16-1'], nontrivial=nontrivial)
        return bad(mis[0], mis[1])
    dis = [c for c in succ_p if succ_p[c] != succ_j.get(c)]
    if dis:
        return bad('reporters-disagree', {'cases': dis})
    return Verdict(True, nontrivial=nontrivial, labels=labels, sample=render(case))


# ---- enumerated verdict matrix ------------------------------------------------------------------------------
def enum_matrix(tier):
    outcomes = [o for o in ref.OUTCOMES if o != 'DIR']
    for o in outcomes:
        for v in range(gen.N_VARIANTS[o]):
            for place in ('root', 'sub', 'glob', 'alone'):
                name = 'ppf1.case' if o == 'PRE_PROCESS_ERROR' else 'c1.case'
                pp = '[conf]\n%s\n' % gen.PP_LINE if o == 'PRE_PROCESS_ERROR' else ''
                nodes = [['pp.sh', 'raw', gen.PP_SH]] if pp else []
                target = {'id': 'c1', 'o': o, 'v': v}
                ok1 = {'id': 'c2', 'o': 'PASS', 'v': 0}
                ok2 = {'id': 'c3', 'o': 'XFAIL', 'v': 0}
                if place == 'root':
                    nodes += [['main.suite', 'suite', pp + '[cases]\nc2.case\n%s\nc3.case\n' % name],
                              [name, 'case', target], ['c2.case', 'case', ok1], ['c3.case', 'case', ok2]]
                elif place == 'alone':
                    nodes += [['main.suite', 'suite', pp + '[cases]\n%s\n' % name], [name, 'case', target]]
                elif place == 'sub':
                    nodes += [['main.suite', 'suite', '[suites]\nsub\n[cases]\nc2.case\n'],
                              ['sub/exactly.suite', 'suite', pp + '[cases]\n%s\nc3.case\n' % name],
                              ['sub/' + name, 'case', target], ['c2.case', 'case', ok1],
                              ['sub/c3.case', 'case', ok2]]
                else:
                    nodes += [['main.suite', 'suite', pp + '[cases]\nd/*.case\n[suites]\ns.suite\n'],
                              ['s.suite', 'suite', 'c2.case\n'],
                              ['d/zz.case', 'case', ok2], ['d/' + name, 'case', target], ['c2.case', 'case', ok1]]
                yield {'root': 'main.suite', 'nodes': nodes,
                       'meta': {'fault': None, 'root_style': 'matrix:' + place}}


# ---- the manual still says what the model transcribes ----------------------------------------------------------
def check_manual(case) -> Verdict:
    what = case['what']
    with driver.Workspace() as ws:
        r = driver.run_inproc(ws, ['help'] + case['args'])
    if r.exit_code != 0 or r.exception:
        return fail('manual-unavailable', {'args': case['args'], 'exit': r.exit_code, 'exc': r.exception})
    txt = ' '.join(r.out.split())
    for needle in case['needles']:
        if not re.search(needle, txt):
            return fail('manual-differs/' + what, {'missing': needle, 'text': r.out[:3000]})
    return Verdict(True, nontrivial=True, key='manual:' + what, labels=['manual:' + what])


_MANUAL = [
    {'what': 'progress-exit-codes', 'args': ['reporter', 'progress'],
     'needles': [r'0 OK All test cases could be executed, and result was one of PASS, SKIPPED, XFAIL\.',
                 r'4 ERROR At least one test case could not be executed',
                 r'FAIL, HARD_ERROR, INTERNAL_ERROR, SYNTAX_ERROR, VALIDATION_ERROR, XPASS',
                 r'3 INVALID_SUITE There was an error reading the test suite\. No test cases have been executed',
                 r'Last line is an exit identifier']},
    {'what': 'junit', 'args': ['reporter', 'junit'],
     'needles': [r'Exit code Unconditionally 0', r"A suite with sub suites is reported as a 'testsuites' element",
                 r"A suite without sub suites is reported as a 'testsuite' element"]},
    {'what': 'suite-scenarios', 'args': ['suite'],
     'needles': [r'Invalid command line arguments .* Exit code 64 stdout empty',
                 r'Invalid suite Syntax error in a suite file, or a reference to a non-existing case or sub-suite file\. '
                 r'Exit code 3',
                 r'If FILE is a directory that contains a file "exactly.suite", then this file becomes the suite file']},
    {'what': 'cases-section', 'args': ['suite', 'cases'],
     'needles': [r'This is the default section', r'File names are relative the location of the test suite file',
                 r'Each line consists of a single file name glob pattern']},
    {'what': 'suites-section', 'args': ['suite', 'suites'],
     'needles': [r'A directory serves as a suite file, if it contains the default suite file "exactly.suite"']},
    {'what': 'suite-syntax', 'args': ['suite', 'spec'],
     'needles': [r'The order of sections is irrelevant',
                 r'A section may appear any number of times\. The contents of all appearances are accumulated',
                 r'Empty lines, and lines beginning with "#" are ignored']},
]

SUBS = [
    Sub('manual_agrees', check_manual, enumerate=lambda tier: _MANUAL, exhaustive=True,
        shards={'quick': 1, 'thorough': 1}),
    Sub('verdict_matrix', check, enumerate=enum_matrix, exhaustive=True, render=render),
    Sub('hierarchies', check, strategy=gen.hierarchies, budget={'quick': 3000, 'thorough': 50000}, render=render),
]
