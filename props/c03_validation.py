"""C03 - Validation precedes execution: an invalid test case has no effects.

Three sub-checks:
* defect_has_no_effect - a generated *base case* with observable effects in every phase (marker lines written to a
  file outside the sandbox, probe runs, files/dirs created in the sandbox) + one defective instruction from a table of
  hand-written templates at a generated (phase, position).
* generated_defect - the defects are generated structurally: a VALID carrier instruction from a grammar with typed
  holes (vlib/gen/c03_grammar.py, built on the C18 grammar) is placed into such a base case (vlib/gen/c03_cases.py),
  and ONE defect operator is applied to ONE hole of it.  One control run (the valid case: must execute, with the
  effects of everything before the carrier) serves several defects; every defect is started in one of the modes
  run / --keep / --act / symbol / symbol NAME / symbol NAME --ref / suite.
* enumerated_defects - the same check over a deterministic sample (independent of the seed) that takes every
  (operator family, hole) of each carrier.
Oracle: exit 65, identifier in the documented set (and the exact one where the manual fixes it), no marker, no probe
output, no sandbox directory created (not even one that is removed again), cwd / environment / home directory
unchanged.  `exactly symbol CASE` never executes anything; on a valid case it lists exactly the defined symbols with
their types and numbers of references.
"""
import os
import re

from hypothesis import strategies as st

from vlib import driver
from vlib.runner import Sub, Verdict, fail

PROPERTY_ID = 'C03'
LEVEL = 'exploration'
RULE = ('defect_has_no_effect: base case = 1-3 effect instructions per phase (marker echo outside the sandbox, probe run, '
        'file/dir creation) in a random file order of phases; one defective instruction from a table of templates per '
        'class {syntax, unknown instruction, undefined symbol, symbol defined later, wrong symbol type (direct / via '
        'intermediate symbol / self reference / inside a FILE-NAME), illegal relativity via symbol, missing home file, '
        'bad integer, bad regex, act-phase syntax, conf-phase errors} inserted at every (phase, position) incl. the '
        'last line of [cleanup].  generated_defect / enumerated_defects: one VALID carrier instruction from a grammar '
        '(every instruction of every phase, every type of def incl. definitions used by a second instruction, [conf] '
        'instructions, [act] contents of three actors, the including directive; token lists with typed holes) placed at '
        '(phase, position) in the main file / in an included file (also included from another phase) / in the phase '
        'section of the suite the case belongs to (exactly.suite or --suite); a defect = ONE operator applied to ONE '
        'hole: reference {undefined, defined later in the same phase / in a later phase that may stand textually '
        'earlier, to the symbol being defined, to a symbol of each of the 13 types the hole does not accept, directly or '
        'through alias chains of 1-3 symbols, non-string inside a FILE-NAME directly or through a string built from a '
        'list / path}, relativity {option the argument does not accept, path symbol of such a relativity through -rel / '
        '@[P]@/x / @[P]@ with chains of 1-3 symbols}, file {missing in home / act-home via option, default relativity, '
        'symbol, symbol chain; missing included file}, value {non-integer / non-evaluable INTEGER also via a string '
        'symbol, REGEX that does not compile also via symbol, replacement template that does not fit, ill-formed '
        'line-number range, word outside a closed set, duplicate / ill-formed SYMBOL-NAME}, form {superfluous '
        'argument, missing argument (at the end of the file), unterminated quote / here-document, unknown option, '
        'instruction of another phase / misspelt, second line of [act]}; started as run / --keep / --act / symbol / '
        'symbol NAME / symbol NAME --ref / suite.  The control is the same case without the edit.  non-trivial = the '
        'control run created a sandbox and left the markers of all earlier phases and of the instructions before the '
        'carrier in its own phase; distinct = distinct (mode, text of all files).  enumerated_defects is independent of '
        'the seed: carrier k from random.Random(4200+k), two variants of every (operator family, hole) of it')
ASSUMPTIONS = [
    'a definition of a matcher/transformer symbol that is never referenced is not validated by the program '
    '(`def text-matcher M = num-lines == x` unused => PASS): ill-formed values (INTEGER, REGEX, replacement, range, '
    'missing file) are put into instructions that are used, or into definitions that a second instruction uses; '
    'symbol and syntax defects are put into unused definitions too',
    'the shape "instruction with a missing trailing argument directly before a phase header / another line" is left '
    'to C07 (known finding KF-C07-1): "missing argument" is generated only at the very end of a file',
    'for bad integer / bad regex / bad replacement / bad range / word outside a closed set / relativity option that is '
    'not accepted the manual does not say which of SYNTAX_ERROR / VALIDATION_ERROR is reported: both accepted; '
    'symbol defects must be VALIDATION_ERROR, mistakes of form SYNTAX_ERROR, a missing included file FILE_ACCESS_ERROR',
    'type rule for symbols inside a FILE-NAME (not spelled out by `help syntax PATH`, taken from the note "If '
    'FILE-NAME begins with a reference to a path symbol, then it is an absolute path" and from the program\'s own '
    'diagnostics "Illegal type ... Expected: string"): a path symbol may only start a FILE-NAME, a list never fits, '
    'every other component must be a string that is built from strings only',
    'accepted relativities are demanded only for arguments that name something to create or change (file, dir, cd, '
    'copy DESTINATION; per phase: cd accepts -rel-result after [act]); reading arguments accept more than their help '
    'pages list (see C12) - only -rel-here ("only available when defining a path symbol") is demanded to be refused '
    'there',
    'a missing file is demanded to be found before execution only where the manual says the file must exist '
    '(copy SOURCE, -contents-of, -existing-file/-dir/-path, executable of a program, dir-contents-of, file of the file '
    'actor, home / act-home) and only when it is relative to a home directory (or the default relativity is one)',
    '--act: "[before-assert] and [assert] are skipped" - the manual does not say whether they are validated: a '
    'symbol / value defect there may go unreported under --act (labelled); nothing else is tolerated',
    '`exactly symbol` reports "errors corresponding to the outcome of running ... but the case is not executed": '
    'syntax and symbol errors must be reported with exit 65; ill-formed values and missing files may be reported or '
    'not (exit 0 with the report) - in both cases nothing may be executed',
    'where the identifier is printed (stdout; stderr under --keep / --act) is not demanded here: it is looked for on '
    'stdout first, then on stderr (a mistake in the suite file is reported on stdout even under --keep / --act)',
    'a replacement template is judged together with its REGEX: it is demanded to be refused before execution only '
    'when the REGEX is a constant (a REGEX that refers to a symbol may be put together when the instruction runs)',
]

IPHASES = ['setup', 'before-assert', 'assert', 'cleanup']
EXEC_ORDER = ['conf', 'setup', 'act', 'before-assert', 'assert', 'cleanup']
ABBR = {'setup': 's', 'before-assert': 'b', 'assert': 'a', 'cleanup': 'c'}

# class -> list of (template, phases it fits (None = all instruction phases), expected identifiers)
SYN = {'SYNTAX_ERROR'}
VAL = {'VALIDATION_ERROR'}
EITHER = {'SYNTAX_ERROR', 'VALIDATION_ERROR'}
DEFECTS = {
    'syntax': [
        ('dir a b', None, SYN),
        ('file f-defect.txt = "x" superfluous', None, SYN),
        ("def string X_DEFECT = 'unterminated", None, SYN),
        ('def string X_DEFECT = a b', None, SYN),
        ('def no-such-type X_DEFECT = a', None, SYN),
        ('cd a b', None, SYN),
        ('copy -no-such-option x', None, SYN),
        ('stdout -no-such-option is-empty', ['assert'], SYN),
        ('env = x', None, SYN),
        ('file -rel-home f-defect.txt = "x"', None, SYN),
        ('stdin = a b', ['setup'], SYN),
    ],
    'unknown-instruction': [
        ('no-such-instruction x', None, SYN),
        ('exit-code == 0', ['setup', 'before-assert', 'cleanup'], SYN),
        ('stdin = "x"', ['before-assert', 'assert', 'cleanup'], SYN),
        ('status = PASS', None, SYN),
        ('Dir x', None, SYN),
    ],
    'undefined-symbol': [
        ('def string X_DEFECT = @[UNDEF]@', None, VAL),
        ('file f-defect.txt = @[UNDEF]@', None, VAL),
        ('file f-defect.txt = "a@[UNDEF]@b"', None, VAL),
        ('% echo @[UNDEF]@', None, VAL),
        ('$ echo @[UNDEF]@ >> {MARKERS}', None, VAL),
        ('def path P_DEFECT = -rel UNDEF x', None, VAL),
        ('cd @[UNDEF]@', None, VAL),
        ('stdout UNDEF', ['assert'], VAL),
        ('exists f : UNDEF', ['assert'], VAL),
        ('file f-defect.txt = "x" -transformed-by UNDEF', None, VAL),
        ('run @ UNDEF', None, VAL),
        ('env V = @[UNDEF]@', None, VAL),
    ],
    'defined-later': [
        ('def string USE_DEFECT = @[LATER]@', None, VAL),
        ('file f-defect.txt = @[LATER]@', None, VAL),
        ('% echo @[LATER]@', None, VAL),
    ],
    'wrong-type': [
        ('def path Q_DEFECT = -rel STR x', None, VAL),
        ('def string Z_DEFECT = @[TM0]@', None, VAL),
        ('% echo @[TM0]@', None, VAL),
        ('file f-defect.txt = @[TM0]@', None, VAL),
        ('def list L_DEFECT = a @[TM0]@', None, VAL),
        ('def text-matcher M_DEFECT = every line : STR', None, VAL),
        ('stdout STR', ['assert'], VAL),
        ('exists f : TM0', ['assert'], VAL),
        ('file f-defect.txt = "x" -transformed-by TM0', None, VAL),
    ],
    'wrong-type-indirect': [
        # symbols that are themselves built from other symbols (STR2 <- STR, LM_OF_STR <- STR_TM <- STR)
        ('def path Q_DEFECT = -rel STR2 x', None, VAL),
        ('stdout LM_OF_STR', ['assert'], VAL),
        ('% echo @[STR_TM]@', None, VAL),
        ('file f-defect.txt = "x" -transformed-by filter STR_TM', None, VAL),
    ],
    'self-reference': [
        # a definition is not visible inside itself: the reference is to an undefined symbol
        ('def string SELF_DEFECT = x@[SELF_DEFECT]@', None, VAL),
        ('def string SELF_DEFECT = "@[SELF_DEFECT]@"', None, VAL),
        ('def list SELF_DEFECT = a @[SELF_DEFECT]@ b', None, VAL),
        ('def path SELF_DEFECT = -rel SELF_DEFECT sub', None, VAL),
        ('def path SELF_DEFECT = @[SELF_DEFECT]@/sub', None, VAL),
        ('def text-matcher SELF_DEFECT = ! SELF_DEFECT', None, VAL),
        ('def text-transformer SELF_DEFECT = identity | SELF_DEFECT', None, VAL),
        ('def program SELF_DEFECT = @ SELF_DEFECT arg', None, VAL),
        ('def text-source SELF_DEFECT = "a @[SELF_DEFECT]@"', None, VAL),
    ],
    'wrong-type-in-path': [
        # inside a FILE-NAME only string symbols may be referenced (a leading path symbol followed by / apart)
        ('dir out-@[WP]@', None, VAL),
        ('dir -rel-tmp out-@[WP]@', None, VAL),
        ('file name-@[LST]@.txt = "c"', None, VAL),
        ('dir a/b-@[LST]@-@[WP]@/c', None, VAL),
        ('cd sub-@[WP]@', None, VAL),
        ('def path Q_DEFECT = pre-@[WP]@', None, VAL),
        ('def path Q_DEFECT = -rel-act @[STR]@/@[LST]@', None, VAL),
        ('file f-defect.txt = "x" -transformed-by replace a @[TM0]@', None, VAL),
        ('% echo -existing-path x-@[TM0]@', None, VAL),
    ],
    'illegal-relativity-via-symbol': [
        ('file @[HP]@ = "c"', None, VAL),
        ('dir @[HP]@/d', None, VAL),
        ('cd @[HP]@', None, VAL),
        ('file @[HP2]@/f = "c"', None, VAL),
        ('dir @[RP]@/d', None, VAL),
    ],
    'missing-home-file': [
        ('copy missing-file', None, VAL),
        ('file f-defect.txt = -contents-of missing-file', None, VAL),
        ('file f-defect.txt = -contents-of -rel-home missing-file', None, VAL),
        ('run missing-prog', None, VAL),
        ('% echo -existing-file missing-file', None, VAL),
        ('stdin = -contents-of missing-file', ['setup'], VAL),
        ('stdout equals -contents-of missing-file', ['assert'], VAL),
    ],
    'bad-integer': [
        ('timeout = x', None, EITHER),
        ('timeout = 1.5', None, EITHER),
        ('timeout = -1', None, EITHER),
        ('exit-code == x', ['assert'], EITHER),
        ('stdout num-lines == x', ['assert'], EITHER),
        ('file f-defect.txt = "x" -transformed-by filter line-num == x', None, EITHER),
        ('file f-defect.txt = "x" -transformed-by filter -line-nums x', None, EITHER),
        ('exit-code == @[STR]@', ['assert'], EITHER),
    ],
    'bad-regex': [
        ("stdout matches 'a('", ['assert'], EITHER),
        ("file f-defect.txt = \"x\" -transformed-by replace 'a(' y", None, EITHER),
        ("file f-defect.txt = \"x\" -transformed-by filter contents matches '*a'", None, EITHER),
        ("file f-defect.txt = \"x\" -transformed-by grep '[a'", None, EITHER),
        ("stdout any line : contents matches '(?P<'", ['assert'], EITHER),
    ],
}
ACT_DEFECTS = [  # (act lines, identifiers)
    (['$ echo act >> {MARKERS}', '$ echo act2 >> {MARKERS}'], SYN),
    (["$ echo act >> {MARKERS}", "second-line"], SYN),
    (["% echo 'unterminated"], SYN),
    (['% echo @[UNDEF]@'], VAL),
    (['missing-executable-file arg'], VAL),
    (['% echo @[TM0]@'], VAL),
    (['@ UNDEF_PROGRAM'], VAL),
    (['% echo -existing-file missing-file'], VAL),
]
CONF_DEFECTS = [
    ('status = BOGUS', SYN), ('home = no-such-dir', VAL), ('act-home = no-such-dir', VAL),
    ('no-such-conf-instruction = x', SYN), ('actor = no-such-actor', SYN), ('status PASS', SYN),
]

BASE_DEFS = [
    'def string STR = v',
    'def string STR2 = @[STR]@',
    'def text-matcher TM0 = is-empty',
    'def path HP = -rel-home x',
    'def path HP2 = -rel HP sub',
    'def path RP = -rel-result x',
    'def text-matcher STR_TM = equals @[STR]@',
    'def line-matcher LM_OF_STR = contents STR_TM',
    'def path WP = -rel-act wp',
    'def list LST = e1 e2',
]


def build(case, with_defect=True):
    """-> text.  case: effects {phase: [kind,...]}, order, defect {cls, variant, phase, pos}, later_place"""
    ph = {p: [] for p in EXEC_ORDER}
    ph['setup'] += BASE_DEFS
    for p in IPHASES:
        for i, kind in enumerate(case['effects'][p]):
            tag = '%s%d' % (ABBR[p], i)
            if kind == 'marker':
                ph[p].append('$ echo %s >> {MARKERS}' % tag)
            elif kind == 'probe':
                ph[p].append('% {PY} {PROBE} {OBS}/probe ' + tag)
                ph[p].append('$ echo %s >> {MARKERS}' % tag)
            elif kind == 'file':
                ph[p].append('file -rel-act made-%s.txt = "x"' % tag)
                ph[p].append('$ echo %s >> {MARKERS}' % tag)
            elif kind == 'dir':
                ph[p].append('dir -rel-tmp made-%s' % tag)
                ph[p].append('$ echo %s >> {MARKERS}' % tag)
    ph['act'] = ['$ echo act >> {MARKERS}']
    d = case['defect']
    if with_defect:
        if d['cls'] == 'act':
            ph['act'] = list(ACT_DEFECTS[d['variant']][0])
        elif d['cls'] == 'conf':
            ph['conf'].append(CONF_DEFECTS[d['variant']][0])
        else:
            tmpl = DEFECTS[d['cls']][d['variant']][0]
            lst = ph[d['phase']]
            n_base = len(BASE_DEFS) if d['phase'] == 'setup' else 0
            pos = n_base + min(d['pos'], len(lst) - n_base)
            lst.insert(pos, tmpl)
            if d['cls'] == 'defined-later':
                later = 'def string LATER = late'
                lp = case.get('later_phase')
                if lp is None or EXEC_ORDER.index(lp) <= EXEC_ORDER.index(d['phase']) or lp not in IPHASES:
                    lst.insert(pos + 1 + min(case.get('later_gap', 0), len(lst) - pos - 1), later)
                else:
                    ph[lp].insert(0, later)
    lines = []
    for p in case['order']:
        if p == 'conf' and not ph['conf']:
            continue
        lines.append('[%s]' % p)
        lines += ph[p]
        if case.get('blank_lines', True):
            lines.append('')
    text = '\n'.join(lines)
    if case.get('final_newline', True):
        text += '\n'
    return text


def base_markers(case):
    out = []
    for p in ['setup', 'act', 'before-assert', 'assert', 'cleanup']:
        if p == 'act':
            out.append('act')
        else:
            out += ['%s%d' % (ABBR[p], i) for i in range(len(case['effects'][p]))]
    return out


def expected_idents(case):
    d = case['defect']
    if d['cls'] == 'act':
        return ACT_DEFECTS[d['variant']][1]
    if d['cls'] == 'conf':
        return CONF_DEFECTS[d['variant']][1]
    return DEFECTS[d['cls']][d['variant']][2]


def check(case) -> Verdict:
    d = case['defect']
    text = build(case, True)
    ctl_text = build(case, False)
    n_probe = sum(1 for p in IPHASES for k in case['effects'][p] if k == 'probe')
    with driver.Workspace() as ws:
        ws.write('t.case', ctl_text)
        rc = driver.run_inproc(ws, ['t.case'])
        ctl_markers = ws.read_markers()
        ctl_probes = len(ws.probe_records('probe'))
        ctl_sandboxes = rc.sandboxes
    with driver.Workspace() as ws:
        ws.write('t.case', text)
        mode = case.get('mode', 'run')
        argv = {'run': ['t.case'], 'keep': ['--keep', 't.case'], 'act': ['--act', 't.case'],
                'symbol': ['symbol', 't.case']}[mode]
        r = driver.run_inproc(ws, argv)
        markers = ws.read_markers()
        probes = len(ws.probe_records('probe'))
        sandboxes = r.sandboxes
        sym_obs = None
        if case.get('also_symbol'):
            ws.write('b.case', ctl_text)
            rs = driver.run_inproc(ws, ['symbol', 'b.case'])
            sym_obs = {'exit': rs.exit_code, 'markers': ws.read_markers(), 'sandboxes': rs.sandboxes + rs.created_dirs,
                       'exception': rs.exception, 'out': rs.out[:300]}
    labels = ['class:' + d['cls'], 'phase:' + d.get('phase', d['cls']), 'mode:' + mode]
    if d['cls'] not in ('act', 'conf'):
        labels.append('variant:%s/%d' % (d['cls'], d['variant']))
        n_in_phase = sum(1 if k == 'marker' else 2 for k in case['effects'][d['phase']])
        if d['pos'] >= n_in_phase:
            labels.append('pos:last')
            if d['phase'] == 'cleanup':
                labels.append('last-line-of-cleanup')
        elif d['pos'] == 0:
            labels.append('pos:first')
        else:
            labels.append('pos:middle')
    detail = {'case_text': text, 'argv': argv, 'exit': r.exit_code, 'out': r.out[:300], 'err': r.err[:700],
              'markers': markers, 'probe_runs': probes, 'sandboxes': sandboxes, 'cwd_changed': r.cwd_changed,
              'control': {'exit': rc.exit_code, 'out': rc.out[:100], 'err': rc.err[:400], 'markers': ctl_markers}}
    # ---- control: the base case has effects in every phase ------------------------------------------------
    if rc.exit_code != 0 or rc.out != 'PASS\n' or ctl_markers != base_markers(case) or ctl_probes != n_probe \
            or ctl_sandboxes:
        return fail('control/base-case-does-not-pass-with-all-effects', detail, labels=labels)
    nontrivial = True  # control run left markers for every phase (checked above); the act marker precedes or
    # follows the defect in execution order, and validation must precede all of them
    key = '%s|%s|%s|%s|%s|%s' % (d['cls'], d.get('variant'), d.get('phase'), d.get('pos'),
                                 sorted((p, tuple(v)) for p, v in case['effects'].items()), mode)

    def bad(what):
        return fail('%s/%s/%s' % (what, d['cls'], mode), detail, labels=labels, nontrivial=nontrivial, key=key)

    if r.exception or r.timed_out:
        detail['exception'] = r.exception
        return bad('exception-or-timeout')
    if mode == 'act' and d.get('phase') in ('before-assert', 'assert') and expected_idents(case) != SYN \
            and r.exit_code != 65:
        # --act: "[before-assert] and [assert] are skipped" - the manual does not say whether they are validated
        return Verdict(True, labels=labels + ['act-mode-skipped-phase-not-validated'])
    if markers:
        return bad('instruction-executed')
    if probes:
        return bad('program-started')
    if sandboxes or r.created_dirs:
        detail['directories_created_during_run'] = r.created_dirs
        return bad('sandbox-created')
    if r.cwd_changed is not None or r.env_diff is not None:
        return bad('process-state-changed')
    if mode == 'symbol':
        # reports without executing; the report itself is not constrained here beyond "no exception"
        pass
    else:
        if r.exit_code != 65:
            return bad('exit-code-not-65')
        ident = r.first_err_line if mode in ('keep', 'act') else r.first_out_line
        allowed = expected_idents(case)
        if ident not in ('SYNTAX_ERROR', 'FILE_ACCESS_ERROR', 'VALIDATION_ERROR'):
            return bad('identifier-not-a-validation-verdict')
        if ident not in allowed:
            detail['allowed'] = sorted(allowed)
            return bad('identifier-of-other-class')
        if mode == 'keep' and r.out != '':
            return bad('keep-prints-sandbox-without-execution')
    if sym_obs is not None:
        if sym_obs['markers'] or sym_obs['sandboxes'] or sym_obs['exception']:
            detail['symbol_run_of_base_case'] = sym_obs
            return bad('symbol-command-executed-something')
    return Verdict(True, nontrivial=nontrivial, key=key, labels=labels,
                   sample={'case_text': text, 'argv': argv, 'identifier': r.first_out_line or r.first_err_line})


_effect = st.sampled_from(['marker', 'marker', 'marker', 'file', 'dir', 'probe'])


@st.composite
def cases(draw):
    effects = {p: draw(st.lists(_effect, min_size=1, max_size=3)) for p in IPHASES}
    # at most one probe per case (25 ms each)
    seen = False
    for p in IPHASES:
        for i, k in enumerate(effects[p]):
            if k == 'probe':
                if seen:
                    effects[p][i] = 'marker'
                seen = True
    cls = draw(st.sampled_from(sorted(DEFECTS) + ['act', 'conf']))
    if cls == 'act':
        defect = {'cls': 'act', 'variant': draw(st.integers(0, len(ACT_DEFECTS) - 1))}
    elif cls == 'conf':
        defect = {'cls': 'conf', 'variant': draw(st.integers(0, len(CONF_DEFECTS) - 1))}
    else:
        variant = draw(st.integers(0, len(DEFECTS[cls]) - 1))
        fits = DEFECTS[cls][variant][1]
        nonlast = False
        if fits is None:
            phase = draw(st.sampled_from(IPHASES))
        elif fits == ['assert-nonlast']:
            phase, nonlast = 'assert', True
        else:
            phase = draw(st.sampled_from(fits))
        # each effect occupies 1-2 lines; position counts lines of the phase
        n_lines = sum(1 if k == 'marker' else 2 for k in effects[phase])
        pos = draw(st.sampled_from([0, n_lines, n_lines, draw(st.integers(0, n_lines))]))
        if nonlast:
            pos = min(pos, n_lines - 1)
        defect = {'cls': cls, 'variant': variant, 'phase': phase, 'pos': pos}
    order = draw(st.permutations(EXEC_ORDER))
    case = {'effects': effects, 'defect': defect, 'order': list(order),
            'mode': draw(st.sampled_from(['run'] * 6 + ['keep', 'act', 'symbol'])),
            'also_symbol': draw(st.integers(0, 9)) == 0,
            'final_newline': draw(st.booleans()),
            'blank_lines': draw(st.booleans()),
            'later_phase': draw(st.none() | st.sampled_from(IPHASES)),
            'later_gap': draw(st.integers(0, 2))}
    return case


def _fix_pos_for_lines(case):
    return case


# ======================================================================================================================
# generated defects: grammar of valid instructions with typed holes + defect operators (vlib/gen/c03_grammar.py)
# ======================================================================================================================
from vlib.gen import c03_cases as GC
from vlib.gen import c03_grammar as CG
from vlib.ref import c03_model as MODEL

_OK_CONTROL_EXITS = (0, 32, 33, 128)
_TIMING = re.compile(r'\(\d+\.\d+s\)')  # the progress reporter of `suite` prints the time a case took
_JOINT_LABELS = bool(os.environ.get('C03_JOINT_LABELS'))


def _materialise(ws, files):
    ws.write_files(CG.HOME_FILES)
    ws.write_files(files)
    for rel in CG.EXECUTABLE:
        os.chmod(os.path.join(ws.home, rel), 0o755)


def _observe(files, argv, subproc=False):
    with driver.Workspace() as ws:
        _materialise(ws, files)
        before = driver.tree_snapshot(ws.home)
        r = driver.run_subproc(ws, argv) if subproc else driver.run_inproc(ws, argv)
        after = driver.tree_snapshot(ws.home)
        return {'exit': r.exit_code, 'out': r.out, 'err': r.err, 'exception': r.exception, 'timed_out': r.timed_out,
                'markers': ws.read_markers(), 'probes': len(ws.probe_records('probe')), 'sandboxes': r.sandboxes,
                'created': len(r.created_dirs), 'cwd_changed': r.cwd_changed, 'env_diff': r.env_diff,
                'home_changed': sorted(k for k in set(before) | set(after) if before.get(k) != after.get(k))}


def _first_line(text):
    return text.split('\n', 1)[0] if text else ''


def _short(o):
    return {k: (v[:600] if isinstance(v, str) else v) for k, v in o.items()}


def _pos_label(case):
    car = case['carrier']
    if car['ph'] not in IPHASES:
        return 'pos:' + car['ph']
    n = len(case['effects'][car['ph']])
    if car['pos'] >= n:
        return 'pos:last'
    return 'pos:first' if car['pos'] == 0 else 'pos:middle'


def nothing_happened(o):
    """-> None | what happened although the case is invalid"""
    if o['exception'] or o['timed_out']:
        return 'exception-or-timeout'
    if o['markers']:
        return 'instruction-executed'
    if o['probes']:
        return 'program-started'
    if o['sandboxes'] or o['created']:
        return 'sandbox-created'
    if o['cwd_changed'] is not None or o['env_diff'] is not None:
        return 'process-state-changed'
    if o['home_changed']:
        return 'home-directory-changed'
    return None


def judge_defect(case, d, o, built):
    """-> None | (what, extra detail).  o: observation of the run of the defective case in mode d['mode']"""
    op = d['op']
    mode = d['mode']
    cls = op['cls']
    cph = case['carrier']['ph']
    idents = MODEL.IDENTS[op['expect']]
    in_suite_file = case['carrier']['where'] == 'suite'
    if o['exception'] or o['timed_out']:
        return 'exception-or-timeout', {}
    if mode == 'act' and cph in ('before-assert', 'assert') and cls != CG.CLS_SYNTAX and o['exit'] != 65:
        # --act: "[before-assert] and [assert] are skipped" - the manual does not say whether they are validated
        return 'tolerated', 'act-mode-skipped-phase-not-validated'
    if mode.startswith('symbol') and cls in (CG.CLS_VALUE, CG.CLS_FILE) and o['exit'] == 0:
        # `symbol` reports "errors corresponding to the outcome of running", "but the case is not executed": the
        # manual does not say whether values and files are looked at; nothing may happen in any case
        what = nothing_happened(o)
        return (what, {}) if what else ('tolerated', 'symbol-command-does-not-look-at-values')
    what = nothing_happened(o)
    if what:
        return what, {}
    if mode == 'symbol-suite' and cls == CG.CLS_SYNTAX and o['exit'] == 3 and \
            (_first_line(o['out']) or _first_line(o['err'])) == 'INVALID_SUITE':
        return None  # "corresponding to the outcome of running the corresponding ... test suite"
    if mode == 'suite':
        if in_suite_file and cls == CG.CLS_SYNTAX:
            # a mistake of form in the suite file itself: "Invalid suite ... Exit code 3"
            if o['exit'] == 3 and o['out'].rstrip('\n').split('\n')[-1] == 'INVALID_SUITE':
                return None
        lines = o['out'].rstrip('\n').split('\n')
        case_lines = [l for l in lines if l.startswith('case ')]
        if o['exit'] != 4 or lines[-1] != 'ERROR' or len(case_lines) != 1:
            return 'suite-run-not-reported-as-error', {}
        ident = case_lines[0].rsplit(' ', 1)[-1]
        if ident not in MODEL.NOT_EXECUTED_IDENTS:
            return 'identifier-not-a-validation-verdict', {'identifier': ident}
        if ident not in idents:
            return 'identifier-of-other-class', {'identifier': ident, 'allowed': list(idents)}
        return None
    if o['exit'] != 65:
        return 'exit-code-not-65', {}
    # where the identifier is printed is not C03's business (stdout normally, stderr under --keep / --act - but
    # stdout again when the mistake is in the suite file): it is looked for on stdout first, then on stderr
    ident = _first_line(o['out']) or _first_line(o['err'])
    if ident not in MODEL.NOT_EXECUTED_IDENTS:
        return 'identifier-not-a-validation-verdict', {'identifier': ident}
    if ident not in idents:
        return 'identifier-of-other-class', {'identifier': ident, 'allowed': list(idents)}
    if mode in ('keep', 'act') and o['out'] not in ('', ident + '\n'):
        return 'output-on-stdout-without-execution', {}
    return None


def check_generated(case) -> Verdict:
    car = case['carrier']
    cph = car['ph']
    ctl = GC.build_files(case, None)
    oc = _observe(ctl['files'], GC.argv_for('run', ctl)[1])
    instr = car['elems'][0]['name']
    base_labels = ['ph:' + cph, 'where:' + car['where'], _pos_label(case), 'control:%s' % _first_line(oc['out'])]
    if car['where'] == 'inc' and car.get('inc_from') not in (None, cph):
        base_labels.append('included-from-other-phase')
    if car['where'] == 'inc' and car.get('inc_depth', 1) == 2:
        base_labels.append('included-by-included-file')
    if car['where'] == 'suite':
        base_labels.append('suite:' + ('--suite' if car.get('suite_explicit') else 'exactly.suite'))
    if GC.is_at_eof(case):
        base_labels.append('at-eof')
        if cph == 'cleanup' and car['where'] == 'main':
            base_labels.append('last-line-of-cleanup')
    detail = {'control_files': ctl['files'], 'control': _short(oc)}
    # ---- control: the valid case is executed, with effects before and in the phase of the carrier
    must = GC.markers_before_carrier(case)
    problem = None
    if oc['timed_out']:
        return Verdict(inconclusive=True, labels=base_labels + ['control-timeout'])
    if oc['exception'] or oc['timed_out'] or oc['exit'] not in _OK_CONTROL_EXITS:
        problem = 'valid-case-not-executed'
    elif [m for m in oc['markers'] if m in must] != must:
        problem = 'effects-of-earlier-instructions-missing'
    elif cph == 'act' and 'act' not in oc['markers']:
        problem = 'action-to-check-left-no-marker'
    elif cph == 'conf' and (oc['exit'] not in (0, 33) or oc['markers'] != GC.all_markers(case)):
        problem = 'conf-control-does-not-pass'
    elif oc['cwd_changed'] is not None or oc['env_diff'] is not None or oc['home_changed'] or oc['sandboxes']:
        problem = 'valid-case-leaves-traces'
    if problem:
        detail['must_markers'] = must
        return fail('generated/control/' + problem, detail, labels=base_labels)
    nontrivial = bool(oc['markers']) and oc['created'] > 0
    labels = list(base_labels)
    keys = []
    # ---- `exactly symbol` on the valid case: reports, executes nothing
    if case.get('symbol_check'):
        for smode in ('symbol', 'symbol-def', 'symbol-ref'):
            argv = GC.argv_for(smode, ctl)[1]
            osym = _observe(ctl['files'], argv)
            what = nothing_happened(osym)
            listing = None
            if not what and osym['exit'] != 0:
                what = 'valid-case-not-reported'
            if not what and smode == 'symbol':
                listing = MODEL.parse_symbol_list(osym['out'])
                want = MODEL.expected_symbol_list(CG.PRELUDE_SYMBOLS, car['elems'],
                                                  GC.PRE_USE_REFERENCES if case.get('pre_use') else None)
                if listing is None:
                    what = 'listing-of-other-form'
                elif sorted((t, n) for t, _, n in listing) != sorted((t, n) for t, _, n in want):
                    what = 'listing-is-not-the-defined-symbols'
                elif sorted(listing) != sorted(want):
                    what = 'listing-with-other-reference-counts'
                detail['expected_listing'] = want
            if not what and smode == 'symbol-def' and not osym['out'].startswith('string'):
                what = 'definition-not-reported'
            labels.append('symbol-cmd-on-valid')
            if what:
                detail['symbol_run'] = dict(_short(osym), argv=argv)
                return fail('symbol-command/valid-case/' + what, detail, labels=labels, nontrivial=nontrivial)
    # ---- the defects
    for d in case['defects']:
        op = d['op']
        built = GC.build_files(case, d)
        extra, argv = GC.argv_for(d['mode'], built)
        files = dict(built['files'])
        files.update(extra)
        if built['files'] == ctl['files']:
            labels.append('identity-edit')
            continue
        o = _observe(files, argv)
        if o['timed_out']:
            return Verdict(inconclusive=True, labels=labels + ['timeout'])
        hole_kind = car['elems'][d['ei']]['toks'][op['tok']][1].split(':')[0] if 'tok' in op else (
            'path' if op['edit'] == 'span' else 'instruction')
        dl = ['op:' + op['op'], 'mode:' + d['mode'], 'cls:' + op['cls'], 'hole:' + hole_kind]
        if _JOINT_LABELS:  # development only: the evidence keeps the 150 most frequent labels
            dl += ['J|%s|%s|%s|%s|%s|%s|%s' % (op['op'], hole_kind, cph, _pos_label(case)[4:], car['where'], d['mode'],
                                              car['elems'][d['ei']]['name'])]
        if op['op'] == 'wrong-type':
            dl += ['wrong-type:' + op['wtype'], 'chain-depth:%d' % op['depth']]
        if 'later' in op:
            dl.append('later:' + built['later_where'])
        if any(e.get('use_of') for e in car['elems']) and d['ei'] == 0:
            dl.append('in-definition-used-elsewhere:' + op['cls'])
        if op['op'] in ('relativity-via-symbol', 'relativity-option'):
            dl.append('rel:%s/%s' % (op['op'], op['rel']))
        if op['op'] == 'relativity-via-symbol':
            dl += ['rel-via:%s/depth-%d' % (op['form'], op['depth'])]
        if op['op'] == 'wrong-type-in-path':
            dl += ['in-path:%s/%s' % (op['wtype'], 'with-relativity' if op['with_rel'] else 'default-relativity'),
                   ]
        if op['op'] == 'missing-home-file':
            dl += ['missing:' + op['form']]
        verdict = judge_defect(case, d, o, built)
        if verdict is None and case.get('subproc'):
            # the same through a real OS process: guards against artefacts of the in-process driver
            dl.append('also-as-os-process')
            osub = _observe(files, argv, subproc=True)
            if osub['timed_out']:
                dl.append('os-process-timeout')
            elif (osub['exit'], _TIMING.sub('(T)', osub['out'])) != (o['exit'], _TIMING.sub('(T)', o['out'])) or \
                    nothing_happened(osub):
                detail['as_os_process'] = _short(osub)
                verdict = ('os-process-differs-or-acts:%s' % (nothing_happened(osub) or 'other-report'), {})
        if verdict is not None and verdict[0] == 'tolerated':
            dl.append(verdict[1])
            verdict = None
        ident = _first_line(o['out']) or _first_line(o['err'])
        dl.append('outcome:%s' % (ident if o['exit'] == 65 else 'exit-%s' % o['exit']))
        labels += dl
        keys.append('%s|%s' % (d['mode'], '\x00'.join(files[k] for k in sorted(files))))
        if verdict is not None:
            what, more = verdict
            detail.update({'defect': d, 'files': files, 'argv': argv, 'observed': _short(o),
                           'carrier_valid': ctl['carrier_lines'], 'carrier_defective': built['carrier_lines'],
                           'allowed_identifiers': list(MODEL.IDENTS[op['expect']])})
            detail.update(more)
            return fail('generated/%s/%s/%s' % (what, op['op'], d['mode']), detail, labels=labels,
                        nontrivial=nontrivial, key='\x01'.join(keys))
    return Verdict(True, nontrivial=nontrivial and bool(keys), key='\x01'.join(keys) if keys else None, labels=labels,
                   sample={'case': ctl['files']['t.case'],
                           'defects': [[d['op']['op'], d['mode']] for d in case['defects']]})


# ---- the result directory before the act phase -------------------------------------------------------------------------
# `help setup <instruction>` lists no `-rel-result` for any PATH argument ([act] makes the result directory; the pages of
# the same instructions in the phases after [act] list it): in [setup] such a path - written with the option or reached
# through a path symbol - is a mistake that is found before anything executes.
_RBA_SITES = [  # (name, lines with {P} = the PATH argument)
    ('copy-source', ['copy {P}']),
    ('file-contents-of', ['file rba1.txt = -contents-of {P}']),
    ('file-append-contents-of', ['file rba0.txt = "x"', 'file rba0.txt += -contents-of {P}']),
    ('env-contents-of', ['env RBA_V = -contents-of {P}']),
    ('env-of-act-contents-of', ['env -of act RBA_V = -contents-of {P}']),
    ('env-of-non-act-contents-of', ['env -of !act RBA_V = -contents-of {P}']),
    ('stdin-contents-of', ['stdin = -contents-of {P}']),
    ('env-contents-of-transformed', ['env RBA_V = -contents-of {P} -transformed-by char-case -to-upper']),
    ('run-executable', ['run {P}']),
    ('run-existing-file-argument', ['run % cat -existing-file {P}']),
    ('file-stdout-from-executable', ['file rba2.txt = -stdout-from {P}']),
    ('dir-contents-of', ['dir rba3 = dir-contents-of {P}']),
    ('def-text-source-used', ['def text-source RBA_TS = -contents-of {P}', 'file rba4.txt = @[RBA_TS]@']),
    ('def-program-used', ['def program RBA_PGM = {P}', 'run @ RBA_PGM']),
]
_RBA_FORMS = [  # (name, definitions, PATH text)
    ('option', [], '-rel-result stdout'),
    ('rel-symbol', ['def path RBA_P = -rel-result stdout'], '-rel RBA_P .'),
    ('leading-reference', ['def path RBA_P = -rel-result .'], '@[RBA_P]@/stdout'),
    ('whole-reference', ['def path RBA_P = -rel-result stdout'], '@[RBA_P]@'),
    ('chain-of-2', ['def path RBA_P0 = -rel-result .', 'def path RBA_P = -rel RBA_P0 .'], '@[RBA_P]@/stdout'),
    ('chain-of-3', ['def path RBA_P0 = -rel-result .', 'def path RBA_P1 = @[RBA_P0]@/.',
                    'def path RBA_P = -rel RBA_P1 .'], '-rel RBA_P stdout'),
]
_RBA_MODES = [('run', []), ('keep', ['--keep']), ('act', ['--act']), ('symbol', None)]


def enum_result_before_act(tier):
    for site, lines in _RBA_SITES:
        for form, defs, path in _RBA_FORMS:
            for k, (mode, _) in enumerate(_RBA_MODES):
                for where in ('first', 'last'):
                    yield {'site': site, 'form': form, 'mode': mode, 'where': where}


def check_result_before_act(case) -> Verdict:
    lines = dict(_RBA_SITES)[case['site']]
    _, defs, path = [f for f in _RBA_FORMS if f[0] == case['form']][0]
    mode_args = dict(_RBA_MODES)[case['mode']]
    labels = ['site:' + case['site'], 'form:' + case['form'], 'mode:' + case['mode'], 'where:' + case['where']]

    def text(p):
        body = [l.replace('{P}', p) for l in lines]
        setup = ['$ echo s0 >> {MARKERS}'] + defs
        setup = (body + setup) if case['where'] == 'first' and not defs else (setup + body)
        return '\n'.join(['[setup]'] + setup + ['[act]', '$ echo act >> {MARKERS}', '[cleanup]',
                                                '$ echo c0 >> {MARKERS}']) + '\n'

    argv = (['symbol', 't.case'] if mode_args is None else mode_args + ['t.case'])
    files = {'t.case': text(path)}
    o = _observe(files, argv)
    key = '%s|%s|%s|%s' % (case['site'], case['form'], case['mode'], case['where'])
    detail = {'files': files, 'argv': argv, 'observed': _short(o)}
    what = nothing_happened(o)
    if not what and o['exit'] != 65:
        what = 'exit-code-not-65'
    if not what:
        ident = _first_line(o['out']) or _first_line(o['err'])
        want = ('SYNTAX_ERROR', 'VALIDATION_ERROR') if case['form'] == 'option' else ('VALIDATION_ERROR',)
        if ident not in want:
            what = 'reported-as-%s' % ident
    if what:
        return fail('result-before-act/%s/%s' % (what, case['form']), detail, labels=labels, nontrivial=True, key=key)
    return Verdict(True, nontrivial=True, key=key, labels=labels)


SUBS = [
    Sub('defect_has_no_effect', check, strategy=lambda tier: cases(),
        budget={'quick': 600, 'thorough': 10000}),
    Sub('generated_defect', check_generated, strategy=lambda tier: GC.generated_cases(tier),
        budget={'quick': 1400, 'thorough': 16000}),
    Sub('enumerated_defects', check_generated, enumerate=GC.enumerated_cases),
    Sub('result_dir_before_act', check_result_before_act, enumerate=enum_result_before_act, exhaustive=True),
]
